#!/bin/bash
# usage: tools/run_seed.sh <seed-dir-name> <property> [tier]
# Applies /verif/seeded/<name>/patch.diff to /repo, runs the check, and undoes the patch.
S=/verif/seeded/$1; P=$2; T=${3:-quick}
[ -f $S/patch.diff ] || { echo "no such seed"; exit 2; }
if ! git -C /repo diff --quiet; then echo "/repo has uncommitted changes"; exit 2; fi
git -C /repo apply $S/patch.diff || { echo "patch does not apply"; exit 2; }
/verif/bin/f2gcheck -prop $P -tier $T > /root/.runseed.$$ 2>&1; rc=$?
git -C /repo checkout -- . ; git -C /repo clean -qfd
grep -E "VIOLATION|UNDECIDED|KNOWN-FINDING|obligations," /root/.runseed.$$ | grep -v "^VIOLATION property" | cut -c1-400
echo "exit=$rc"; rm -f /root/.runseed.$$
exit $rc
