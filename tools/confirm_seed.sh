#!/bin/bash
# usage: tools/confirm_seed.sh <worktree> <seed-id>
# Confirms a seeded change left by a sub-agent (worktree = HEAD + change + demo):
# existing suite passes with it, demo fails with it and passes without it.
# Then stores it under /verif/seeded/<seed-id>/.
WT=$1; ID=$2
set -u
cd "$WT" || exit 2
[ -f _seed/patch.diff ] || { echo "no patch.diff"; exit 2; }
export GOFLAGS=-mod=mod GOPROXY=off GOSUMDB=off GOTOOLCHAIN=local
# make sure the tracked tree is exactly HEAD + patch
git checkout -q -- . && git apply _seed/patch.diff || { echo "patch does not apply to HEAD"; exit 2; }
T=/root/.seedtmp.$$; mkdir -p $T
echo "== existing suite with the change"
/verif/tools/baseline.sh "$WT"; SUITE=$?
echo "== demo WITH the change (expect non-zero)"
bash _seed/demo.sh > $T/with.log 2>&1; WITH=$?
git apply -R _seed/patch.diff
echo "== demo WITHOUT the change (expect zero)"
bash _seed/demo.sh > $T/without.log 2>&1; WITHOUT=$?
git apply _seed/patch.diff
echo "suite=$SUITE with=$WITH without=$WITHOUT"
if [ $SUITE -eq 0 ] && [ $WITH -ne 0 ] && [ $WITHOUT -eq 0 ]; then
  D=/verif/seeded/$ID; mkdir -p $D
  for f in _seed/*; do case "$f" in */PROPERTY.txt) ;; *) cp -r "$f" $D/;; esac; done
  grep -E "^(--- FAIL|FAIL|ok|panic|\s+.*Error)" $T/with.log | head -8 > $D/demo_with_change.txt
  grep -E "^(--- FAIL|FAIL|ok|PASS)" $T/without.log | head -8 > $D/demo_without_change.txt
  echo "CONFIRMED -> $D"
else
  echo "NOT CONFIRMED"; tail -20 $T/with.log; echo ----; tail -20 $T/without.log
fi
rm -rf $T
