// Package mono is the monotonicity analysis (engine E8): a sign-of-dependence
// abstract interpretation over SSA. Every value is classified with respect to a
// set of designated inputs as independent of them, non-decreasing in them,
// non-increasing in them, or unknown. "Non-decreasing" is meant in the product
// order: if every input is >= (everything else equal), the value is >=.
//
// The analysis is a proof method: Up/Down/Indep are established facts (under
// the recorded hypotheses), Unknown is "no proof", never "refuted".
package mono

import (
	"fmt"
	"go/token"
	"go/types"
	"sort"
	"strings"

	"f2gcheck/internal/ir"
	"f2gcheck/internal/ranges"

	"golang.org/x/tools/go/ssa"
)

var debug = false

type Dir uint8

const (
	Indep Dir = iota
	Up
	Down
	Unknown
)

func (d Dir) String() string {
	return [...]string{"independent", "non-decreasing", "non-increasing", "unknown"}[d]
}

func join(a, b Dir) Dir {
	switch {
	case a == Indep:
		return b
	case b == Indep:
		return a
	case a == b:
		return a
	}
	return Unknown
}

func neg(d Dir) Dir {
	switch d {
	case Up:
		return Down
	case Down:
		return Up
	}
	return d
}

// An analyses one function.
type An struct {
	Fn *ssa.Function
	// Source designates inputs (and may give summaries for arbitrary values, e.g. results of calls).
	Source func(v ssa.Value) (Dir, bool)
	// CallSummary gives the direction of result #idx of a call the analysis does not look into
	// (arg(i) is the direction of argument i, receiver first for invokes). Return false to decline.
	CallSummary func(call *ssa.Call, idx int, arg func(i int) Dir) (Dir, bool)
	// LookupSummary: direction of m[k] given the direction of k (the map itself is independent).
	LookupSummary func(l *ssa.Lookup, key Dir) (Dir, bool)
	// Inline decides whether a static callee is analysed in place.
	Inline func(*ssa.Function) bool
	// Sign may settle the sign of an input-independent value (hypotheses are the hook's business).
	Sign func(v ssa.Value, facts []ir.Fact) (nonneg, nonpos, ok bool)
	// LinSign may settle the sign of a linear form over symbols (e.g. a difference of two symbols).
	LinSign func(l ranges.Lin) (nonneg, nonpos, ok bool)
	// SelectionIndep: which element of a collection is selected (index / key) is not the analysis'
	// business; the selected element counts as input-independent (used for "inside one segment" claims).
	SelectionIndep bool
	// RangesSetup configures the range analyser used for signs and for ordering pieces.
	RangesSetup func(*ranges.An)
	Name        func(ssa.Value) string

	Hyps []string
	// Why collects the reasons for Unknown results (first cause first).
	Why []string

	parent  *An
	params  map[*ssa.Parameter]Dir
	assume  map[*ssa.Phi]Dir
	rng     *ranges.An
	depth   int
	reachTo map[*ssa.BasicBlock]map[*ssa.BasicBlock]bool
}

func New(fn *ssa.Function) *An {
	return &An{Fn: fn, assume: map[*ssa.Phi]Dir{}}
}

func (an *An) root() *An {
	r := an
	for r.parent != nil {
		r = r.parent
	}
	return r
}

func (an *An) hyp(s string) {
	r := an.root()
	for _, h := range r.Hyps {
		if h == s {
			return
		}
	}
	r.Hyps = append(r.Hyps, s)
}

// Hyp records a hypothesis (for hooks).
func (an *An) Hyp(s string) { an.hyp(s) }

func (an *An) fail(format string, args ...interface{}) Dir {
	r := an.root()
	s := fmt.Sprintf(format, args...)
	if len(r.Why) < 12 {
		for _, w := range r.Why {
			if w == s {
				return Unknown
			}
		}
		r.Why = append(r.Why, s)
	}
	return Unknown
}

func (an *An) name(v ssa.Value) string {
	if an.Name != nil {
		return an.Name(v)
	}
	return v.Name()
}

func (an *An) ranges() *ranges.An {
	if an.rng == nil {
		an.rng = ranges.New(an.Fn)
		if an.RangesSetup != nil {
			an.RangesSetup(an.rng)
		}
	}
	return an.rng
}

func isNumeric(t types.Type) bool {
	b, ok := t.Underlying().(*types.Basic)
	return ok && b.Info()&(types.IsInteger|types.IsFloat) != 0
}

func isIntT(t types.Type) bool {
	b, ok := t.Underlying().(*types.Basic)
	return ok && b.Info()&types.IsInteger != 0
}

// wideEnough: conversions to these kinds do not wrap for the magnitudes in this code base.
func wideEnough(t types.Type) bool {
	b, ok := t.Underlying().(*types.Basic)
	if !ok {
		return false
	}
	switch b.Kind() {
	case types.Int, types.Int64, types.Int32, types.Float32, types.Float64, types.UntypedInt, types.UntypedFloat:
		return true
	}
	return false
}

func withBlockFacts(v ssa.Value, facts []ir.Fact) []ir.Fact {
	if in, ok := v.(ssa.Instruction); ok && in.Block() != nil {
		if bf := ir.BlockFacts(in.Block()); len(bf) > 0 {
			return append(append([]ir.Fact{}, facts...), bf...)
		}
	}
	return facts
}

// Eval classifies v; facts must hold where v is used.
func (an *An) Eval(v ssa.Value, facts []ir.Fact) Dir {
	an.depth++
	defer func() { an.depth-- }()
	if an.depth > 120 {
		return an.fail("expression too deep at %s", an.name(v))
	}
	v = ir.Resolve(v)
	if an.Source != nil {
		if d, ok := an.Source(v); ok {
			return d
		}
	}
	facts = withBlockFacts(v, facts)
	switch x := v.(type) {
	case *ssa.Const, *ssa.Global, *ssa.Function, *ssa.Builtin, *ssa.FreeVar, *ssa.Alloc, *ssa.MakeSlice,
		*ssa.MakeMap, *ssa.MakeChan, *ssa.MakeClosure:
		return Indep
	case *ssa.Parameter:
		if an.params != nil {
			if d, ok := an.params[x]; ok {
				return d
			}
		}
		return Indep
	case *ssa.Convert:
		d := an.Eval(x.X, facts)
		if d == Indep {
			return Indep
		}
		if isNumeric(x.X.Type()) && isNumeric(x.Type()) && wideEnough(x.Type()) {
			return d // int<->float conversions and float32 rounding are monotone
		}
		return an.fail("conversion %s -> %s of an input-dependent value may wrap", x.X.Type(), x.Type())
	case *ssa.ChangeType:
		return an.Eval(x.X, facts)
	case *ssa.UnOp:
		switch x.Op {
		case token.SUB:
			return neg(an.Eval(x.X, facts))
		case token.MUL:
			return an.load(x, facts)
		case token.ARROW:
			return Indep
		}
		if an.Eval(x.X, facts) == Indep {
			return Indep
		}
		return an.fail("operator %s on an input-dependent value", x.Op)
	case *ssa.BinOp:
		return an.binop(x, facts)
	case *ssa.Phi:
		return an.phi(x)
	case *ssa.Call:
		return an.callResult(x, 0, facts)
	case *ssa.Extract:
		if c, ok := x.Tuple.(*ssa.Call); ok {
			return an.callResult(c, x.Index, facts)
		}
		if _, ok := x.Tuple.(*ssa.Next); ok {
			// range element: the Source hook had its chance; keys/ok flags and elements of other collections
			return Indep
		}
		if lk, ok := x.Tuple.(*ssa.Lookup); ok {
			if x.Index == 1 {
				// "is the key present" depends on the inputs exactly when the key does
				if !an.SelectionIndep && an.Eval(lk.Index, facts) != Indep {
					return an.fail("presence test of a map key that depends on the inputs")
				}
				return Indep
			}
			return an.lookup(lk, facts)
		}
		if ta, ok := x.Tuple.(*ssa.TypeAssert); ok {
			return an.Eval(ta.X, facts)
		}
		return Indep
	case *ssa.Lookup:
		return an.lookup(x, facts)
	case *ssa.Index:
		if an.Eval(x.Index, facts) != Indep {
			return an.fail("array element selected by an input-dependent index")
		}
		return an.Eval(x.X, facts)
	case *ssa.IndexAddr, *ssa.FieldAddr, *ssa.Field:
		return Indep
	case *ssa.Slice:
		return an.Eval(x.X, facts)
	case *ssa.MakeInterface:
		return an.Eval(x.X, facts)
	case *ssa.TypeAssert:
		return an.Eval(x.X, facts)
	case *ssa.Range, *ssa.Next:
		return Indep
	}
	return Indep
}

// load: what remains after store->load forwarding are loads from memory. Fields, globals and
// elements are input-independent state unless the Source hook said otherwise; a local variable with
// input-dependent stores that forwarding could not resolve is not tracked.
func (an *An) load(u *ssa.UnOp, facts []ir.Fact) Dir {
	addr := u.X
	for {
		switch a := addr.(type) {
		case *ssa.FieldAddr:
			addr = a.X
			continue
		case *ssa.IndexAddr:
			if !an.SelectionIndep && an.Eval(a.Index, facts) != Indep {
				return an.fail("element selected by an input-dependent index")
			}
			addr = a.X
			continue
		}
		break
	}
	if al, ok := addr.(*ssa.Alloc); ok {
		d := Indep
		for _, st := range ir.StoresTo(al) {
			if sd := an.Eval(st.Val, nil); sd != Indep {
				d = Unknown
			}
		}
		if d != Indep {
			return an.fail("local variable %s carries an input-dependent value through memory (not forwarded)", al.Comment)
		}
	}
	return Indep
}

func (an *An) lookup(l *ssa.Lookup, facts []ir.Fact) Dir {
	if an.SelectionIndep {
		return an.Eval(l.X, facts)
	}
	k := an.Eval(l.Index, facts)
	if k == Indep && an.Eval(l.X, facts) == Indep {
		return Indep
	}
	if an.LookupSummary != nil {
		if d, ok := an.LookupSummary(l, k); ok {
			return d
		}
	}
	return an.fail("map lookup with an input-dependent key (no summary)")
}

// SignOf determines the sign of an (input-independent) value under facts.
func (an *An) SignOf(v ssa.Value, facts []ir.Fact) (nonneg, nonpos bool) {
	v = ir.Resolve(v)
	facts = withBlockFacts(v, facts)
	if an.Sign != nil {
		if a, b, ok := an.Sign(v, facts); ok {
			return a, b
		}
	}
	if f, ok := ir.ConstFloat(v); ok {
		return f >= 0, f <= 0
	}
	switch x := v.(type) {
	case *ssa.Convert:
		if isNumeric(x.X.Type()) && isNumeric(x.Type()) {
			return an.SignOf(x.X, facts)
		}
	case *ssa.ChangeType:
		return an.SignOf(x.X, facts)
	case *ssa.UnOp:
		if x.Op == token.SUB {
			a, b := an.SignOf(x.X, facts)
			return b, a
		}
	case *ssa.Call:
		if b := ir.Callee(x).Builtin; b == "len" || b == "cap" {
			return true, false
		}
	case *ssa.BinOp:
		switch x.Op {
		case token.SUB:
			// X - Y >= 0 when a fact says X >= Y, or when some a satisfies a <= X and a >= Y
			if orderedFacts(facts, x.Y, x.X) {
				return true, false
			}
			if orderedFacts(facts, x.X, x.Y) {
				return false, true
			}
		case token.MUL, token.QUO:
			an1, ap1 := an.SignOf(x.X, facts)
			an2, ap2 := an.SignOf(x.Y, facts)
			nn := (an1 && an2) || (ap1 && ap2)
			np := (an1 && ap2) || (ap1 && an2)
			if nn || np {
				return nn, np
			}
		case token.ADD:
			an1, ap1 := an.SignOf(x.X, facts)
			an2, ap2 := an.SignOf(x.Y, facts)
			if (an1 && an2) || (ap1 && ap2) {
				return an1 && an2, ap1 && ap2
			}
		}
	}
	if isNumeric(v.Type()) {
		av := an.ranges().Eval(v, facts)
		if av.Exact != nil && !av.Exact.IsConst() && an.LinSign != nil {
			if a, b, ok := an.LinSign(*av.Exact); ok {
				return a, b
			}
		}
		lo, hi, okLo, okHi := av.ConstBounds()
		for _, h := range an.ranges().Hyps {
			an.hyp("range analysis: " + h)
		}
		return okLo && lo >= 0, okHi && hi <= 0
	}
	return false, false
}

// orderedFacts: facts establish lo <= hi (directly, or through one intermediate value).
func orderedFacts(facts []ir.Fact, lo, hi ssa.Value) bool {
	lo, hi = stripConv(ir.Resolve(lo)), stripConv(ir.Resolve(hi))
	le := func(a, b ssa.Value) bool { // a <= b stated by one fact
		for _, f := range facts {
			x, y := stripConv(f.X), stripConv(f.Y)
			switch f.Op {
			case token.LSS, token.LEQ:
				if x == a && y == b {
					return true
				}
			case token.GTR, token.GEQ:
				if x == b && y == a {
					return true
				}
			}
		}
		return false
	}
	if le(lo, hi) {
		return true
	}
	// lo <= a and a <= hi
	cands := map[ssa.Value]bool{}
	for _, f := range facts {
		if f.X != nil {
			cands[stripConv(f.X)] = true
		}
		if f.Y != nil {
			cands[stripConv(f.Y)] = true
		}
	}
	for a := range cands {
		if a != lo && a != hi && le(lo, a) && le(a, hi) {
			return true
		}
	}
	return false
}

func stripConv(v ssa.Value) ssa.Value {
	for {
		switch x := v.(type) {
		case *ssa.Convert:
			if isNumeric(x.X.Type()) && isNumeric(x.Type()) && wideEnough(x.Type()) && !(isIntT(x.Type()) && !isIntT(x.X.Type())) {
				v = ir.Resolve(x.X)
				continue
			}
		case *ssa.ChangeType:
			v = ir.Resolve(x.X)
			continue
		}
		return v
	}
}

func (an *An) binop(x *ssa.BinOp, facts []ir.Fact) Dir {
	a, b := an.Eval(x.X, facts), an.Eval(x.Y, facts)
	if a == Indep && b == Indep {
		return Indep
	}
	if a == Unknown || b == Unknown {
		return Unknown
	}
	switch x.Op {
	case token.ADD:
		if !isNumeric(x.Type()) {
			break
		}
		return an.joinOr(a, b, x)
	case token.SUB:
		return an.joinOr(a, neg(b), x)
	case token.MUL:
		switch {
		case b == Indep:
			return an.scale(a, x.Y, facts, x)
		case a == Indep:
			return an.scale(b, x.X, facts, x)
		}
		// both depend on the inputs: monotone if both are non-negative and go the same way
		if a == b {
			n1, _ := an.SignOf(x.X, facts)
			n2, _ := an.SignOf(x.Y, facts)
			if n1 && n2 {
				return a
			}
		}
		return an.fail("product of two input-dependent values at %s", an.name(x))
	case token.QUO:
		if b == Indep {
			return an.scale(a, x.Y, facts, x)
		}
		return an.fail("division by an input-dependent value at %s", an.name(x))
	}
	return an.fail("operator %s on input-dependent values at %s", x.Op, an.name(x))
}

func (an *An) joinOr(a, b Dir, at ssa.Value) Dir {
	if d := join(a, b); d != Unknown {
		return d
	}
	return an.fail("%s combines a non-decreasing and a non-increasing term", an.name(at))
}

// scale: d * factor (or d / factor) with an input-independent factor keeps d when factor >= 0, flips it when <= 0.
func (an *An) scale(d Dir, factor ssa.Value, facts []ir.Fact, at ssa.Value) Dir {
	nn, np := an.SignOf(factor, facts)
	switch {
	case nn:
		return d
	case np:
		return neg(d)
	}
	return an.fail("sign of the factor %s in %s is not known", an.name(factor), an.name(at))
}

// ---------------------------------------------------------------------------
// calls

var monotoneMath = map[string]bool{
	"math.Round": true, "math.Floor": true, "math.Ceil": true, "math.Trunc": true, "math.RoundToEven": true,
	"math.Sqrt": true, "math.Log": true, "math.Exp": true,
}

func (an *An) callResult(c *ssa.Call, idx int, facts []ir.Fact) Dir {
	args := c.Call.Args
	argDir := func(i int) Dir {
		if c.Call.IsInvoke() {
			if i == 0 {
				return an.Eval(c.Call.Value, facts)
			}
			i--
		}
		if i < 0 || i >= len(args) {
			return Indep
		}
		return an.Eval(args[i], facts)
	}
	n := len(args)
	if c.Call.IsInvoke() {
		n++
	}
	allIndep := true
	for i := 0; i < n; i++ {
		if argDir(i) != Indep {
			allIndep = false
		}
	}
	ci := ir.Callee(c)
	name := ir.CallName(c)
	switch {
	case ci.Builtin == "len" || ci.Builtin == "cap":
		return Indep
	case ci.Builtin == "min" || ci.Builtin == "max" || name == "math.Min" || name == "math.Max":
		d := Indep
		for i := range args {
			d = join(d, argDir(i))
		}
		if d == Unknown {
			return an.fail("%s of a non-decreasing and a non-increasing value", name)
		}
		return d
	case monotoneMath[name] && len(args) == 1:
		return argDir(0)
	case name == "math.Abs" && len(args) == 1:
		d := argDir(0)
		if d == Indep {
			return Indep
		}
		nn, np := an.SignOf(args[0], facts)
		if nn {
			return d
		}
		if np {
			return neg(d)
		}
		return an.fail("math.Abs of an input-dependent value of unknown sign")
	}
	if an.CallSummary != nil {
		if d, ok := an.CallSummary(c, idx, argDir); ok {
			return d
		}
	}
	if ci.Static != nil && ci.Closure == nil && len(ci.Static.Blocks) > 0 && an.Inline != nil && an.Inline(ci.Static) {
		sub := an.Enter(c, facts)
		if sub == nil {
			return an.fail("recursive call of %s", ci.Static.Name())
		}
		return sub.Result(idx)
	}
	if allIndep {
		return Indep
	}
	return an.fail("call of %s with an input-dependent argument (no summary)", name)
}

// Enter returns the analysis of the static callee of call with its parameters bound to the directions
// (and ranges) of the arguments, or nil (no static callee, recursion).
func (an *An) Enter(c *ssa.Call, facts []ir.Fact) *An {
	ci := ir.Callee(c)
	if ci.Static == nil || ci.Closure != nil || len(ci.Static.Blocks) == 0 {
		return nil
	}
	for p := an; p != nil; p = p.parent {
		if p.Fn == ci.Static {
			return nil
		}
	}
	sub := New(ci.Static)
	sub.parent = an
	sub.Source, sub.CallSummary, sub.LookupSummary, sub.Inline, sub.Sign, sub.LinSign, sub.RangesSetup, sub.Name, sub.SelectionIndep = an.Source, an.CallSummary, an.LookupSummary, an.Inline, an.Sign, an.LinSign, an.RangesSetup, an.Name, an.SelectionIndep
	sub.depth = an.depth
	sub.rng = an.ranges().Enter(c, facts) // parameters bound to the ranges of the arguments
	sub.params = map[*ssa.Parameter]Dir{}
	for i, p := range ci.Static.Params {
		if i < len(c.Call.Args) {
			sub.params[p] = an.Eval(c.Call.Args[i], facts)
		}
	}
	return sub
}

// ---------------------------------------------------------------------------
// pieces: phis and multiple returns

type piece struct {
	val   ssa.Value
	facts []ir.Fact
	label string
}

// Result classifies result #idx of the function over all its returns (returns whose error result is
// certainly non-nil are not outcomes). Use ResultWhere to restrict the returns.
func (an *An) Result(idx int) Dir {
	res := an.Fn.Signature.Results()
	ei := res.Len() - 1
	if ei < 0 || ei == idx || !types.Identical(res.At(ei).Type(), types.Universe.Lookup("error").Type()) {
		return an.ResultWhere(idx, nil)
	}
	return an.ResultWhere(idx, func(r *ssa.Return, _ *ssa.BasicBlock) bool {
		return ei >= len(r.Results) || !surelyNonNilError(r.Results[ei])
	})
}

// surelyNonNilError: the returned error is a sentinel variable, a freshly made error, or a boxed concrete value.
func surelyNonNilError(v ssa.Value) bool {
	if _, ok := v.(*ssa.MakeInterface); ok {
		return true
	}
	switch x := ir.Resolve(v).(type) {
	case *ssa.Call:
		n := ir.CallName(x)
		return n == "errors.New" || n == "fmt.Errorf"
	case *ssa.UnOp:
		_, isGlobal := x.X.(*ssa.Global)
		return isGlobal && x.Op == token.MUL
	}
	return false
}

// ResultWhere: keep(ret, via) selects the outcomes that count.
func (an *An) ResultWhere(idx int, keep func(ret *ssa.Return, via *ssa.BasicBlock) bool) Dir {
	var ps []piece
	var retBlocks []int
	rets := ir.Returns(an.Fn)
	kept := map[*ssa.Return]bool{}
	for _, r := range rets {
		if idx >= len(r.Results) {
			continue
		}
		vias := []*ssa.BasicBlock{nil}
		if phi, ok := ir.Resolve(r.Results[idx]).(*ssa.Phi); ok && phi.Block() == r.Block() && len(r.Block().Preds) > 1 {
			// a return block that merges several definitions: one piece per incoming edge is the phi's business
			vias = []*ssa.BasicBlock{nil}
		}
		for _, via := range vias {
			if keep != nil && !keep(r, via) {
				continue
			}
			kept[r] = true
			retBlocks = append(retBlocks, r.Block().Index)
			ps = append(ps, piece{r.Results[idx], ranges.FactsAt(r.Block(), via), "return@" + r.Block().String()})
		}
	}
	if len(ps) == 0 {
		return Indep
	}
	if len(ps) == 1 {
		return an.Eval(ps[0].val, ps[0].facts)
	}
	// which returns does each branch lead to?
	idxOf := map[int]int{} // return block index -> piece index
	for i, p := range ps {
		_ = p
		idxOf[retBlocks[i]] = i
	}
	var seps [][2]map[int]bool
	for _, b := range an.Fn.Blocks {
		iff, ok := lastIf(b)
		if !ok {
			continue
		}
		e0, e1 := an.returnsFrom(b.Succs[0], kept), an.returnsFrom(b.Succs[1], kept)
		if len(e0) == 0 || len(e1) == 0 || (sameSet(e0, e1) && len(e0) <= 1) {
			continue
		}
		if an.condDepends(iff.Cond, b) {
			m0, m1 := map[int]bool{}, map[int]bool{}
			for k := range e0 {
				m0[idxOf[k]] = true
			}
			for k := range e1 {
				m1[idxOf[k]] = true
			}
			seps = append(seps, [2]map[int]bool{m0, m1})
		}
	}
	return an.pieces(ps, seps, "the function's returns")
}

func lastIf(b *ssa.BasicBlock) (*ssa.If, bool) {
	if len(b.Instrs) == 0 {
		return nil, false
	}
	iff, ok := b.Instrs[len(b.Instrs)-1].(*ssa.If)
	if !ok || b.Succs[0] == b.Succs[1] {
		return nil, false
	}
	return iff, true
}

func sameSet(a, b map[int]bool) bool {
	if len(a) != len(b) {
		return false
	}
	for k := range a {
		if !b[k] {
			return false
		}
	}
	return true
}

func (an *An) returnsFrom(s *ssa.BasicBlock, kept map[*ssa.Return]bool) map[int]bool {
	out := map[int]bool{}
	seen := map[*ssa.BasicBlock]bool{}
	var walk func(b *ssa.BasicBlock)
	walk = func(b *ssa.BasicBlock) {
		if seen[b] {
			return
		}
		seen[b] = true
		if len(b.Instrs) > 0 {
			if r, ok := b.Instrs[len(b.Instrs)-1].(*ssa.Return); ok && kept[r] {
				out[b.Index] = true
			}
		}
		for _, n := range b.Succs {
			walk(n)
		}
	}
	walk(s)
	return out
}

// condDepends: the branch condition (decomposed) mentions an input-dependent value.
func (an *An) condDepends(cond ssa.Value, at *ssa.BasicBlock) bool {
	for _, pol := range []bool{true} {
		for _, f := range ir.CondFacts(cond, pol) {
			for _, v := range []ssa.Value{f.X, f.Y, f.Bool} {
				if v == nil {
					continue
				}
				if _, isCmp := v.(*ssa.BinOp); isCmp && v == f.Bool {
					continue // its operands are listed as X/Y of the relational fact
				}
				if an.evalQuiet(v) != Indep {
					return true
				}
			}
		}
	}
	return false
}

// evalQuiet evaluates without recording failure reasons (used for control conditions).
func (an *An) evalQuiet(v ssa.Value) Dir {
	r := an.root()
	n := len(r.Why)
	d := an.Eval(v, nil)
	r.Why = r.Why[:n]
	if b, ok := v.Type().Underlying().(*types.Basic); ok && b.Kind() == types.Bool && d == Unknown {
		return Unknown
	}
	return d
}

func (an *An) phi(x *ssa.Phi) Dir {
	if d, ok := an.assume[x]; ok {
		return d
	}
	B := x.Block()
	// loop-carried? (some predecessor is dominated by the phi's block)
	loop := false
	for _, p := range B.Preds {
		if B.Dominates(p) {
			loop = true
		}
	}
	var ps []piece
	for i, e := range x.Edges {
		ps = append(ps, piece{e, ranges.FactsAt(B, B.Preds[i]), fmt.Sprintf("edge %d->%d", B.Preds[i].Index, B.Index)})
	}
	if !loop {
		an.assume[x] = Unknown // a non-loop phi cannot depend on itself
		seps, _ := an.choices(B, false)
		d := an.pieces(ps, seps, "phi "+an.name(x))
		delete(an.assume, x)
		return d
	}
	// fixpoint from "independent" upwards
	cur := Indep
	for iter := 0; iter < 4; iter++ {
		an.assume[x] = cur
		// the dependence of the choice may itself depend on the assumption
		seps, ctl := an.choices(B, true)
		if ctl {
			delete(an.assume, x)
			return an.fail("loop phi %s: the number of iterations depends on the inputs", an.name(x))
		}
		next := an.pieces(ps, seps, "loop phi "+an.name(x))
		next = join(cur, next)
		if next == cur {
			delete(an.assume, x)
			return cur
		}
		cur = next
		if cur == Unknown {
			break
		}
	}
	delete(an.assume, x)
	return cur
}

// PhiWhere classifies the (non-loop) phi restricted to the incoming edges selected by keep: the value the
// phi takes given that it was entered through one of those edges.
func (an *An) PhiWhere(x *ssa.Phi, keep func(i int) bool) Dir {
	B := x.Block()
	var ps []piece
	idx := map[int]int{}
	for i, e := range x.Edges {
		if keep(i) {
			idx[i] = len(ps)
			ps = append(ps, piece{e, ranges.FactsAt(B, B.Preds[i]), fmt.Sprintf("edge %d->%d", B.Preds[i].Index, B.Index)})
		}
	}
	if len(ps) == 0 {
		return Indep
	}
	an.assume[x] = Unknown
	defer delete(an.assume, x)
	all, _ := an.choices(B, false)
	var seps [][2]map[int]bool
	for _, s := range all {
		m0, m1 := map[int]bool{}, map[int]bool{}
		for k := range s[0] {
			if j, ok := idx[k]; ok {
				m0[j] = true
			}
		}
		for k := range s[1] {
			if j, ok := idx[k]; ok {
				m1[j] = true
			}
		}
		if len(m0) > 0 && len(m1) > 0 {
			seps = append(seps, [2]map[int]bool{m0, m1})
		}
	}
	return an.pieces(ps, seps, "phi "+an.name(x))
}

// choices lists, for every input-dependent branch that decides through which edge B is entered, the
// two sets of incoming edges its arms lead to. Branches whose arms lead to the same single edge decide
// nothing. loopCtl: an input-dependent branch decides whether the loop headed by B is continued at all.
func (an *An) choices(B *ssa.BasicBlock, isLoop bool) (seps [][2]map[int]bool, loopCtl bool) {
	D := B.Idom()
	for _, c := range an.Fn.Blocks {
		iff, ok := lastIf(c)
		if !ok {
			continue
		}
		if D != nil && !(c == D || D.Dominates(c)) {
			continue
		}
		if c == B && !isLoop {
			continue
		}
		e0, e1 := edgesInto(B, c, c.Succs[0]), edgesInto(B, c, c.Succs[1])
		if len(e0) == 0 && len(e1) == 0 {
			continue
		}
		if sameSet(e0, e1) && len(e0) == 1 {
			continue
		}
		if len(e0) == 0 || len(e1) == 0 {
			// one arm never comes (back) to B: for a loop that is the exit test
			if isLoop && B.Dominates(c) && an.condDepends(iff.Cond, c) {
				if debug {
					fmt.Printf("loopCtl: B=%d c=%d cond=%s e0=%v e1=%v\n", B.Index, c.Index, iff.Cond, e0, e1)
				}
				loopCtl = true
			}
			continue
		}
		if an.condDepends(iff.Cond, c) {
			seps = append(seps, [2]map[int]bool{e0, e1})
		}
	}
	return seps, loopCtl
}

// edgesInto: indexes of B's predecessors reachable from s without passing through B.
func edgesInto(B, from, s *ssa.BasicBlock) map[int]bool {
	out := map[int]bool{}
	seen := map[*ssa.BasicBlock]bool{}
	var walk func(b *ssa.BasicBlock)
	walk = func(b *ssa.BasicBlock) {
		if seen[b] {
			return
		}
		seen[b] = true
		for _, n := range b.Succs {
			if n == B {
				for i, p := range B.Preds {
					if p == b {
						out[i] = true
					}
				}
				continue
			}
			walk(n)
		}
	}
	if s == B {
		for i, p := range B.Preds {
			if p == from {
				out[i] = true
			}
		}
		return out
	}
	walk(s)
	return out
}

// pieces classifies a value defined piecewise. seps: for every input-dependent deciding branch the two
// sets of pieces its arms can lead to; two pieces need to be ordered only if some such branch separates them.
func (an *An) pieces(ps []piece, seps [][2]map[int]bool, what string) Dir {
	dirs := make([]Dir, len(ps))
	all := Indep
	for i, p := range ps {
		dirs[i] = an.Eval(p.val, p.facts)
		if dirs[i] == Unknown {
			return Unknown
		}
		all = join(all, dirs[i])
	}
	if all == Unknown {
		return an.fail("%s merges a non-decreasing and a non-increasing definition", what)
	}
	if len(seps) == 0 {
		return all
	}
	separated := func(i, j int) bool {
		for _, s := range seps {
			if (s[0][i] && s[1][j]) || (s[1][i] && s[0][j]) {
				return true
			}
		}
		return false
	}
	tryDir := func(want Dir) (bool, string) {
		for i := 0; i < len(ps); i++ {
			for j := i + 1; j < len(ps); j++ {
				if !separated(i, j) || sameValue(ps[i].val, ps[j].val) || equalUnder(ps[i], ps[j]) || equalUnder(ps[j], ps[i]) {
					continue
				}
				pair, pd := []piece{ps[i], ps[j]}, []Dir{dirs[i], dirs[j]}
				if d, ok := an.selectIdiom(pair, pd); ok && join(d, want) == want {
					continue
				}
				if d, ok := an.bumpIdiom(pair, pd); ok && join(d, want) == want {
					continue
				}
				lo, hi, ok := an.orderRegions(ps[i], ps[j])
				if !ok {
					return false, fmt.Sprintf("%s: the regions of %s and %s are not separated by opposing tests on one monotone quantity", what, ps[i].label, ps[j].label)
				}
				if want == Down {
					lo, hi = hi, lo
				}
				if !an.rangeOrdered(lo, hi) {
					return false, fmt.Sprintf("%s: cannot show sup(%s) <= inf(%s)", what, lo.label, hi.label)
				}
			}
		}
		return true, ""
	}
	needs := false
	for i := 0; i < len(ps); i++ {
		for j := i + 1; j < len(ps); j++ {
			if separated(i, j) && !sameValue(ps[i].val, ps[j].val) && !equalUnder(ps[i], ps[j]) && !equalUnder(ps[j], ps[i]) {
				needs = true
			}
		}
	}
	if !needs {
		return all
	}
	want := all
	if want == Indep {
		want = Up // constants selected by the input: try to show a non-decreasing step function
	}
	ok, why := tryDir(want)
	if ok {
		return want
	}
	if all == Indep {
		if ok2, _ := tryDir(Down); ok2 {
			return Down
		}
	}
	return an.fail("%s", why)
}

// equalUnder: the facts of piece a say that its value equals b's value (if x == y {x} else {y} is y).
func equalUnder(a, b piece) bool {
	va, vb := stripConv(ir.Resolve(a.val)), stripConv(ir.Resolve(b.val))
	for _, f := range a.facts {
		if f.Op != token.EQL || f.X == nil || f.Y == nil {
			continue
		}
		x, y := stripConv(f.X), stripConv(f.Y)
		if (x == va && y == vb) || (x == vb && y == va) {
			return true
		}
	}
	return false
}

func sameValue(a, b ssa.Value) bool {
	a, b = ir.Resolve(a), ir.Resolve(b)
	if a == b {
		return true
	}
	fa, ok1 := ir.ConstFloat(a)
	fb, ok2 := ir.ConstFloat(b)
	return ok1 && ok2 && fa == fb
}

// orderRegions finds opposing facts  q <= T (in one piece) / q > T (in the other) on a monotone quantity q
// and an input-independent threshold T; returns the pieces as (lower region, upper region) for a
// non-decreasing q (swapped for a non-increasing one).
func (an *An) orderRegions(a, b piece) (lo, hi piece, ok bool) {
	type rel struct {
		q, t  ssa.Value
		below bool // q < T or q <= T
	}
	rels := func(p piece) []rel {
		var out []rel
		for _, f := range p.facts {
			if f.X == nil || f.Y == nil {
				continue
			}
			switch f.Op {
			case token.LSS, token.LEQ:
				out = append(out, rel{stripConv(f.X), stripConv(f.Y), true}, rel{stripConv(f.Y), stripConv(f.X), false})
			case token.GTR, token.GEQ:
				out = append(out, rel{stripConv(f.X), stripConv(f.Y), false}, rel{stripConv(f.Y), stripConv(f.X), true})
			}
		}
		return out
	}
	opposing := func(f1, f2 ir.Fact) bool { return true }
	_ = opposing
	ra, rb := rels(a), rels(b)
	for _, x := range ra {
		for _, y := range rb {
			if x.q != y.q || !sameValue(x.t, y.t) || x.below == y.below {
				continue
			}
			// the two facts must really exclude each other: (<= , >) (<, >=) (<, >) are fine, (<=, >=) overlap
			if !an.exclusive(a, b, x.q, x.t) {
				continue
			}
			dq := an.evalQuiet(x.q)
			if dq != Up && dq != Down {
				continue
			}
			if an.evalQuiet(x.t) != Indep {
				continue
			}
			below, above := a, b
			if !x.below {
				below, above = b, a
			}
			if dq == Down {
				below, above = above, below
			}
			return below, above, true
		}
	}
	return a, b, false
}

// exclusive: among the facts of a and b on (q, T) there is a strict/non-strict pair that cannot both hold.
func (an *An) exclusive(a, b piece, q, t ssa.Value) bool {
	ops := func(p piece) map[token.Token]bool {
		out := map[token.Token]bool{}
		for _, f := range p.facts {
			if f.X == nil || f.Y == nil {
				continue
			}
			x, y := stripConv(f.X), stripConv(f.Y)
			if x == q && sameValue(y, t) {
				out[f.Op] = true
			} else if y == q && sameValue(x, t) {
				out[ir.Flip(f.Op)] = true
			}
		}
		return out
	}
	oa, ob := ops(a), ops(b)
	pairs := [][2]token.Token{{token.LEQ, token.GTR}, {token.LSS, token.GEQ}, {token.LSS, token.GTR}, {token.GTR, token.LEQ}, {token.GEQ, token.LSS}, {token.GTR, token.LSS}}
	for _, p := range pairs {
		if oa[p[0]] && ob[p[1]] {
			return true
		}
	}
	return false
}

// rangeOrdered: sup(lo piece) <= inf(hi piece) by bounds whose symbols are input-independent.
func (an *An) rangeOrdered(lo, hi piece) bool {
	r := an.ranges()
	a := r.Eval(lo.val, lo.facts)
	b := r.Eval(hi.val, hi.facts)
	if a.NaN || b.NaN {
		return false
	}
	for _, h := range a.Hi {
		if !an.linIndep(h) {
			continue
		}
		for _, l := range b.Lo {
			if !an.linIndep(l) {
				continue
			}
			d := l.Add(h, -1)
			if an.linNonneg(d, lo.facts) {
				for _, hy := range r.Hyps {
					an.hyp("range analysis: " + hy)
				}
				return true
			}
		}
	}
	return false
}

// linNonneg: the linear form is >= 0: constant part >= 0 and every symbol enters with the sign of its coefficient.
func (an *An) linNonneg(d ranges.Lin, facts []ir.Fact) bool {
	if an.LinSign != nil && !d.IsConst() {
		if nn, _, ok := an.LinSign(d); ok && nn {
			return true
		}
	}
	if d.C < 0 {
		return false
	}
	for s, c := range d.Coef {
		if c == 0 {
			continue
		}
		nn, np := an.SignOf(s, facts)
		if (c > 0 && !nn) || (c < 0 && !np) {
			return false
		}
	}
	return true
}

func (an *An) linIndep(l ranges.Lin) bool {
	for s := range l.Coef {
		if an.evalQuiet(s) != Indep {
			return false
		}
	}
	return true
}

// selectIdiom: if a > b {a} else {b} (max) / if a < b {a} else {b} (min): monotone in both operands.
func (an *An) selectIdiom(ps []piece, dirs []Dir) (Dir, bool) {
	v0, v1 := stripConv(ir.Resolve(ps[0].val)), stripConv(ir.Resolve(ps[1].val))
	holds := func(facts []ir.Fact, x, y ssa.Value, ops ...token.Token) bool {
		for _, f := range facts {
			if f.X == nil || f.Y == nil {
				continue
			}
			fx, fy := stripConv(f.X), stripConv(f.Y)
			for _, op := range ops {
				if fx == x && fy == y && f.Op == op {
					return true
				}
				if fx == y && fy == x && ir.Flip(f.Op) == op {
					return true
				}
			}
		}
		return false
	}
	// piece 0 selected when v0 >(=) v1, piece 1 when v1 >(=) v0  -> max ; the mirror -> min
	isMax := holds(ps[0].facts, v0, v1, token.GTR, token.GEQ) && holds(ps[1].facts, v1, v0, token.GTR, token.GEQ)
	isMin := holds(ps[0].facts, v0, v1, token.LSS, token.LEQ) && holds(ps[1].facts, v1, v0, token.LSS, token.LEQ)
	if isMax || isMin {
		d := join(dirs[0], dirs[1])
		if d == Unknown {
			return an.fail("max/min selection between values of opposite direction"), true
		}
		return d, true
	}
	return Unknown, false
}

// bumpIdiom: both definitions are a, a+1, or phis of those, for one integer a: whatever decides between
// them, the result is non-decreasing in a (t1 < t2 integers: t1+1 <= t2), provided the decisions depend on
// the inputs only through a.
func (an *An) bumpIdiom(ps []piece, dirs []Dir) (Dir, bool) {
	for _, cand := range []ssa.Value{leafBase(ps[0].val, 0), leafBase(ps[1].val, 0)} {
		if cand == nil || !isIntT(cand.Type()) {
			continue
		}
		if an.evalQuiet(cand) != Up {
			continue
		}
		okAll := true
		for _, p := range ps {
			if !an.bumpOf(p.val, cand, 0) || !an.condsOnlyThrough(p.facts, cand) {
				okAll = false
			}
		}
		if okAll {
			return Up, true
		}
	}
	return Unknown, false
}

func leafBase(v ssa.Value, depth int) ssa.Value {
	v = ir.Resolve(v)
	if depth > 4 {
		return nil
	}
	switch x := v.(type) {
	case *ssa.BinOp:
		if k, ok := ir.ConstInt(x.Y); ok && k == 1 && x.Op == token.ADD {
			return ir.Resolve(x.X)
		}
	case *ssa.Phi:
		if len(x.Edges) > 0 {
			return leafBase(x.Edges[0], depth+1)
		}
	}
	return v
}

var _ = (*ssa.Call)(nil)

// bumpOf: v is base, base+1, or a phi of such values whose deciding facts mention the inputs only through base.
func (an *An) bumpOf(v, base ssa.Value, depth int) bool {
	v = ir.Resolve(v)
	if depth > 4 {
		return false
	}
	if v == base {
		return true
	}
	switch x := v.(type) {
	case *ssa.BinOp:
		k, ok := ir.ConstInt(x.Y)
		return ok && k == 1 && x.Op == token.ADD && isIntT(x.Type()) && ir.Resolve(x.X) == base
	case *ssa.Phi:
		for i, e := range x.Edges {
			if !an.bumpOf(e, base, depth+1) || !an.condsOnlyThrough(ranges.FactsAt(x.Block(), x.Block().Preds[i]), base) {
				return false
			}
		}
		return len(x.Edges) > 0
	case *ssa.Call:
		// a helper that hands back one of its integer parameters, or that parameter plus one, on every return
		cal := x.Call.StaticCallee()
		if cal == nil || len(cal.Blocks) == 0 || cal.Signature.Results().Len() != 1 || !isIntT(x.Type()) {
			return false
		}
		rets := ir.Returns(cal)
		for _, r := range rets {
			res := ir.Resolve(r.Results[0])
			if b, ok := res.(*ssa.BinOp); ok {
				k, isConst := ir.ConstInt(b.Y)
				if !isConst || k != 1 || b.Op != token.ADD {
					return false
				}
				res = ir.Resolve(b.X)
			}
			prm, ok := res.(*ssa.Parameter)
			if !ok {
				return false
			}
			found := false
			for i, q := range cal.Params {
				if q == prm && i < len(x.Call.Args) && ir.Resolve(x.Call.Args[i]) == base {
					found = true
				}
			}
			if !found {
				return false
			}
		}
		return len(rets) > 0
	}
	return false
}

func (an *An) condsOnlyThrough(facts []ir.Fact, base ssa.Value) bool {
	for _, f := range facts {
		for _, v := range []ssa.Value{f.X, f.Y, f.Bool} {
			if v == nil || stripConv(v) == base {
				continue
			}
			if _, isCmp := v.(*ssa.BinOp); isCmp && v == f.Bool {
				continue
			}
			if an.dependsOtherThan(v, base) {
				return false
			}
		}
	}
	return true
}

// dependsOtherThan: v depends on the inputs, and not merely through base.
func (an *An) dependsOtherThan(v, base ssa.Value) bool {
	if an.evalQuiet(v) == Indep {
		return false
	}
	// treat base as an independent symbol and re-evaluate
	old := an.Source
	an.Source = func(x ssa.Value) (Dir, bool) {
		if x == base {
			return Indep, true
		}
		if old != nil {
			return old(x)
		}
		return Indep, false
	}
	d := an.evalQuiet(v)
	an.Source = old
	return d != Indep
}

// Explain renders the reasons collected for Unknown results.
func (an *An) Explain() string {
	w := append([]string{}, an.root().Why...)
	return strings.Join(w, "; ")
}

// SortedHyps returns the recorded hypotheses.
func (an *An) SortedHyps() []string {
	h := append([]string{}, an.root().Hyps...)
	sort.Strings(h)
	return h
}
