package rules

import (
	"go/types"
	"strings"

	"f2gcheck/internal/ir"

	"golang.org/x/tools/go/ssa"
)

func init() {
	Registry["C01"] = c01
	Registry["C02"] = c02
	Registry["C12"] = c12
}

const envelopeAssumptions = "the fan's limits satisfy GetMinPwm() + offset <= GetMaxPwm() when a cycle starts (the quantifier's 0 <= min <= max <= 255; upkeep of this invariant by the raise path is obligation O2-raise); integers stay below 2^53 so int<->float64 conversion is exact"

func c01(c *Ctx) {
	c.R.Explanation = "C01: the envelope clause is decided for every state and input. O1 (value provenance) = every Fan.SetPwm invoke in the call tree of UpdateFanSpeed writes pwmMap[FindClosest(request, keys)] where request is result #0 of the target computation on its nil-error path. O2 (symbolic range analysis, E4) = every nil-error return of the target computation is proved to satisfy GetMinPwm() + offset <= request <= GetMaxPwm(), the bounds being linear expressions over the SSA values of the Fan.GetMinPwm/GetMaxPwm invokes and the load of the controller's offset field; the curve value, the control loop's Cycle result (an interface call) and the RPM average are unconstrained symbols, so the proof covers every algorithm, every algorithm state, NaN/absurd readings and all histories: it rests only on the integer clamp, the rescale and the guarded +1. O2-raise = on the path that raises the minimum the request is >= old floor + 1 and <= max, which keeps floor <= max after the offset increment. O3 = the offset field is only initialised to a non-negative constant and incremented; O3-limits = no Fan.SetMinPwm/SetMaxPwm/SetStartPwm with a non-false force is reachable from UpdateFanSpeed (the limits the envelope is proved against do not move while regulating). O4 (typestate) = after every store to the map field, and after every in-place update of the map held in it, the key list is recomputed as sort(ExtractKeysWithDistinctValues(map)) before the next FindClosest use or hand-off to the control goroutines. O5 = every Fan.SetPwm implementation and the util write helpers pass their parameter unmodified to the sink. Not decided: that FindClosest returns the nearest key (C12, functional)."
	c.R.Assumptions = append(c.R.Assumptions, envelopeAssumptions, "PWM-map outputs lie in 0..255 (quantifier)")
	r := c.analyseRegulation()
	r.ruleFlow("O1-flow")
	r.ruleEnvelope("O2", true, true, true)
	r.ruleOffsets("O3-offset")
	r.ruleNoForcedLimit("O3-limits", "SetMinPwm", "SetMaxPwm", "SetStartPwm")
	r.ruleFreshness("O4-fresh")
	r.ruleSinks("O5-sink")
	c.R.Require("O1-flow", 2)
	c.R.Require("O2-upper", 1)
	c.R.Require("O2-lower", 1)
	for _, ci := range r.cycles {
		for _, h := range ci.hyps {
			c.R.Note("hypotheses used by the range proof (assumed)", h)
		}
	}
}

func c02(c *Ctx) {
	c.R.Explanation = "C02 decided on the SSA of /repo with the same symbolic range analysis as C01. (a) every nil-error return of the target computation satisfies request >= GetMinPwm() + offset (all algorithms/states/readings, as in C01). (b) the floor never drops: every store to the offset field is an initialisation to a non-negative constant or an increment by a positive constant, and no Fan.SetMinPwm call with a non-false force is reachable from UpdateFanSpeed (the fan's own minimum is changed only by attaching measured data with force=false, C13). (c) on the path that performs the raise (the path containing the offset increment) the returned request is >= old floor + 1 and >= l + 1 where l is the load of the last-request cell that the path established equal to the request: the request issued at the raise is strictly higher than the stalled one; a raise path exists. (d) every Fan.GetMinPwm implementation returns the constant 0 unless never-stop was established. floor-cap = every path from the stall edge to a floor-raising instruction crosses an edge establishing request < Fan.GetMaxPwm(): the request is >= the floor, so the raised floor never passes the fan's maximum (a floor above it makes the rescale range negative and later requests fall below the raised minimum). Not decided: that a stall is detected (C10)."
	c.R.Assumptions = append(c.R.Assumptions, envelopeAssumptions)
	r := c.analyseRegulation()
	r.ruleEnvelope("floor", false, true, true)
	r.ruleOffsets("monotone-offset")
	r.ruleFloorCap("floor-cap")
	r.ruleNoForcedMin("no-forced-min")
	c.ruleMinZero("min0", r.tb)
	// the write routine records the request (needed for (c): the stalled request is the last request)
	for _, w := range r.writers {
		key := c.FK(w.fn)
		if w.lastField == "" || w.lastField[0] == '!' || w.reqParam == nil {
			c.R.Bad("lastreq", key, key, c.P.Pos(w.fn.Pos()), "the write routine does not record its unmodified request in the last-request field ("+w.lastField+")")
		} else {
			c.R.Ok("lastreq", key, key, c.P.Pos(w.fn.Pos()), "the write routine records its request parameter in field "+w.lastField)
		}
	}
	c.R.Require("floor-lower", 1)
	c.R.Require("floor-raise", 1)
	c.R.Require("lastreq", 1)
}

func c12(c *Ctx) {
	c.R.Explanation = "C12: only the composition is decided. R-args/O1 (value provenance) = the value written on the regulation path is pwmMap[k] with k = util.FindClosest(request, keys): first argument the request, second the key list, the chosen key (not the request) is the map index, nothing else is written. O4 (typestate) = keys is recomputed as sort(ExtractKeysWithDistinctValues(pwmMap)) after every store to the map before the next use. R-keys = every element util.ExtractKeysWithDistinctValues puts into its result is a key of the map it was given (an element of SortedKeys(input) or a key of a range over the map), never a number produced otherwise: a supported input is a real key. R-extract = the key list stored is exactly the result of util.ExtractKeysWithDistinctValues applied to the map field and sorted (checked inside O4's clean event). Not decided, by design: that FindClosest returns the nearest key, that the extraction picks the first key of each run, and the search's index arithmetic (functional correctness of a binary search over all arrays needs proof or exhaustive enumeration, other technique families)."
	r := c.analyseRegulation()
	r.ruleFlow("R-args")
	r.ruleFreshness("O4-fresh")
	c.R.Require("R-args", 2)
	c.ruleSupportedKeys("R-keys")
	c.R.Excluded("R-nearest", "util.FindClosest", "internal/util.FindClosest", "-", "nearest-ness of the returned key is functional correctness of a binary search: not decided by static analysis here")
	c.R.Excluded("R-firstofrun", "util.ExtractKeysWithDistinctValues", "internal/util.ExtractKeysWithDistinctValues", "-", "that the first key of each run of equal outputs is chosen is functional: not decided")
}

// ruleSupportedKeys (C12 R-keys): the extraction only ever reports keys of its input map.
func (c *Ctx) ruleSupportedKeys(rule string) {
	fn := c.FuncOpt(PkgUtil, "ExtractKeysWithDistinctValues")
	if fn == nil || len(fn.Params) == 0 {
		c.R.Undecided(rule, "extract", PkgUtil, "-", "util.ExtractKeysWithDistinctValues not found (anchor unresolved)")
		return
	}
	fk := c.FK(fn)
	tb := ir.NewTB(c.P.IsRepoFunc, c.P.FuncKey)
	tb.InlineMaxBlocks = 0
	inTree := map[*ssa.Function]bool{}
	var grow func(f *ssa.Function)
	grow = func(f *ssa.Function) {
		if inTree[f] {
			return
		}
		inTree[f] = true
		for _, a := range f.AnonFuncs {
			grow(a)
		}
	}
	grow(fn)
	tb.ParamCallers = c.CallersIn(inTree)
	tb.ParamCallersMulti = true
	input := tb.Of(fn.Params[0], nil).String()
	isKey := func(t *ir.Term) bool {
		s := t.String()
		switch {
		case t.Op == "index" && len(t.Args) == 2 && (strings.Contains(t.Args[0].String(), "SortedKeys("+input) || strings.Contains(t.Args[0].String(), "maps.Keys("+input)):
			return true // an element of the (sorted) key list of the input
		case strings.HasPrefix(t.Op, "res") && len(t.Args) == 1 && t.Args[0].Op == "next" && strings.Contains(s, "range("+input):
			return true
		}
		return false
	}
	var alts func(t *ir.Term, depth int) []*ir.Term
	alts = func(t *ir.Term, depth int) []*ir.Term {
		if t.Op == "phi" && depth < 4 {
			var out []*ir.Term
			for _, a := range t.Args {
				out = append(out, alts(a, depth+1)...)
			}
			return out
		}
		return []*ir.Term{t}
	}
	n := 0
	bad := ""
	for f := range inTree {
		Calls(f, func(cc ssa.CallInstruction) {
			call, ok := cc.(*ssa.Call)
			if !ok || ir.Callee(call).Builtin != "append" || len(call.Call.Args) != 2 {
				return
			}
			if !isIntSlice(call.Type()) {
				return
			}
			va := ir.VarArgs(call.Call.Args[1])
			if va == nil {
				bad = "a whole slice is appended at " + c.P.Pos(call.Pos())
				return
			}
			for _, e := range va {
				n++
				for _, a := range alts(tb.Of(e, nil), 0) {
					if !isKey(a) {
						bad = sprintf("%s is reported as a supported input at %s although it is not taken from the map's keys", a.String(), c.P.Pos(call.Pos()))
					}
				}
			}
		})
	}
	switch {
	case n == 0:
		c.R.Undecided(rule, fk, fk, c.P.Pos(fn.Pos()), "no append of a key found (anchor unresolved)")
	case bad != "":
		c.R.Bad(rule, fk, fk, c.P.Pos(fn.Pos()), bad)
	default:
		c.R.Ok(rule, fk, fk, c.P.Pos(fn.Pos()), "every reported supported input is an element of the map's (sorted) key set")
	}
}

func isIntSlice(t types.Type) bool {
	sl, ok := t.Underlying().(*types.Slice)
	return ok && isIntType(sl.Elem())
}
