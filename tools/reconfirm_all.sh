#!/bin/bash
# Re-confirms every stored seed against /repo's current HEAD (after a fix: commit moved it):
# the change applies, the existing suite passes with it, the demo fails with it and passes without it.
# usage: tools/reconfirm_all.sh [seed-id...]   (default: all)   results: /root/.reconfirm.out
cd /verif
IDS=${@:-$(ls seeded)}
mkdir -p /tmp/wt
one() {
  n=$1; d=/tmp/wt/rc-$n
  git -C /repo worktree add -q --detach $d || { echo "$n worktree-failed"; return; }
  mkdir -p $d/_seed && cp -r /verif/seeded/$n/* $d/_seed/
  r=$(/verif/tools/confirm_seed.sh $d $n 2>&1 | grep -E "^suite=|CONFIRMED|does not apply" | tr '\n' ' ')
  git -C /repo worktree remove --force $d
  echo "$n $r"
}
export -f one
echo $IDS | tr ' ' '\n' | xargs -P 3 -I{} bash -c 'one {}' | sort > /root/.reconfirm.out
cat /root/.reconfirm.out
