package rules

import (
	"go/token"
	"go/types"
	"strings"

	"f2gcheck/internal/ir"
	"f2gcheck/internal/ranges"

	"golang.org/x/tools/go/ssa"
)

func init() { Registry["C08"] = c08 }

// ---------------------------------------------------------------------------
// non-finite taint (E3): values parsed by strconv.ParseFloat that were not
// proved finite by math.IsNaN / math.IsInf guards.

type taint struct {
	c        *Ctx
	retTaint map[*ssa.Function]map[int]string // fn -> result index -> origin description
	impls    func(call ssa.CallInstruction) []*ssa.Function
}

func isFloatOrInt(t types.Type) bool {
	b, ok := t.Underlying().(*types.Basic)
	return ok && b.Info()&(types.IsFloat|types.IsInteger) != 0
}

// guarded reports whether, at block b (entered via `via`), some value of the
// chain is established neither NaN nor Inf.
func guardedFinite(chain []ssa.Value, b *ssa.BasicBlock, via *ssa.BasicBlock) bool {
	facts := factsAt(b, via)
	inChain := func(v ssa.Value) bool {
		rv := ir.Resolve(v)
		for _, c := range chain {
			if c == rv || c == v {
				return true
			}
		}
		return false
	}
	notNaN := ir.HasBool(facts, false, func(v ssa.Value) bool {
		call, ok := v.(*ssa.Call)
		return ok && ir.CallName(call) == "math.IsNaN" && inChain(call.Call.Args[0])
	})
	notInf := ir.HasBool(facts, false, func(v ssa.Value) bool {
		call, ok := v.(*ssa.Call)
		if !ok || ir.CallName(call) != "math.IsInf" || !inChain(call.Call.Args[0]) {
			return false
		}
		k, isConst := ir.ConstInt(call.Call.Args[1])
		return isConst && k == 0
	})
	if notNaN && notInf {
		return true
	}
	// a predicate helper (isFinite(v), !isInvalid(v)): the branch on its result establishes both tests inside it
	for _, f := range facts {
		call, ok := f.Bool.(*ssa.Call)
		if !ok || f.Op != token.ILLEGAL {
			continue
		}
		h := ir.Callee(call).Static
		if h == nil || len(h.Blocks) == 0 || call.Call.IsInvoke() {
			continue
		}
		var params []ssa.Value
		for i, a := range call.Call.Args {
			if i < len(h.Params) && inChain(a) {
				params = append(params, h.Params[i])
			}
		}
		if len(params) == 0 {
			continue
		}
		isP := func(v ssa.Value) bool {
			rv := ir.Resolve(v)
			for _, p := range params {
				if rv == p || v == p {
					return true
				}
			}
			return inChain(v)
		}
		hf := ir.HelperFacts(call, 0, f.Truth)
		nn := ir.HasBool(hf, false, func(v ssa.Value) bool {
			c2, ok := v.(*ssa.Call)
			return ok && ir.CallName(c2) == "math.IsNaN" && isP(c2.Call.Args[0])
		})
		ni := ir.HasBool(hf, false, func(v ssa.Value) bool {
			c2, ok := v.(*ssa.Call)
			if !ok || ir.CallName(c2) != "math.IsInf" || !isP(c2.Call.Args[0]) {
				return false
			}
			k, isConst := ir.ConstInt(c2.Call.Args[1])
			return isConst && k == 0
		})
		if nn && ni {
			return true
		}
	}
	return false
}

// analyse returns, for fn, the tainted values with their derivation chains and origin.
type tval struct {
	chain  []ssa.Value
	origin string
}

func (t *taint) analyse(fn *ssa.Function) map[ssa.Value]*tval {
	tv := map[ssa.Value]*tval{}
	add := func(v ssa.Value, from *tval, origin string) bool {
		if _, ok := tv[v]; ok {
			return false
		}
		n := &tval{origin: origin}
		if from != nil {
			n.chain = append(n.chain, from.chain...)
			n.origin = from.origin
		}
		n.chain = append(n.chain, v)
		tv[v] = n
		return true
	}
	for changed := true; changed; {
		changed = false
		for _, b := range fn.Blocks {
			for _, ins := range b.Instrs {
				v, isVal := ins.(ssa.Value)
				switch x := ins.(type) {
				case *ssa.Extract:
					if call, ok := x.Tuple.(*ssa.Call); ok {
						if ir.CallName(call) == "strconv.ParseFloat" && x.Index == 0 {
							changed = add(x, nil, "strconv.ParseFloat at "+t.c.P.Pos(call.Pos())) || changed
						}
						for _, cal := range t.impls(call) {
							if o, ok := t.retTaint[cal][x.Index]; ok {
								changed = add(x, nil, o+" via "+t.c.FK(cal)) || changed
							}
						}
					}
				case *ssa.Call:
					if x.Common().Signature().Results().Len() == 1 {
						for _, cal := range t.impls(x) {
							if o, ok := t.retTaint[cal][0]; ok {
								changed = add(x, nil, o+" via "+t.c.FK(cal)) || changed
							}
						}
					}
					// NaN-preserving library arithmetic
					n := ir.CallName(x)
					if n == "math.NaN" || n == "math.Inf" {
						changed = add(x, nil, n+"() at "+t.c.P.Pos(x.Pos())) || changed
					}
					if strings.HasPrefix(n, "math.") && n != "math.IsNaN" && n != "math.IsInf" && isFloatOrInt(x.Type()) {
						for _, a := range x.Call.Args {
							if f, ok := tv[ir.Resolve(a)]; ok {
								changed = add(x, f, "") || changed
							}
						}
					}
					if n == PkgUtil+".UpdateSimpleMovingAvg" || n == PkgUtil+".Coerce" {
						for _, a := range x.Call.Args {
							if f, ok := tv[ir.Resolve(a)]; ok {
								changed = add(x, f, "") || changed
							}
						}
					}
				case *ssa.Convert:
					if f, ok := tv[ir.Resolve(x.X)]; ok && isFloatOrInt(x.Type()) {
						changed = add(x, f, "") || changed
					}
				case *ssa.ChangeType:
					if f, ok := tv[ir.Resolve(x.X)]; ok {
						changed = add(x, f, "") || changed
					}
				case *ssa.BinOp:
					switch x.Op {
					case token.ADD, token.SUB, token.MUL, token.QUO, token.REM:
						for _, a := range []ssa.Value{x.X, x.Y} {
							if f, ok := tv[ir.Resolve(a)]; ok {
								changed = add(x, f, "") || changed
							}
						}
					}
				case *ssa.UnOp:
					if x.Op == token.SUB {
						if f, ok := tv[ir.Resolve(x.X)]; ok {
							changed = add(x, f, "") || changed
						}
					}
					if x.Op == token.MUL { // load of a local that had a tainted store
						if al, ok := x.X.(*ssa.Alloc); ok {
							for _, st := range ir.StoresTo(al) {
								if f, ok := tv[ir.Resolve(st.Val)]; ok && st.Parent() == fn {
									changed = add(x, f, "") || changed
								}
							}
						}
					}
				case *ssa.Phi:
					for i, e := range x.Edges {
						if f, ok := tv[ir.Resolve(e)]; ok {
							// an edge guarded finite does not carry taint
							if guardedFinite(f.chain, x.Block().Preds[i], nil) {
								continue
							}
							changed = add(x, f, "") || changed
						}
					}
				}
				_ = v
				_ = isVal
			}
		}
	}
	return tv
}

func (t *taint) solve(funcs []*ssa.Function) {
	t.retTaint = map[*ssa.Function]map[int]string{}
	for changed := true; changed; {
		changed = false
		for _, fn := range funcs {
			if len(fn.Blocks) == 0 {
				continue
			}
			tv := t.analyse(fn)
			for _, r := range ir.Returns(fn) {
				for i, res := range r.Results {
					if !isFloatOrInt(res.Type()) {
						continue
					}
					// per predecessor when the result is a phi of the return block
					vias := []*ssa.BasicBlock{nil}
					if phi, ok := ir.Resolve(res).(*ssa.Phi); ok && phi.Block() == r.Block() {
						vias = r.Block().Preds
					}
					for _, via := range vias {
						v := ir.ResultVia(r, i, via)
						f, ok := tv[v]
						if !ok {
							continue
						}
						if guardedFinite(f.chain, r.Block(), via) {
							continue
						}
						if t.retTaint[fn] == nil {
							t.retTaint[fn] = map[int]string{}
						}
						if _, done := t.retTaint[fn][i]; !done {
							t.retTaint[fn][i] = f.origin
							changed = true
						}
					}
				}
			}
		}
	}
}

func c08(c *Ctx) {
	c.R.Explanation = "C08: only the fault clause is decided ('a failed or non-finite read leaves the smoothed value unchanged'). R-propagate = in every Sensor.GetValue implementation (and util.ReadIntFromFile) every return reachable from the err != nil edge of an error-returning call carries a non-nil error (no failure is converted into a value). R-fresh = no Sensor.GetValue implementation reads through an open handle (os.File, bufio.Reader, ...) remembered in a field of the sensor object: the configured source is opened anew on every poll, so a deleted or replaced file is a failed read. R-skip = in the call tree of the sensor-monitor actor no path from the error edge of Sensor.GetValue reaches Sensor.SetMovingAvg or util.UpdateSimpleMovingAvg. R-finite = interprocedural taint: a value that originates from strconv.ParseFloat, math.NaN() or math.Inf() (the sources of NaN/±Inf; Atoi-based sources cannot produce them), followed through conversions, arithmetic, phi, locals, math.* and function returns (invokes resolved to all implementations), must cross edges establishing !math.IsNaN and !math.IsInf(.,0) before it reaches UpdateSimpleMovingAvg / SetMovingAvg in the monitor or in the instantiation code that seeds the average with the first reading. R-propagate also covers util.SafeCmdExecution (every failure edge of the command run leads to a non-nil error: a command that exits non-zero is a failed read, whatever it printed). R-kept = in the sensors package the value result of a fallible call is stored into a field of an object (a cache) only where that call's error is established nil: a value kept from a failed read would later be handed out with a nil error. Not decided: the hull and the geometric convergence rate (floating-point arithmetic over arbitrary sequences)."
	c.R.Assumptions = append(c.R.Assumptions,
		"strconv.Atoi/ParseInt cannot yield non-finite values; strconv.ParseFloat accepts nan/inf",
		"the initial seeding of the average in InitializeObjects is not a poll (the statement's hull includes the initial value)")

	// ---- R-propagate -------------------------------------------------------------
	getValues := c.ImplMethods(PkgSensors, "Sensor", "GetValue")
	for _, fn := range getValues {
		c.R.Note("functions", c.FK(fn))
		n := c.checkErrorPropagation("R-propagate", fn, func(call *ssa.Call) bool { return true })
		if n == 0 {
			c.R.Ok("R-propagate", c.FK(fn)+"|no-fallible-call", c.FK(fn), c.P.Pos(fn.Pos()), "implementation makes no error-returning call")
		}
	}
	if rf := c.Func(PkgUtil, "ReadIntFromFile"); rf != nil {
		c.checkErrorPropagation("R-propagate", rf, func(call *ssa.Call) bool { return true })
	}
	// the command sensor's read: a command that could not be run or exited non-zero is a failed read
	// (same obligation as C19 R-err: every failure edge of SafeCmdExecution leads to a non-nil error)
	if safe := c.FuncOpt(PkgUtil, "SafeCmdExecution"); safe != nil {
		c.checkErrorPropagation("R-propagate", safe, func(call *ssa.Call) bool {
			return strings.HasPrefix(ir.CallName(call), "(*os/exec.Cmd).")
		})
	}
	c.R.Require("R-propagate", 4)
	c.ruleFailedReadNotKept("R-kept", PkgSensors)

	// ---- R-fresh: every poll reads the configured source anew -------------------------------
	// a handle (open file, reader) remembered in the sensor object keeps answering after the configured
	// path was deleted or replaced: such a fault is then no read failure any more and the stale number is
	// averaged in. Handles used by GetValue must be created in the same activation.
	nfresh := 0
	for _, fn := range c.ImplMethods(PkgSensors, "Sensor", "GetValue") {
		tree := c.Closure([]*ssa.Function{fn}, false, func(f *ssa.Function) bool {
			p := load_FuncPkgPath(f)
			return p != PkgSensors && p != PkgUtil
		})
		tbf := ir.NewTB(c.P.IsRepoFunc, c.P.FuncKey)
		tbf.ParamCallers = c.CallersIn(tree)
		stale := ""
		for _, f := range c.SortedFuncs(tree) {
			Calls(f, func(cc ssa.CallInstruction) {
				com := cc.Common()
				vals := append([]ssa.Value{}, com.Args...)
				if com.IsInvoke() {
					vals = append(vals, com.Value)
				}
				for _, v := range vals {
					n := ir.NamedOf(v.Type())
					if n == nil || n.Obj().Pkg() == nil {
						continue
					}
					full := n.Obj().Pkg().Path() + "." + n.Obj().Name()
					switch full {
					case "os.File", "bufio.Reader", "bufio.Scanner", "net.Conn":
					default:
						continue
					}
					t := tbf.Of(v, nil)
					if t.Has(func(x *ir.Term) bool { return strings.HasPrefix(x.Op, "field:") }) && t.Has(func(x *ir.Term) bool { return strings.HasPrefix(x.Op, "recv:") }) {
						stale = full + " kept in " + t.String() + " is used at " + c.P.Pos(cc.Pos())
					}
				}
			})
		}
		nfresh++
		key := c.FK(fn)
		if stale != "" {
			c.R.Bad("R-fresh", key, key, c.P.Pos(fn.Pos()), "the reading comes through a handle remembered in the sensor object ("+stale+"): a deleted or replaced source keeps answering from the old object, so the fault is not a failed read and the stale value is averaged in")
		} else {
			c.R.Ok("R-fresh", key, key, c.P.Pos(fn.Pos()), "no open handle remembered in the sensor object is used: every poll opens the configured source anew")
		}
	}
	c.R.Require("R-fresh", 3)

	// ---- R-skip --------------------------------------------------------------------
	monitorFns := c.ruleAvgSkip("R-skip")
	isAvgSink := func(cc ssa.CallInstruction) bool {
		return ir.IsInvoke(cc, PkgSensors, "Sensor", "SetMovingAvg") || ir.IsFunc(cc, PkgUtil, "UpdateSimpleMovingAvg")
	}

	// ---- R-finite --------------------------------------------------------------------
	t := &taint{c: c, impls: func(call ssa.CallInstruction) []*ssa.Function { return c.Callees(call) }}
	t.solve(c.P.Funcs)
	for fn, m := range t.retTaint {
		for i, o := range m {
			c.R.Note("may return a non-finite-derived value", sprintf("%s result #%d <- %s", c.FK(fn), i, o))
		}
	}
	nsink := 0
	// the average is also written outside the monitor: the instantiation code seeds it with the first reading
	sinkFns := append([]*ssa.Function{}, monitorFns...)
	inSink := map[*ssa.Function]bool{}
	for _, f := range sinkFns {
		inSink[f] = true
	}
	for _, f := range c.P.Funcs {
		if load_FuncPkgPath(f) != PkgInternal || inSink[f] || len(f.Blocks) == 0 {
			continue
		}
		has := false
		Calls(f, func(cc ssa.CallInstruction) {
			if isAvgSink(cc) {
				has = true
			}
		})
		if has {
			sinkFns = append(sinkFns, f)
		}
	}
	for _, fn := range sinkFns {
		tv := t.analyse(fn)
		Calls(fn, func(cc ssa.CallInstruction) {
			if !isAvgSink(cc) {
				return
			}
			nsink++
			key := c.FK(fn) + "|" + ir.CallName(cc)
			bad := ""
			for _, a := range cc.Common().Args {
				if f, ok := tv[ir.Resolve(a)]; ok {
					if !guardedFinite(f.chain, cc.Block(), nil) {
						bad = f.origin
					}
				}
			}
			if bad != "" {
				c.R.Bad("R-finite", key, c.FK(fn), c.P.Pos(cc.Pos()), "a value parsed without a finiteness guard reaches the moving average: "+bad+" (NaN/Inf would poison the average permanently)")
			} else {
				c.R.Ok("R-finite", key, c.FK(fn), c.P.Pos(cc.Pos()), "no unguarded ParseFloat-derived value reaches this update")
			}
		})
	}
	c.R.Require("R-finite", 1)
	c.ruleHull(monitorFns)
	c.R.Stats["functions_with_tainted_return"] = len(t.retTaint)
	c.R.Stats["average_update_sites"] = nsink
}

// ruleHull: (R-flow) the monitor stores UpdateSimpleMovingAvg(GetMovingAvg(), window, reading) of the same
// sensor; (R-hull) in real arithmetic the update is a convex combination: for window >= 1 the result lies
// between the old average and the reading (both orderings), which by induction is the hull clause.
func (c *Ctx) ruleHull(monitorFns []*ssa.Function) {
	tb := ir.NewTB(c.P.IsRepoFunc, c.P.FuncKey)
	tb.InlineMaxBlocks = 4 // thin non-caching wrappers around the update formula read like the direct call
	tb.NoInline = func(f *ssa.Function) bool { return ir.FuncIs(f, PkgUtil, "UpdateSimpleMovingAvg") }
	tb.ParamCallers = c.StaticCallers
	n := 0
	for _, fn := range monitorFns {
		Calls(fn, func(cc ssa.CallInstruction) {
			if !ir.IsInvoke(cc, PkgSensors, "Sensor", "SetMovingAvg") {
				return
			}
			n++
			key := c.FK(fn)
			t := tb.Of(cc.Common().Args[0], nil)
			recv := tb.Of(cc.Common().Value, nil).String()
			ok := t.Op == "call:"+PkgUtil+".UpdateSimpleMovingAvg" && len(t.Args) == 3 &&
				strings.HasSuffix(t.Args[0].Op, "sensors.Sensor.GetMovingAvg") && len(t.Args[0].Args) == 1 && t.Args[0].Args[0].String() == recv &&
				t.Args[1].Op == "field:TempRollingWindowSize" &&
				t.Args[2].Op == "res0" && len(t.Args[2].Args) == 1 && strings.HasSuffix(t.Args[2].Args[0].Op, "sensors.Sensor.GetValue") && t.Args[2].Args[0].Args[0].String() == recv
			if ok {
				c.R.Ok("R-flow", key, key, c.P.Pos(cc.Pos()), "SetMovingAvg(UpdateSimpleMovingAvg(s.GetMovingAvg(), tempRollingWindowSize, reading of s)) on the same sensor s")
			} else {
				c.R.Bad("R-flow", key, key, c.P.Pos(cc.Pos()), "the stored average is not UpdateSimpleMovingAvg(old average, tempRollingWindowSize, new reading) of the same sensor: "+t.String())
			}
		})
	}
	if n == 0 {
		c.R.Undecided("R-flow", "none", "sensor monitor", "-", "no SetMovingAvg call in the sensor monitor (anchor unresolved)")
	}
	upd := c.Func(PkgUtil, "UpdateSimpleMovingAvg")
	if upd == nil || len(upd.Params) != 3 {
		return
	}
	old, win, val := upd.Params[0], upd.Params[1], upd.Params[2]
	for _, neg := range []bool{false, true} {
		an := ranges.New(upd)
		an.AssumeNegativeDiff = neg
		an.Name = func(v ssa.Value) string { return v.Name() }
		an.Assume = func(v ssa.Value) (ranges.AV, bool) {
			if v == ssa.Value(win) {
				return ranges.AV{Lo: []ranges.Lin{ranges.Konst(1)}}, true // window size >= 1 (quantifier)
			}
			return ranges.AV{}, false
		}
		okAll := true
		desc := ""
		for _, r := range ir.Returns(upd) {
			av := an.Eval(r.Results[0], ranges.FactsAt(r.Block(), nil))
			desc = an.AVString(av)
			lo, hi := ranges.Sym(old), ranges.Sym(val)
			if neg {
				lo, hi = hi, lo
			}
			if !(ranges.ProvesGE(av, lo) && ranges.ProvesLE(av, hi)) {
				okAll = false
			}
		}
		which := "reading >= old average: old <= result <= reading"
		if neg {
			which = "reading <= old average: reading <= result <= old"
		}
		key := c.FK(upd) + "|" + map[bool]string{false: "rising", true: "falling"}[neg]
		if okAll {
			c.R.Add(obOK("R-hull", key, c.FK(upd), c.P.Pos(upd.Pos()), "for window >= 1, in real arithmetic: "+which+"  ("+desc+")", an.Hyps))
		} else {
			c.R.Bad("R-hull", key, c.FK(upd), c.P.Pos(upd.Pos()), "the moving-average update is not proved to stay between the old average and the new reading ("+which+"): "+desc)
		}
	}
	c.R.Require("R-hull", 2)
}

// ruleAvgSkip: in the call tree of the sensor-monitor actor no path from the error edge of Sensor.GetValue reaches
// Sensor.SetMovingAvg or util.UpdateSimpleMovingAvg, and the average is not updated before that error was tested
// (C08 R-skip; shared with C09: "keeps regulating with the last good data").
func (c *Ctx) ruleAvgSkip(rule string) []*ssa.Function {
	var monitorFns []*ssa.Function
	for _, run := range c.ConvertedImplMethods(PkgInternal, "SensorMonitor", "Run") {
		for f := range c.Closure([]*ssa.Function{run}, true, func(f *ssa.Function) bool {
			p := load_FuncPkgPath(f)
			return p == PkgUI
		}) {
			monitorFns = append(monitorFns, f)
		}
	}
	if len(monitorFns) == 0 {
		c.R.Undecided(rule, "no-monitor", "SensorMonitor.Run", "-", "no sensor monitor implementation found (anchor unresolved)")
	}
	isAvgSink := func(cc ssa.CallInstruction) bool {
		return ir.IsInvoke(cc, PkgSensors, "Sensor", "SetMovingAvg") || ir.IsFunc(cc, PkgUtil, "UpdateSimpleMovingAvg")
	}
	// pure forwarding wrappers of the read (`return s.GetValue()`): their call sites are the reads to judge
	readWrappers := map[*ssa.Function]bool{}
	isRead := func(cc ssa.CallInstruction) bool {
		if ir.IsInvoke(cc, PkgSensors, "Sensor", "GetValue") {
			return true
		}
		st := ir.Callee(cc).Static
		return st != nil && readWrappers[st]
	}
	for changed := true; changed; {
		changed = false
		for _, fn := range monitorFns {
			if readWrappers[fn] || len(fn.Blocks) == 0 {
				continue
			}
			rets := ir.Returns(fn)
			forwards := len(rets) > 0
			for _, rt := range rets {
				tc := tailCallOf(rt, errResultIndex(fn))
				if tc == nil || !isRead(tc) {
					forwards = false
				}
			}
			if forwards {
				readWrappers[fn] = true
				changed = true
			}
		}
	}
	nskip := 0
	for _, fn := range monitorFns {
		if readWrappers[fn] {
			continue
		}
		Calls(fn, func(cc ssa.CallInstruction) {
			call, ok := cc.(*ssa.Call)
			if !ok || !isRead(cc) {
				return
			}
			nskip++
			key := c.FK(fn)
			ev := errValueOfCall(call)
			es := nilEdges(fn, ev, true)
			if len(es) == 0 {
				c.R.Bad(rule, key, key, c.P.Pos(call.Pos()), "the error of Sensor.GetValue is not tested before the average is updated")
				return
			}
			reached := ""
			ir.Search{}.Reach(edgeStarts(es), func(ins ssa.Instruction, _ *ssa.BasicBlock) {
				if c2, ok := ins.(ssa.CallInstruction); ok {
					if isAvgSink(c2) {
						reached = c.P.Pos(ins.Pos())
					}
					for _, cal := range c.Callees(c2) {
						if c.reaches(cal, isAvgSink) {
							reached = c.P.Pos(ins.Pos())
						}
					}
				}
			})
			// and the sink must not be reachable without passing the test at all
			untested := false
			okEdges := nilEdges(fn, ev, false)
			ir.Search{StopEdge: func(b *ssa.BasicBlock, si int) bool {
				for _, e := range append(okEdges, es...) {
					if e.b == b && e.si == si {
						return true
					}
				}
				return false
			}}.Reach([]ir.Point{ir.After(call)}, func(ins ssa.Instruction, _ *ssa.BasicBlock) {
				if c2, ok := ins.(ssa.CallInstruction); ok && isAvgSink(c2) {
					untested = true
				}
			})
			if reached != "" {
				c.R.Bad(rule, key, key, reached, "the moving average is updated on a path that crossed the error edge of Sensor.GetValue")
			} else if untested {
				c.R.Bad(rule, key, key, c.P.Pos(call.Pos()), "the moving average is updated on a path that never tests the error of Sensor.GetValue")
			} else {
				c.R.Ok(rule, key, key, c.P.Pos(call.Pos()), "no path from the error edge of Sensor.GetValue reaches SetMovingAvg / UpdateSimpleMovingAvg")
			}
		})
	}
	if nskip == 0 && len(monitorFns) > 0 {
		c.R.Undecided(rule, "no-getvalue", "sensor monitor", "-", "the sensor monitor's call tree contains no Sensor.GetValue call (anchor unresolved)")
	}
	c.R.Require(rule, 1)
	return monitorFns
}

// ruleFailedReadNotKept: the value result of a fallible call (T, error) is stored into a field of an object (a
// cache, a "last value") only where that call's error is established nil. A value kept from a failed read is handed
// out later as if it had been read: a cached 0 with a nil error is averaged in / regulated on.
func (c *Ctx) ruleFailedReadNotKept(rule string, pkgs ...string) {
	inPkg := func(p string) bool {
		for _, q := range pkgs {
			if p == q {
				return true
			}
		}
		return false
	}
	n, nbad := 0, 0
	for _, fn := range c.P.Funcs {
		if !inPkg(load_FuncPkgPath(fn)) || len(fn.Blocks) == 0 {
			continue
		}
		Instrs(fn, func(ins ssa.Instruction) {
			st, ok := ins.(*ssa.Store)
			if !ok {
				return
			}
			if _, isField := st.Addr.(*ssa.FieldAddr); !isField {
				return
			}
			ex, ok := ir.Resolve(st.Val).(*ssa.Extract)
			if !ok {
				return
			}
			call, ok := ex.Tuple.(*ssa.Call)
			if !ok {
				return
			}
			res := call.Common().Signature().Results()
			ei := res.Len() - 1
			if ei < 1 || ex.Index == ei || !isErrorType(res.At(ei).Type()) {
				return
			}
			n++
			ev := errValueOfCall(call)
			facts := ir.BlockFacts(st.Block())
			okNil := ev != nil && ir.HasFact(facts, token.EQL, func(x, y ssa.Value) bool { return ir.Resolve(x) == ir.Resolve(ev) && ir.IsNilConst(y) })
			_, fname, _ := ir.FieldName(st.Addr.(*ssa.FieldAddr))
			key := c.FK(fn) + "|" + fname
			if okNil {
				c.R.Ok(rule, key, c.FK(fn), c.P.Pos(st.Pos()), "the value of "+ir.CallName(call)+" is kept in field "+fname+" only where its error is nil")
			} else {
				nbad++
				c.R.Bad(rule, key, c.FK(fn), c.P.Pos(st.Pos()), "the value result of "+ir.CallName(call)+" is stored into field "+fname+" without its error being established nil: the value that accompanies a failed read (0) is kept and later handed out as a reading")
			}
		})
	}
	c.R.Ok(rule, "summary", strings.Join(pkgs, ", "), "-", sprintf("%d stores of a fallible call's value into a field, %d without a nil-error guard", n, nbad))
}
