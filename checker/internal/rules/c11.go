package rules

import (
	"go/token"
	"go/types"
	"sort"
	"strings"

	"f2gcheck/internal/ir"
	"f2gcheck/internal/ranges"

	"golang.org/x/tools/go/ssa"
)

func init() { Registry["C11"] = c11 }

// partialSite is one configuration-dependent partial operation.
type partialSite struct {
	fn     *ssa.Function
	ins    ssa.Instruction
	kind   string // index | slice | div | lookup-deref | getter-deref | nil-iface-arg
	what   string // line-free description of the operand
	detail string
}

func (c *Ctx) c11Scope() (map[*ssa.Function]bool, []string) {
	var roots []*ssa.Function
	var names []string
	add := func(f *ssa.Function, n string) {
		if f != nil {
			roots = append(roots, f)
			names = append(names, c.FK(f)+" ("+n+")")
		}
	}
	add(c.Func(PkgInternal, "InitializeObjects"), "instantiation")
	if pk := c.P.SSAPkgs[PkgInternal]; pk != nil {
		for _, m := range pk.Members {
			if f, ok := m.(*ssa.Function); ok {
				calls := false
				Calls(f, func(cc ssa.CallInstruction) {
					if ir.IsFunc(cc, PkgCtrl, "NewFanController") {
						calls = true
					}
				})
				if calls {
					add(f, "controller construction")
				}
			}
		}
	}
	add(c.Func(PkgCtrl, "NewFanController"), "controller construction")
	for _, f := range c.ImplMethods(PkgCurves, "SpeedCurve", "Evaluate") {
		add(f, "curve evaluation")
	}
	for _, f := range c.ImplMethods(PkgCtrl, "FanController", "UpdateFanSpeed") {
		add(f, "control cycle")
	}
	scope := c.Closure(roots, true, func(f *ssa.Function) bool {
		p := load_FuncPkgPath(f)
		return p == PkgUI || p == PkgStats
	})
	return scope, names
}

// lenGuard: do the facts establish len(x) >= need for the collection x?
func lenAtLeast(facts []ir.Fact, x ssa.Value, need int64) bool {
	x = ir.Resolve(x)
	isLen := func(v ssa.Value) bool {
		call, ok := v.(*ssa.Call)
		return ok && ir.Callee(call).Builtin == "len" && ir.SameLoad(call.Call.Args[0], x)
	}
	return ir.HasFact(facts, token.GTR, func(a, b ssa.Value) bool {
		k, ok := ir.ConstInt(b)
		return ok && isLen(a) && k >= need-1
	}) || ir.HasFact(facts, token.GEQ, func(a, b ssa.Value) bool {
		k, ok := ir.ConstInt(b)
		return ok && isLen(a) && k >= need
	}) || (need == 1 && ir.HasFact(facts, token.NEQ, func(a, b ssa.Value) bool {
		k, ok := ir.ConstInt(b)
		return ok && isLen(a) && k == 0
	}))
}

func (c *Ctx) partialSites(scope map[*ssa.Function]bool, tb *ir.TB) (sites []partialSite, discharged int) {
	for _, fn := range c.SortedFuncs(scope) {
		an := ranges.New(fn)
		Instrs(fn, func(ins ssa.Instruction) {
			facts := ir.BlockFacts(ins.Block())
			switch x := ins.(type) {
			case *ssa.IndexAddr, *ssa.Index, *ssa.Lookup:
				var coll, idx ssa.Value
				if ia, ok := x.(*ssa.IndexAddr); ok {
					coll, idx = ia.X, ia.Index
				} else if lk, ok := x.(*ssa.Lookup); ok {
					// s[i] on a string is a Lookup in go/ssa; map lookups are total
					if b, isStr := lk.X.Type().Underlying().(*types.Basic); !isStr || b.Info()&types.IsString == 0 {
						return
					}
					coll, idx = lk.X, lk.Index
				} else {
					coll, idx = x.(*ssa.Index).X, x.(*ssa.Index).Index
				}
				// arrays behind pointers with constant in-range index (varargs packing etc.)
				if p, ok := coll.Type().Underlying().(*types.Pointer); ok {
					if arr, ok := p.Elem().Underlying().(*types.Array); ok {
						if k, isConst := ir.ConstInt(idx); isConst && k >= 0 && k < arr.Len() {
							discharged++
							return
						}
					}
				}
				// range loops: index = phi#rangeindex + 1 over the same collection
				if b, ok := idx.(*ssa.BinOp); ok && b.Op == token.ADD {
					if phi, ok := b.X.(*ssa.Phi); ok && phi.Comment == "rangeindex" {
						discharged++
						return
					}
				}
				cr := ir.Resolve(coll)
				// constant index with a dominating length guard
				if k, isConst := ir.ConstInt(idx); isConst && k >= 0 {
					if lenAtLeast(facts, cr, k+1) {
						discharged++
						return
					}
					sites = append(sites, partialSite{fn, ins, "index", tb.Of(coll, nil).String() + "[" + sprintf("%d", k) + "]", "constant index without a dominating length guard"})
					return
				}
				// symbolic: prove 0 <= idx <= len(coll)-1 with the range analysis
				av := an.Eval(idx, facts)
				lo, _, okLo, _ := av.ConstBounds()
				upper := false
				for _, h := range av.Hi {
					// h = len(coll) - k, k >= 1
					if len(h.Coef) == 1 && h.C <= -1 {
						for s, co := range h.Coef {
							if call, ok := s.(*ssa.Call); ok && co == 1 && ir.Callee(call).Builtin == "len" && ir.SameLoad(call.Call.Args[0], cr) {
								upper = true
							}
						}
					}
				}
				if okLo && lo >= 0 && upper {
					discharged++
					return
				}
				sites = append(sites, partialSite{fn, ins, "index", tb.Of(coll, nil).String() + "[" + tb.Of(idx, nil).String() + "]", "index not proved within bounds: " + an.AVString(av)})
			case *ssa.Slice:
				if ir.VarArgs(x) != nil {
					discharged++
					return
				}
				if _, isAlloc := x.X.(*ssa.Alloc); isAlloc && x.Low == nil && x.High == nil {
					discharged++
					return
				}
				if x.Low == nil && x.High == nil {
					discharged++
					return
				}
				// s[k:] with constant k needs len >= k
				if x.High == nil {
					if k, isConst := ir.ConstInt(x.Low); isConst && k >= 0 {
						need := k
						if need == 0 || lenAtLeast(facts, ir.Resolve(x.X), need) {
							discharged++
							return
						}
						// strings.HasPrefix(s, "~") guard for s[1:]
						if ir.HasBool(facts, true, func(v ssa.Value) bool {
							call, ok := v.(*ssa.Call)
							return ok && ir.CallName(call) == "strings.HasPrefix" && ir.Resolve(call.Call.Args[0]) == ir.Resolve(x.X)
						}) {
							if p, ok := ir.ConstString(func() ssa.Value {
								for _, f := range facts {
									if call, ok := f.Bool.(*ssa.Call); ok && f.Truth && ir.CallName(call) == "strings.HasPrefix" {
										return call.Call.Args[1]
									}
								}
								return x.Low
							}()); ok && int64(len(p)) >= need {
								discharged++
								return
							}
						}
					}
				}
				sites = append(sites, partialSite{fn, ins, "slice", tb.Of(x.X, nil).String() + "[…:…]", "slice bounds not proved"})
			case *ssa.BinOp:
				if (x.Op == token.QUO || x.Op == token.REM) && isIntType(x.Type()) {
					if k, isConst := ir.ConstInt(x.Y); isConst && k != 0 {
						discharged++
						return
					}
					y := ir.Resolve(x.Y)
					nz := ir.HasFact(facts, token.NEQ, func(a, b ssa.Value) bool { k, ok := ir.ConstInt(b); return a == y && ok && k == 0 }) ||
						ir.HasFact(facts, token.GTR, func(a, b ssa.Value) bool { k, ok := ir.ConstInt(b); return a == y && ok && k >= 0 })
					if call, ok := y.(*ssa.Call); ok && ir.Callee(call).Builtin == "len" {
						if lenAtLeast(facts, call.Call.Args[0], 1) {
							nz = true
						}
					}
					if nz {
						discharged++
						return
					}
					sites = append(sites, partialSite{fn, ins, "div", "… / " + tb.Of(x.Y, nil).String(), "integer division by a value not proved non-zero"})
				}
			case *ssa.Call:
				c.derefSites(fn, x, x.Common(), facts, tb, &sites, &discharged)
			}
		})
	}
	return
}

func isIntType(t types.Type) bool {
	b, ok := t.Underlying().(*types.Basic)
	return ok && b.Info()&types.IsInteger != 0
}

// derefSites: invoke / method call on a value that came from a map lookup or a
// (value, ok) getter whose ok was ignored and no nil test dominates.
func (c *Ctx) derefSites(fn *ssa.Function, ins ssa.Instruction, cc *ssa.CallCommon, facts []ir.Fact, tb *ir.TB, sites *[]partialSite, discharged *int) {
	var recv ssa.Value
	if cc.IsInvoke() {
		recv = cc.Value
	} else {
		return
	}
	r := ir.Resolve(recv)
	var src string
	// indirect: the receiver derives (through a slice / phi) from a (value, ok) getter whose ok is never used
	if t := tb.Of(recv, nil); t.Op != "res0" {
		if g := t.Find(func(x *ir.Term) bool {
			if x.Op != "res0" || len(x.Args) != 1 || !strings.HasPrefix(x.Args[0].Op, "call:") {
				return false
			}
			call, ok := x.Args[0].Val.(*ssa.Call)
			if !ok {
				return false
			}
			res := call.Common().Signature().Results()
			if res.Len() != 2 {
				return false
			}
			b, ok := res.At(1).Type().Underlying().(*types.Basic)
			if !ok || b.Kind() != types.Bool {
				return false
			}
			okv := resultOfCall(call, 1)
			return okv == nil || okv.Referrers() == nil || len(*okv.Referrers()) == 0
		}); g != nil {
			*sites = append(*sites, partialSite{fn, ins, "getter-deref", "getter " + g.Args[0].String() + " (ok ignored, result kept in a collection)", "method invoked on an element that may be the zero value of a missed lookup"})
			return
		}
	}
	switch x := r.(type) {
	case *ssa.Lookup:
		if !x.CommaOk {
			src = "map lookup " + tb.Of(x, nil).String()
		}
	case *ssa.Extract:
		if x.Index == 0 {
			switch t := x.Tuple.(type) {
			case *ssa.Lookup:
				okUsed := false
				if refs := t.Referrers(); refs != nil {
					for _, ref := range *refs {
						if e, ok := ref.(*ssa.Extract); ok && e.Index == 1 && e.Referrers() != nil && len(*e.Referrers()) > 0 {
							okUsed = true
						}
					}
				}
				if !okUsed {
					src = "map lookup (ok ignored) " + tb.Of(t.X, nil).String()
				} else if !ir.HasBool(facts, true, func(v ssa.Value) bool {
					e, ok := v.(*ssa.Extract)
					return ok && e.Tuple == ssa.Value(t) && e.Index == 1
				}) {
					src = "map lookup (ok not established) " + tb.Of(t.X, nil).String()
				}
			case *ssa.Call:
				res := t.Common().Signature().Results()
				if res.Len() == 2 {
					if b, ok := res.At(1).Type().Underlying().(*types.Basic); ok && b.Kind() == types.Bool {
						okEst := ir.HasBool(facts, true, func(v ssa.Value) bool {
							e, ok := v.(*ssa.Extract)
							return ok && e.Tuple == ssa.Value(t) && e.Index == 1
						})
						if !okEst {
							src = "getter " + ir.CallName(t) + "(" + termsString(tb, t.Common().Args) + ") with ok not established"
						}
					}
				}
			}
		}
	}
	if src == "" {
		return
	}
	// a dominating nil test discharges it
	if ir.HasFact(facts, token.NEQ, func(a, b ssa.Value) bool { return a == r && ir.IsNilConst(b) }) {
		*discharged++
		return
	}
	*sites = append(*sites, partialSite{fn, ins, "getter-deref", src, "method invoked on the result without an existence / nil test"})
}

func termsString(tb *ir.TB, vs []ssa.Value) string {
	var out []string
	for _, v := range vs {
		out = append(out, tb.Of(v, nil).String())
	}
	return strings.Join(out, ", ")
}

func c11(c *Ctx) {
	scope, names := c.c11Scope()
	tb := ir.NewTB(c.P.IsRepoFunc, c.P.FuncKey)
	tb.InlineMaxBlocks = 0
	tb.ParamCallers = c.StaticCallers // a helper extracted from one caller reads like the inlined code
	sites, discharged := c.partialSites(scope, tb)
	sort.Slice(sites, func(i, j int) bool { return c.FK(sites[i].fn)+sites[i].what < c.FK(sites[j].fn)+sites[j].what })
	for _, n := range names {
		c.R.Note("entries", n)
	}
	c.R.Stats["functions_in_scope"] = len(scope)
	c.R.Stats["partial_operations_locally_discharged"] = discharged
	if dbg {
		for _, s := range sites {
			println("SITE", c.FK(s.fn), "|", s.kind, "|", s.what, "|", c.P.Pos(s.ins.Pos()), "|", s.detail)
		}
	}
	c.c11Decide(sites, tb)
}

// obligation ties a class of partial-operation sites to the validator check that discharges it.
type obligation struct {
	fnSuffix string // function key suffix
	kind     string
	operand  string // substring of the site's operand description ("" = any)
	field    string // configuration field the operation depends on
	check    string // lenpos:<field path suffix> | exists:<helper>:<field> | notdecided
	reason   string
}

var c11Table = []obligation{
	{"curves.FunctionSpeedCurve).Evaluate", "index", "[0]", "function.curves", "lenpos:Curves(field:Function", "delta indexes values[0]; len(values) == len(function.curves)"},
	{"curves.FunctionSpeedCurve).Evaluate", "div", "builtin:len(", "function.curves", "lenpos:Curves(field:Function", "average divides by len(curves)"},
	{"curves.FunctionSpeedCurve).Evaluate", "getter-deref", "curves.GetSpeedCurve", "function.curves[*]", "exists:*:Curves", "members are looked up by id and evaluated without an ok test"},
	{"curves.LinearSpeedCurve).Evaluate", "getter-deref", "sensors.GetSensor", "linear.sensor", "exists:*:Linear", "the sensor is looked up by id and used without an ok test"},
	{"curves.PidSpeedCurve).Evaluate", "getter-deref", "sensors.GetSensor", "pid.sensor", "exists:*:PID", "the sensor is looked up by id and used without an ok test"},
	{"util.CalculateInterpolatedCurveValue", "index", "bin:-(builtin:len(", "linear.steps", "lenpos:Steps(field:Linear", "the last step is indexed: a non-nil empty steps map must be rejected"},
	{"util.FindClosest", "index", "[0]", "fan.pwmMap", "lenpos:PwmMap(", "the key list derived from an empty pwmMap override is empty"},
	{"util.FindClosest", "index", "[bin:-(builtin:len(", "fan.pwmMap", "lenpos:PwmMap(", "the key list derived from an empty pwmMap override is empty"},
	{"util.FindClosest", "index", "", "", "notdecided", "interior indexes of the binary search need the relational invariant i<j<=n (functional correctness of the search: C12, not decided)"},
}

func (c *Ctx) c11Decide(sites []partialSite, tb *ir.TB) {
	c.R.Explanation = "C11: the crash-freedom half is decided structurally. R-partial = every configuration-dependent partial operation (slice/array index and slice expression not proved in bounds by constant/length guards, range loops or the symbolic range analysis; integer division by a value not proved non-zero; method invoke on the result of a map lookup or (value, ok) getter whose ok is ignored, directly or via a collection; a possibly-nil control loop handed to the controller) in the call tree of InitializeObjects, controller construction, every SpeedCurve.Evaluate and UpdateFanSpeed is either discharged locally or matched by an entry of the validator-obligation table naming the configuration field it depends on; for each entry the call tree of configuration.Validate must contain the corresponding check (len(F) <= 0, !exists(F), both-nil) on an edge from which every return carries a non-nil error, and the validator's error must reach Validate's result. A site with no local guard and no table entry is a violation (a new unguarded partial operation). R-dispatch = for fans, sensors and curves the set of backend fields the factory dispatches on equals the set the validator counts, and the validator rejects count > 1 and count <= 0. R-cycle = the validator's acyclicity verdict comes from tarjan.Connections over a graph that receives, for every function curve, an edge list built from every element of its member list; components larger than one and self references yield errors; the verdict is returned. R-gate = RunDaemon is entered only after Validate succeeded. R-cycle own-members = the edge list stored for a curve starts empty for that curve: it is not carried round the loop over the curves (extra edges from earlier curves can close a cycle the configuration does not contain, and a valid configuration is rejected). R-registry|every-entry = in the instantiation code every iteration of a loop that registers objects (a function of the registry packages reaching a concurrent-map Set) registers one or leaves the function: the validator guarantees that referenced ids are defined, the registries must then contain them. Not decided: uniqueness/acceptance semantics, correctness of the SCC library, the converse (documented forms are accepted), the binary search's interior index arithmetic."
	c.R.Assumptions = append(c.R.Assumptions,
		"github.com/looplab/tarjan.Connections returns the strongly connected components of the given graph (trusted library summary)",
		"len(values) == len(curves) == len(function.curves) in FunctionSpeedCurve.Evaluate (one append per element, checked by R-members)")
	validate := c.Func(PkgConf, "Validate")
	if validate == nil {
		return
	}
	vtree := c.Closure([]*ssa.Function{validate}, false, func(f *ssa.Function) bool { return load_FuncPkgPath(f) != PkgConf })

	// rejecting edges: every return reachable from the edge is a non-nil error
	rejects := func(fn *ssa.Function, e edge) bool {
		ei := errResultIndex(fn)
		if ei < 0 {
			return false
		}
		for _, rv := range returnsFrom([]ir.Point{ir.EdgeStart(e.b, e.si)}, ir.Search{StopEdge: func(b *ssa.BasicBlock, si int) bool { return b.Succs[si].Dominates(b) }}) {
			facts := factsAt(rv.ret.Block(), rv.via)
			if mayBeNilError(rv.ret.Results[ei], facts) && mayBeNilError(ir.ResultVia(rv.ret, ei, rv.via), facts) {
				return false
			}
		}
		return true
	}
	// environments of a validator function: its parameters bound to the arguments of each call chain
	// inside the validator's call tree (a rule helper shared by several kinds of entries is judged per caller)
	var envsOf func(fn *ssa.Function, depth int) []*ir.Env
	envsOf = func(fn *ssa.Function, depth int) []*ir.Env {
		var sites []*ssa.Call
		for _, s := range c.StaticCallers(fn) {
			if call, ok := s.(*ssa.Call); ok && vtree[s.Parent()] {
				sites = append(sites, call)
			}
		}
		if len(sites) < 2 || depth >= 3 {
			return []*ir.Env{nil} // unique callers are resolved by the term builder itself
		}
		var out []*ir.Env
		for _, call := range sites {
			for _, outer := range envsOf(call.Parent(), depth+1) {
				if e := tb.EnvOfCall(call, outer); e != nil {
					out = append(out, e)
				}
			}
		}
		if len(out) == 0 {
			return []*ir.Env{nil}
		}
		return out
	}
	termHasIn := func(v ssa.Value, fn *ssa.Function, needle string) bool {
		for _, env := range envsOf(fn, 0) {
			if strings.Contains(tb.Of(v, env).String(), needle) {
				return true
			}
		}
		return false
	}
	findCheck := func(check string) (string, bool) {
		parts := strings.SplitN(check, ":", 3)
		for _, fn := range c.SortedFuncs(vtree) {
			for _, b := range fn.Blocks {
				for si := range b.Succs {
					fs := ir.EdgeFacts(b, si)
					hit := false
					switch parts[0] {
					case "lenpos":
						isLenOf := func(v ssa.Value) bool {
							call, ok := v.(*ssa.Call)
							return ok && ir.Callee(call).Builtin == "len" && termHasIn(call.Call.Args[0], fn, "field:"+parts[1])
						}
						hit = ir.HasFact(fs, token.LEQ, func(x, y ssa.Value) bool { k, ok := ir.ConstInt(y); return ok && k == 0 && isLenOf(x) }) ||
							ir.HasFact(fs, token.LSS, func(x, y ssa.Value) bool { k, ok := ir.ConstInt(y); return ok && k == 1 && isLenOf(x) }) ||
							ir.HasFact(fs, token.EQL, func(x, y ssa.Value) bool { k, ok := ir.ConstInt(y); return ok && k == 0 && isLenOf(x) })
					case "exists":
						hit = ir.HasBool(fs, false, func(v ssa.Value) bool {
							call, ok := v.(*ssa.Call)
							if !ok || ir.Callee(call).Static == nil || !c.P.IsRepoFunc(ir.Callee(call).Static) || len(call.Call.Args) == 0 {
								return false
							}
							if parts[1] != "*" && ir.Callee(call).Static.Name() != parts[1] {
								return false
							}
							if why := c.idExistsHelper(ir.Callee(call).Static, tb); why != "" {
								return false
							}
							return termHasIn(call.Call.Args[0], fn, "field:"+parts[2])
						})
					case "bothnil":
						d := ir.HasFact(fs, token.EQL, func(x, y ssa.Value) bool { return ir.IsNilConst(y) && tb.Of(x, nil).Op == "field:Direct" })
						p := ir.HasFact(fs, token.EQL, func(x, y ssa.Value) bool { return ir.IsNilConst(y) && tb.Of(x, nil).Op == "field:Pid" })
						if d || p {
							all := append(append([]ir.Fact{}, fs...), ir.BlockFacts(b)...)
							d = ir.HasFact(all, token.EQL, func(x, y ssa.Value) bool { return ir.IsNilConst(y) && tb.Of(x, nil).Op == "field:Direct" })
							p = ir.HasFact(all, token.EQL, func(x, y ssa.Value) bool { return ir.IsNilConst(y) && tb.Of(x, nil).Op == "field:Pid" })
						}
						hit = d && p
					}
					if hit && rejects(fn, edge{b, si}) {
						return c.FK(fn) + " at " + c.P.Pos(b.Instrs[len(b.Instrs)-1].Pos()), true
					}
				}
			}
		}
		return "", false
	}

	// ---- R-partial ----------------------------------------------------------------
	matched := map[int]int{}
	for _, s := range sites {
		fk := c.FK(s.fn)
		var ob *obligation
		idx := -1
		for i := range c11Table {
			o := &c11Table[i]
			if c.inAnchorTree(s.fn, o.fnSuffix) && o.kind == s.kind && (o.operand == "" || strings.Contains(s.what, o.operand)) {
				ob, idx = o, i
				break
			}
		}
		short := s.what
		if len(short) > 90 {
			short = short[:90] + "…"
		}
		key := fk + "|" + s.kind + "|" + short
		if ob == nil {
			c.R.Bad("R-partial", key, fk, c.P.Pos(s.ins.Pos()), "partial operation with neither a dominating local guard nor a validator obligation: "+s.detail+" ("+s.what+")")
			continue
		}
		matched[idx]++
		if ob.check == "notdecided" {
			c.R.Excluded("R-partial", key, fk, c.P.Pos(s.ins.Pos()), ob.reason)
			continue
		}
		if where, ok := findCheck(ob.check); ok {
			c.R.Ok("R-partial", key, fk, c.P.Pos(s.ins.Pos()), s.kind+" depends on "+ob.field+" ("+ob.reason+"); discharged by the validator check in "+where)
		} else {
			c.R.Bad("R-partial", key, fk, c.P.Pos(s.ins.Pos()), s.kind+" depends on the configuration field "+ob.field+" ("+ob.reason+") but configuration.Validate contains no rejecting check ["+ob.check+"]: a configuration that validates crashes here")
		}
	}
	// every discharging table entry must still correspond to a site (anchor drift guard)
	for i, o := range c11Table {
		if matched[i] == 0 {
			c.R.Undecided("R-partial", "table|"+o.fnSuffix+"|"+o.kind+"|"+o.operand, o.fnSuffix, "-", "table entry matches no site any more (the code moved: re-confirm the obligation)")
		}
	}
	c.R.Require("R-partial", 8)

	// members: one evaluated value per configured member (len(values) == len(function.curves))
	for _, fn := range c.ImplMethods(PkgCurves, "SpeedCurve", "Evaluate") {
		if !strings.Contains(c.FK(fn), "FunctionSpeedCurve") {
			continue
		}
		t := ""
		Instrs(fn, func(ins ssa.Instruction) {
			if b, ok := ins.(*ssa.BinOp); ok && b.Op == token.QUO && isIntType(b.Type()) {
				t = tb.Of(b.Y, nil).String()
			}
		})
		skipped := ""
		Calls(fn, func(cc ssa.CallInstruction) {
			call, ok := cc.(*ssa.Call)
			if !ok || ir.Callee(call).Builtin != "append" {
				return
			}
			head := loopHead(call.Block())
			if head == nil {
				return
			}
			var starts []ir.Point
			for si, sb := range head.Succs {
				if sb != head && head.Dominates(sb) && reachesWithinLoop(sb, head) {
					starts = append(starts, ir.EdgeStart(head, si))
				}
			}
			ir.Search{StopInstr: func(ins ssa.Instruction) bool { return ins == ssa.Instruction(call) }}.Reach(starts, func(ins ssa.Instruction, _ *ssa.BasicBlock) {
				if ins.Block() == head && ins == head.Instrs[0] {
					skipped = c.P.Pos(call.Pos())
				}
			})
		})
		if skipped != "" {
			c.R.Bad("R-members", c.FK(fn), c.FK(fn), skipped, "an iteration over the members can complete without appending to the collection whose length is used as divisor / index bound: len(values) == len(function.curves) no longer holds, so the validator's non-empty check does not protect values[0] / the division")
		} else if strings.Contains(t, "field:Curves(field:Function") {
			c.R.Ok("R-members", c.FK(fn), c.FK(fn), c.P.Pos(fn.Pos()), "the divisor / indexed collection is built with one element per entry of function.curves (every iteration appends or returns)")
		} else if t != "" {
			c.R.Bad("R-members", c.FK(fn), c.FK(fn), c.P.Pos(fn.Pos()), "the average's divisor is not derived from function.curves: "+t)
		}
	}

	// nil control loop
	nctl := 0
	for _, fn := range c.P.Funcs {
		Calls(fn, func(cc ssa.CallInstruction) {
			if !ir.IsFunc(cc, PkgCtrl, "NewFanController") {
				return
			}
			for i, a := range cc.Common().Args {
				if !types.IsInterface(a.Type()) {
					continue
				}
				mayNil := false
				if phi, ok := ir.Resolve(a).(*ssa.Phi); ok {
					for _, e := range phi.Edges {
						if ir.IsNilConst(ir.Resolve(e)) {
							mayNil = true
						}
					}
				}
				if ir.IsNilConst(ir.Resolve(a)) {
					mayNil = true
				}
				if !mayNil {
					continue
				}
				nctl++
				key := c.FK(fn) + sprintf("|nil-iface-arg#%d", i)
				if where, ok := findCheck("bothnil"); ok {
					c.R.Ok("R-partial", key, c.FK(fn), c.P.Pos(cc.Pos()), "the control loop handed to the controller is nil when controlAlgorithm sets neither direct nor pid; discharged by the validator check in "+where)
				} else {
					c.R.Bad("R-partial", key, c.FK(fn), c.P.Pos(cc.Pos()), "a nil control loop can be handed to the controller (controlAlgorithm with neither direct nor pid) and configuration.Validate does not reject that form: the first cycle panics")
				}
			}
		})
	}

	// the validator's verdict reaches Validate's result
	for _, fn := range c.SortedFuncs(vtree) {
		if errResultIndex(fn) < 0 {
			continue
		}
		c.checkErrorPropagation("R-verdict", fn, func(call *ssa.Call) bool {
			cal := ir.Callee(call).Static
			return cal != nil && vtree[cal] && errResultIndex(cal) >= 0
		})
	}
	c.R.Require("R-verdict", 3)

	c.ruleDispatch(tb)
	c.ruleCycle(vtree, tb, rejects)
	c.ruleRegistry()
	c.ruleGate()
}

// idExistsHelper verifies helper(id, config) returns true only on an edge elem.ID == id (and scans a config list).
func (c *Ctx) idExistsHelper(fn *ssa.Function, tb *ir.TB) string {
	if len(fn.Params) < 1 || fn.Signature.Results().Len() != 1 {
		return "unexpected signature"
	}
	id := fn.Params[0]
	for _, r := range ir.Returns(fn) {
		vias := []*ssa.BasicBlock{nil}
		if phi, ok := ir.Resolve(r.Results[0]).(*ssa.Phi); ok && phi.Block() == r.Block() {
			vias = r.Block().Preds
		}
		for _, via := range vias {
			v := ir.ResultVia(r, 0, via)
			if b, ok := ir.ConstBool(v); ok && !b {
				continue
			}
			facts := factsAt(r.Block(), via)
			if !ir.HasFact(facts, token.EQL, func(x, y ssa.Value) bool {
				return (y == ssa.Value(id) && tb.Of(x, nil).Op == "field:ID") || (x == ssa.Value(id) && tb.Of(y, nil).Op == "field:ID")
			}) {
				return "returns a non-false value without having matched an element's ID"
			}
		}
	}
	return ""
}

func (c *Ctx) ruleDispatch(tb *ir.TB) {
	type pair struct{ factory, pkg string }
	validate := c.Func(PkgConf, "Validate")
	var vfuncs []*ssa.Function
	if validate != nil {
		vfuncs = c.SortedFuncs(c.Closure([]*ssa.Function{validate}, false, func(f *ssa.Function) bool { return load_FuncPkgPath(f) != PkgConf }))
	}
	for _, p := range []pair{{"NewFan", PkgFans}, {"NewSensor", PkgSensors}, {"NewSpeedCurve", PkgCurves}} {
		fac := c.Func(p.pkg, p.factory)
		if fac == nil {
			continue
		}
		fields := func(fn *ssa.Function, needCount bool) map[string]bool {
			out := map[string]bool{}
			for _, b := range fn.Blocks {
				for si := range b.Succs {
					for _, f := range ir.EdgeFacts(b, si) {
						if f.Op != token.NEQ || !ir.IsNilConst(f.Y) {
							continue
						}
						t := tb.Of(f.X, nil)
						if !strings.HasPrefix(t.Op, "field:") || len(t.Args) != 1 || strings.HasPrefix(t.Args[0].Op, "field:") {
							continue // only first-level fields of the element config
						}
						if needCount {
							// the != nil edge leads to a counter increment
							incr := false
							for _, ins := range b.Succs[si].Instrs {
								if bo, ok := ins.(*ssa.BinOp); ok && bo.Op == token.ADD {
									if k, isConst := ir.ConstInt(bo.Y); isConst && k == 1 {
										incr = true
									}
								}
							}
							if !incr {
								continue
							}
						}
						out[strings.TrimPrefix(t.Op, "field:")] = true
					}
				}
			}
			if needCount {
				// the same count written as a call: n := countSet(x.A != nil, x.B != nil, ...)
				Calls(fn, func(cc ssa.CallInstruction) {
					call, ok := cc.(*ssa.Call)
					if !ok || !isBoolCounter(ir.Callee(call).Static) || len(call.Call.Args) != 1 {
						return
					}
					lt := tb.Of(call.Call.Args[0], nil)
					if lt.Op != "list" {
						// a literal table of rows: the boolean stored into each row
						if sl, ok := ir.Resolve(call.Call.Args[0]).(*ssa.Slice); ok {
							if al, ok := sl.X.(*ssa.Alloc); ok && al.Referrers() != nil {
								var rows []*ir.Term
								for _, r := range *al.Referrers() {
									ia, ok := r.(*ssa.IndexAddr)
									if !ok || ia.Referrers() == nil {
										continue
									}
									for _, r2 := range *ia.Referrers() {
										var st *ssa.Store
										switch x := r2.(type) {
										case *ssa.Store:
											st = x
										case *ssa.FieldAddr:
											if x.Referrers() != nil {
												for _, r3 := range *x.Referrers() {
													if s3, ok := r3.(*ssa.Store); ok {
														if b, ok := s3.Val.Type().Underlying().(*types.Basic); ok && b.Kind() == types.Bool {
															st = s3
														}
													}
												}
											}
										}
										if st != nil {
											rows = append(rows, tb.Of(st.Val, nil))
										}
									}
								}
								lt = &ir.Term{Op: "list", Args: rows}
							}
						}
					}
					if lt.Op != "list" {
						return
					}
					for _, e := range lt.Args {
						if e.Op != "bin:!=" || len(e.Args) != 2 || e.Args[1].Op != "nil" {
							continue
						}
						t := e.Args[0]
						if !strings.HasPrefix(t.Op, "field:") || len(t.Args) != 1 || strings.HasPrefix(t.Args[0].Op, "field:") {
							continue
						}
						out[strings.TrimPrefix(t.Op, "field:")] = true
					}
				})
			}
			return out
		}
		ff := fields(fac, false)
		// the validator function for this kind: the one in Validate's call tree that counts
		// non-nil backend blocks of elements whose field set overlaps the factory's
		var val *ssa.Function
		best := -1
		for _, cand := range vfuncs {
			cf := fields(cand, true)
			if len(cf) == 0 {
				continue
			}
			common := 0
			for k := range cf {
				if ff[k] {
					common++
				}
			}
			// disambiguate fans and sensors (both have HwMon/File/Cmd) by the element type ranged over
			if common > 0 && c.rangesOverKind(cand, p.factory) && common > best {
				best, val = common, cand
			}
		}
		if val == nil {
			c.R.Bad("R-dispatch", p.factory, c.FK(fac), c.P.Pos(fac.Pos()), "no function in configuration.Validate's call tree counts the backend blocks that "+p.factory+" dispatches on")
			continue
		}
		vf := fields(val, true)
		var fl, vl []string
		for k := range ff {
			fl = append(fl, k)
		}
		for k := range vf {
			vl = append(vl, k)
		}
		sort.Strings(fl)
		sort.Strings(vl)
		key := p.factory + "~validator"
		if strings.Join(fl, ",") == strings.Join(vl, ",") && len(fl) > 0 {
			c.R.Ok("R-dispatch", key, c.FK(fac), c.P.Pos(fac.Pos()), "factory and validator agree on the backends {"+strings.Join(fl, ",")+"}")
		} else {
			c.R.Bad("R-dispatch", key, c.FK(fac), c.P.Pos(fac.Pos()), "the factory dispatches on {"+strings.Join(fl, ",")+"} but the validator counts {"+strings.Join(vl, ",")+"}: an entry can validate and then fail (or crash) at instantiation")
		}
		// count > 1 and count <= 0 are rejected
		gt1, le0 := false, false
		ei := errResultIndex(val)
		for _, b := range val.Blocks {
			for si := range b.Succs {
				fs := ir.EdgeFacts(b, si)
				isCounter := func(v ssa.Value) bool {
					if call, ok := v.(*ssa.Call); ok {
						return isBoolCounter(ir.Callee(call).Static)
					}
					_, ok := v.(*ssa.Phi)
					return ok && isIntType(v.Type())
				}
				rej := func() bool {
					for _, rv := range returnsFrom([]ir.Point{ir.EdgeStart(b, si)}, ir.Search{StopEdge: func(bb *ssa.BasicBlock, s2 int) bool { return bb.Succs[s2].Dominates(bb) }}) {
						facts := factsAt(rv.ret.Block(), rv.via)
						if mayBeNilError(rv.ret.Results[ei], facts) && mayBeNilError(ir.ResultVia(rv.ret, ei, rv.via), facts) {
							return false
						}
					}
					return true
				}
				if ir.HasFact(fs, token.GTR, func(x, y ssa.Value) bool { k, ok := ir.ConstInt(y); return ok && k == 1 && isCounter(x) }) && rej() {
					gt1 = true
				}
				if (ir.HasFact(fs, token.LEQ, func(x, y ssa.Value) bool { k, ok := ir.ConstInt(y); return ok && k == 0 && isCounter(x) }) ||
					ir.HasFact(fs, token.LSS, func(x, y ssa.Value) bool { k, ok := ir.ConstInt(y); return ok && k == 1 && isCounter(x) }) ||
					ir.HasFact(fs, token.EQL, func(x, y ssa.Value) bool { k, ok := ir.ConstInt(y); return ok && k == 0 && isCounter(x) })) && rej() {
					le0 = true
				}
			}
		}
		if gt1 && le0 {
			c.R.Ok("R-dispatch", key+"|exactly-one", c.FK(val), c.P.Pos(val.Pos()), "the validator rejects more than one and fewer than one backend per entry")
		} else {
			c.R.Bad("R-dispatch", key+"|exactly-one", c.FK(val), c.P.Pos(val.Pos()), sprintf("the validator does not reject both 'several backends' (%v) and 'no backend' (%v): the factory's fall-through error / first-match choice is reachable with a validated configuration", gt1, le0))
		}
	}
	c.R.Require("R-dispatch", 6)
}

// isBoolCounter: f(flags ...bool) int returns the number of true flags: its only int update is a +1
// taken on an edge where an element of the parameter is true, the count starts at 0 and is what is returned.
func isBoolCounter(f *ssa.Function) bool {
	if f == nil || len(f.Blocks) == 0 || len(f.Params) != 1 || f.Signature.Results().Len() != 1 || !isIntType(f.Signature.Results().At(0).Type()) {
		return false
	}
	sl, ok := f.Params[0].Type().Underlying().(*types.Slice)
	if !ok {
		return false
	}
	switch e := sl.Elem().Underlying().(type) {
	case *types.Basic:
		if e.Kind() != types.Bool {
			return false
		}
	case *types.Struct:
		// a table of (label, present) rows: exactly one boolean field
		nb := 0
		for i := 0; i < e.NumFields(); i++ {
			if b, ok := e.Field(i).Type().Underlying().(*types.Basic); ok && b.Kind() == types.Bool {
				nb++
			}
		}
		if nb != 1 {
			return false
		}
	default:
		return false
	}
	fromParam := func(v ssa.Value) bool {
		v = ir.Resolve(v)
		switch x := v.(type) {
		case *ssa.Field:
			// the boolean field of a row copied out of the table
			if u, ok := ir.Resolve(x.X).(*ssa.UnOp); ok {
				if ia, ok := u.X.(*ssa.IndexAddr); ok {
					return ir.Root(ia.X) == ssa.Value(f.Params[0])
				}
			}
		case *ssa.UnOp:
			if fa, ok := x.X.(*ssa.FieldAddr); ok {
				if ia, ok := fa.X.(*ssa.IndexAddr); ok {
					return ir.Root(ia.X) == ssa.Value(f.Params[0])
				}
				// the row was copied into a local first (range value variable)
				if al, ok := fa.X.(*ssa.Alloc); ok {
					stores := ir.StoresTo(al)
					if len(stores) == 1 {
						if u, ok := ir.Resolve(stores[0].Val).(*ssa.UnOp); ok {
							if ia, ok := u.X.(*ssa.IndexAddr); ok {
								return ir.Root(ia.X) == ssa.Value(f.Params[0])
							}
						}
					}
				}
			}
			if ia, ok := x.X.(*ssa.IndexAddr); ok {
				return ir.Root(ia.X) == ssa.Value(f.Params[0])
			}
		case *ssa.Extract:
			if nx, ok := x.Tuple.(*ssa.Next); ok {
				if rg, ok := nx.Iter.(*ssa.Range); ok {
					return ir.Root(rg.X) == ssa.Value(f.Params[0])
				}
			}
		}
		return false
	}
	adds := 0
	var addPhi ssa.Value
	for _, b := range f.Blocks {
		for _, ins := range b.Instrs {
			switch x := ins.(type) {
			case *ssa.BinOp:
				if !isIntType(x.Type()) || x.Op == token.LSS || x.Op == token.GTR || x.Op == token.LEQ || x.Op == token.GEQ || x.Op == token.EQL || x.Op == token.NEQ {
					continue
				}
				k, isConst := ir.ConstInt(x.Y)
				phi, isPhi := ir.Resolve(x.X).(*ssa.Phi)
				if x.Op != token.ADD || !isConst || k != 1 || !isPhi {
					return false
				}
				if phi.Comment == "rangeindex" || phi.Comment == "rangeint.iter" {
					continue // the loop index
				}
				// guarded by "element is true"
				guarded := false
				for _, fct := range ir.BlockFacts(b) {
					if fct.Bool != nil && fct.Truth && fromParam(fct.Bool) {
						guarded = true
					}
				}
				if !guarded {
					isIndex := false
					for _, ref := range *phi.Referrers() {
						if ia, ok := ref.(*ssa.IndexAddr); ok && ia.Index == ssa.Value(phi) {
							isIndex = true
						}
					}
					if isIndex {
						continue // the index of a three-clause loop
					}
					return false
				}
				adds++
				addPhi = phi
			case *ssa.Call, *ssa.Store, *ssa.MapUpdate, *ssa.Go, *ssa.Defer:
				if c, ok := x.(*ssa.Call); ok && ir.Callee(c).Builtin == "len" {
					continue
				}
				if st, ok := x.(*ssa.Store); ok {
					if al, ok := st.Addr.(*ssa.Alloc); ok && !al.Heap {
						continue // copy of a row into a local
					}
				}
				return false
			}
		}
	}
	if adds != 1 {
		return false
	}
	for _, r := range ir.Returns(f) {
		if ir.Resolve(r.Results[0]) != addPhi {
			return false
		}
	}
	// the count starts at zero
	for _, e := range addPhi.(*ssa.Phi).Edges {
		if k, ok := ir.ConstInt(e); ok && k != 0 {
			return false
		}
	}
	return true
}

// ruleRegistry (C11 R-registry): the validator treats ids as plain strings (equality, uniqueness, reference
// resolution). The run-time registries must use the very same identity: an object is registered under
// GetId() as it is, and looked up under the id as it is given - no folding, trimming or prefixing that
// would make two ids the validator considers different collide (or one id unresolvable).
func (c *Ctx) ruleRegistry() {
	n := 0
	for _, pkg := range []string{PkgCurves, PkgSensors, PkgFans} {
		for _, fn := range c.P.Funcs {
			if load_FuncPkgPath(fn) != pkg || fn.Parent() != nil || len(fn.Blocks) == 0 || fn.Signature.Recv() != nil {
				continue
			}
			tb := ir.NewTB(c.P.IsRepoFunc, c.P.FuncKey)
			Calls(fn, func(cc ssa.CallInstruction) {
				name := ir.CallName(cc)
				isSet := strings.HasSuffix(name, ".Set") && strings.Contains(name, "concurrent-map")
				isGet := (strings.HasSuffix(name, ".Get") || strings.HasSuffix(name, ".Has") || strings.HasSuffix(name, ".Remove")) && strings.Contains(name, "concurrent-map")
				if !isSet && !isGet {
					return
				}
				args := cc.Common().Args
				if len(args) < 2 {
					return
				}
				n++
				kt := tb.Of(args[1], nil)
				key := c.FK(fn) + "|" + name[strings.LastIndex(name, ".")+1:]
				okKey := false
				switch {
				case strings.HasPrefix(kt.Op, "param:"):
					okKey = true
				case strings.HasPrefix(kt.Op, "invoke:") && strings.HasSuffix(kt.Op, ".GetId") && len(kt.Args) == 1 && strings.HasPrefix(kt.Args[0].Op, "param:"):
					okKey = true
				}
				if okKey {
					c.R.Ok("R-registry", key, c.FK(fn), c.P.Pos(cc.Pos()), "registry key is the id as given ("+kt.String()+")")
				} else {
					c.R.Bad("R-registry", key, c.FK(fn), c.P.Pos(cc.Pos()), "the registry key is a transformation of the id ("+kt.String()+"): ids the validator treats as different (unique, resolvable, acyclic) can collide or fail to resolve at run time")
				}
			})
		}
	}
	c.R.Require("R-registry", 6)

	c.ruleEveryEntryRegistered("R-registry")
}

func (c *Ctx) ruleCycle(vtree map[*ssa.Function]bool, tb *ir.TB, rejects func(*ssa.Function, edge) bool) {
	var tarjanCall *ssa.Call
	var tfn *ssa.Function
	for _, fn := range c.SortedFuncs(vtree) {
		Calls(fn, func(cc ssa.CallInstruction) {
			if call, ok := cc.(*ssa.Call); ok && ir.CallName(call) == "github.com/looplab/tarjan.Connections" {
				tarjanCall, tfn = call, fn
			}
		})
	}
	if tarjanCall == nil {
		c.R.Undecided("R-cycle", "detector", "configuration.Validate", "-", "the validator's call tree no longer uses tarjan.Connections: the cycle detection was replaced by an algorithm this check has no summary for, so acyclicity of accepted curve graphs (and hence termination of nested Evaluate) cannot be decided")
		return
	}
	// the functions the graph flows through on its way to the detector: tfn, and callers that hand their
	// own map parameter on to such a function
	cycleFns := map[*ssa.Function]bool{tfn: true}
	for changed := true; changed; {
		changed = false
		for _, fn := range c.SortedFuncs(vtree) {
			if cycleFns[fn] {
				continue
			}
			Calls(fn, func(cc ssa.CallInstruction) {
				if st := ir.Callee(cc).Static; st != nil && cycleFns[st] {
					for _, a := range cc.Common().Args {
						if p, ok := ir.Resolve(a).(*ssa.Parameter); ok && p.Parent() == fn {
							if _, isMap := p.Type().Underlying().(*types.Map); isMap && !cycleFns[fn] {
								cycleFns[fn] = true
								changed = true
							}
						}
					}
				}
			})
		}
	}
	// components with more than one member are rejected: in the detector itself, or - when the detector
	// returns the offending component instead of an error - by every caller on `result != nil`
	isSccLen := func(x ssa.Value) bool {
		call, isLen := x.(*ssa.Call)
		return isLen && ir.Callee(call).Builtin == "len" && termHasCall(tb.Of(call.Call.Args[0], nil), "tarjan.Connections")
	}
	var rejectsOrWitness func(fn *ssa.Function, e edge, depth int) bool
	rejectsOrWitness = func(fn *ssa.Function, e edge, depth int) bool {
		if errResultIndex(fn) >= 0 {
			return rejects(fn, e)
		}
		if fn.Signature.Results().Len() != 1 || depth > 2 {
			return false
		}
		// every return reachable from the edge hands back the component (non-nil: its length exceeds 1)
		for _, rv := range returnsFrom([]ir.Point{ir.EdgeStart(e.b, e.si)}, ir.Search{StopEdge: func(b *ssa.BasicBlock, si int) bool { return b.Succs[si].Dominates(b) }}) {
			if !termHasCall(tb.Of(ir.ResultVia(rv.ret, 0, rv.via), nil), "tarjan.Connections") {
				return false
			}
		}
		// and every caller in the validator turns a non-nil result into an error
		n := 0
		for _, site := range c.StaticCallers(fn) {
			call, ok := site.(*ssa.Call)
			if !ok || !vtree[site.Parent()] {
				continue
			}
			n++
			caller := site.Parent()
			okSite := false
			for _, b := range caller.Blocks {
				for si := range b.Succs {
					if ir.HasFact(ir.EdgeFacts(b, si), token.NEQ, func(x, y ssa.Value) bool { return ir.Resolve(x) == ssa.Value(call) && ir.IsNilConst(y) }) && rejectsOrWitness(caller, edge{b, si}, depth+1) {
						okSite = true
					}
				}
			}
			if !okSite {
				return false
			}
		}
		return n > 0
	}
	okRej := false
	for _, b := range tfn.Blocks {
		for si := range b.Succs {
			fs := ir.EdgeFacts(b, si)
			if (ir.HasFact(fs, token.GTR, func(x, y ssa.Value) bool { k, ok := ir.ConstInt(y); return ok && k == 1 && isSccLen(x) }) ||
				ir.HasFact(fs, token.GEQ, func(x, y ssa.Value) bool { k, ok := ir.ConstInt(y); return ok && k == 2 && isSccLen(x) }) ||
				ir.HasFact(fs, token.NEQ, func(x, y ssa.Value) bool { k, ok := ir.ConstInt(y); return ok && k == 1 && isSccLen(x) })) && rejectsOrWitness(tfn, edge{b, si}, 0) {
				okRej = true
			}
		}
	}
	if okRej {
		c.R.Ok("R-cycle", "scc-rejected", c.FK(tfn), c.P.Pos(tarjanCall.Pos()), "every strongly connected component with more than one curve yields an error")
	} else {
		c.R.Bad("R-cycle", "scc-rejected", c.FK(tfn), c.P.Pos(tarjanCall.Pos()), "components of size > 1 returned by tarjan.Connections are not turned into an error on all paths")
	}
	// the graph argument: built in a caller, MapUpdate(key=ID, value=list of all members)
	var graphFn *ssa.Function
	var update *ssa.MapUpdate
	for _, fn := range c.SortedFuncs(vtree) {
		Instrs(fn, func(ins ssa.Instruction) {
			mu, ok := ins.(*ssa.MapUpdate)
			if !ok {
				return
			}
			// is this map passed (directly or via a call argument) to the tarjan function?
			passes := false
			if refs := mu.Map.Referrers(); refs != nil {
				for _, r := range *refs {
					if call, ok := r.(*ssa.Call); ok {
						if call == tarjanCall || cycleFns[ir.Callee(call).Static] {
							passes = true
						}
					}
				}
			}
			if passes {
				graphFn, update = fn, mu
			}
		})
	}
	if update == nil {
		c.R.Bad("R-cycle", "graph", c.FK(tfn), c.P.Pos(tarjanCall.Pos()), "no edge list is ever stored into the graph handed to the cycle detector")
		return
	}
	kt, vt := tb.Of(update.Key, nil), tb.Of(update.Value, nil)
	keyOK := kt.Has(func(x *ir.Term) bool { return x.Op == "field:ID" })
	// the value: a slice appended once per element of Function.Curves
	valOK := isMemberTerm(vt) && vt.Has(func(x *ir.Term) bool { return x.Op == "builtin:append" })
	// the edge list may be built by a helper of the validator and handed back as its result
	edgeFn := graphFn
	if !valOK {
		for _, fn := range c.SortedFuncs(vtree) {
			if fn == graphFn || fn.Signature.Results().Len() == 0 {
				continue
			}
			returnsEdges := false
			for _, rt := range ir.Returns(fn) {
				t := tb.Of(rt.Results[0], nil)
				if isMemberTerm(t) && t.Has(func(x *ir.Term) bool { return x.Op == "builtin:append" }) {
					returnsEdges = true
				}
			}
			if !returnsEdges {
				continue
			}
			// ... and the update stores that helper's result
			stored := false
			switch x := ir.Resolve(update.Value).(type) {
			case *ssa.Call:
				stored = ir.Callee(x).Static == fn
			case *ssa.Extract:
				if tc, ok := x.Tuple.(*ssa.Call); ok && x.Index == 0 {
					stored = ir.Callee(tc).Static == fn
				}
			}
			if stored {
				valOK, edgeFn = true, fn
			}
		}
	}
	if keyOK && valOK {
		c.R.Ok("R-cycle", "graph", c.FK(graphFn), c.P.Pos(update.Pos()), "graph[curve id] = list appended with every element of function.curves")
	} else {
		c.R.Bad("R-cycle", "graph", c.FK(graphFn), c.P.Pos(update.Pos()), sprintf("the graph entry is not (curve id -> all members): key from ID=%v, value from every member=%v", keyOK, valOK))
	}
	// only its own members: the edge list stored for a curve starts empty for that curve. A list that is carried
	// round the loop over the curves (declared outside it) also holds the members of the curves listed before:
	// extra edges can close a cycle the configuration does not contain, and a valid configuration is rejected.
	if edgeFn == graphFn {
		outer := loopHead(update.Block())
		carried := ""
		seen := map[ssa.Value]bool{}
		var walk func(v ssa.Value, depth int)
		walk = func(v ssa.Value, depth int) {
			v = ir.Resolve(v)
			if seen[v] || depth > 12 {
				return
			}
			seen[v] = true
			switch x := v.(type) {
			case *ssa.Phi:
				if outer != nil && x.Block() == outer {
					carried = c.P.Pos(x.Pos())
					if carried == "-" || carried == "" {
						carried = "the head of the loop over the curves"
					}
					return
				}
				for _, e := range x.Edges {
					walk(e, depth+1)
				}
			case *ssa.Call:
				if ir.Callee(x).Builtin == "append" && len(x.Call.Args) > 0 {
					walk(x.Call.Args[0], depth+1)
				}
			case *ssa.Slice:
				walk(x.X, depth+1)
			}
		}
		walk(update.Value, 0)
		if carried != "" {
			c.R.Bad("R-cycle", "own-members", c.FK(graphFn), c.P.Pos(update.Pos()), "the edge list stored for a curve is carried over from the previous iteration of the loop over the curves ("+carried+"): it also contains the members of curves listed earlier, so the graph has edges the configuration does not contain and an acyclic configuration can be rejected as cyclic")
		} else {
			c.R.Ok("R-cycle", "own-members", c.FK(graphFn), c.P.Pos(update.Pos()), "the edge list stored for a curve starts empty for that curve (not carried round the loop over the curves)")
		}
	}
	// no member is skipped: from the loop body over Function.Curves every path back to the loop head passes the append or returns an error
	skip := c.memberSkipped(edgeFn, update, tb)
	if skip != "" {
		c.R.Bad("R-cycle", "every-member", c.FK(graphFn), c.P.Pos(update.Pos()), skip)
	} else {
		c.R.Ok("R-cycle", "every-member", c.FK(graphFn), c.P.Pos(update.Pos()), "every member of a function curve either becomes an edge of the graph or makes validation fail")
	}
	// self reference
	selfOK := false
	for _, b := range edgeFn.Blocks {
		for si := range b.Succs {
			if ir.HasFact(ir.EdgeFacts(b, si), token.EQL, func(x, y ssa.Value) bool {
				tx, ty := tb.Of(x, nil), tb.Of(y, nil)
				return (tx.Op == "field:ID" && isMemberTerm(ty)) || (ty.Op == "field:ID" && isMemberTerm(tx))
			}) && rejects(edgeFn, edge{b, si}) {
				selfOK = true
			}
		}
	}
	if selfOK {
		c.R.Ok("R-cycle", "self-reference", c.FK(graphFn), c.P.Pos(graphFn.Pos()), "a member equal to the curve's own id yields an error (components of size 1 are not reported by the size test)")
	} else {
		c.R.Bad("R-cycle", "self-reference", c.FK(graphFn), c.P.Pos(graphFn.Pos()), "a function curve that references itself is not rejected (a self loop is a component of size 1)")
	}
	// the verdict is returned by the function that builds the graph
	ei := errResultIndex(graphFn)
	retOK := false
	for _, r := range ir.Returns(graphFn) {
		rt := tb.Of(r.Results[ei], nil)
		if termHasCall(rt, "tarjan.Connections") {
			retOK = true
		}
		for cf := range cycleFns {
			if termHasCall(rt, c.FK(cf)[strings.LastIndex(c.FK(cf), ".")+1:]) {
				retOK = true
			}
		}
	}
	if retOK || graphFn == tfn {
		c.R.Ok("R-cycle", "verdict-returned", c.FK(graphFn), c.P.Pos(graphFn.Pos()), "the cycle detector's verdict is the function's result on the success path")
	} else {
		c.R.Bad("R-cycle", "verdict-returned", c.FK(graphFn), c.P.Pos(graphFn.Pos()), "the result of the cycle detection is not returned")
	}
	c.R.Require("R-cycle", 5)
}

// memberSkipped: in the loop that ranges over Function.Curves, can an iteration complete without appending the member?
func (c *Ctx) memberSkipped(fn *ssa.Function, update *ssa.MapUpdate, tb *ir.TB) string {
	// the append whose result flows to the update value
	var app *ssa.Call
	Calls(fn, func(cc ssa.CallInstruction) {
		call, ok := cc.(*ssa.Call)
		if ok && ir.Callee(call).Builtin == "append" && isMemberTerm(tb.Of(call, nil)) {
			if len(call.Call.Args) == 2 && ir.VarArgs(call.Call.Args[1]) != nil {
				app = call
			}
		}
	})
	if app == nil {
		return "no append of the member into the edge list found"
	}
	head := loopHead(app.Block())
	if head == nil {
		return "the member append is not inside a loop over function.curves"
	}
	// body entry: the successor of head that is inside the loop
	var starts []ir.Point
	for si, s := range head.Succs {
		if s != head && head.Dominates(s) && reachesWithinLoop(s, head) {
			starts = append(starts, ir.EdgeStart(head, si))
		}
	}
	bad := ""
	ir.Search{StopInstr: func(ins ssa.Instruction) bool { return ins == ssa.Instruction(app) }}.Reach(starts, func(ins ssa.Instruction, _ *ssa.BasicBlock) {
		if ins.Block() == head && ins == head.Instrs[0] {
			bad = "an iteration over function.curves can reach the next iteration without adding the member to the dependency graph (a cycle through that member is invisible to the detector)"
		}
	})
	return bad
}

func reachesBlock(from, to *ssa.BasicBlock) bool {
	seen := map[*ssa.BasicBlock]bool{}
	var walk func(b *ssa.BasicBlock) bool
	walk = func(b *ssa.BasicBlock) bool {
		if b == to {
			return true
		}
		if seen[b] {
			return false
		}
		seen[b] = true
		for _, s := range b.Succs {
			if walk(s) {
				return true
			}
		}
		return false
	}
	return walk(from)
}

// isMemberTerm: the term derives from the member list of a function curve (Function.Curves).
func isMemberTerm(t *ir.Term) bool {
	return strings.Contains(t.String(), "field:Curves(field:Function")
}

// reachesWithinLoop: from can reach head through blocks dominated by head (i.e. it lies in head's natural loop).
func reachesWithinLoop(from, head *ssa.BasicBlock) bool {
	seen := map[*ssa.BasicBlock]bool{}
	var walk func(b *ssa.BasicBlock) bool
	walk = func(b *ssa.BasicBlock) bool {
		if b == head {
			return true
		}
		if seen[b] || !head.Dominates(b) {
			return false
		}
		seen[b] = true
		for _, s := range b.Succs {
			if walk(s) {
				return true
			}
		}
		return false
	}
	return walk(from)
}

// inAnchorTree: fn is the anchor function named by suffix, or a repository function in its call tree
// (a block of the anchor extracted into a helper keeps its table entry).
func (c *Ctx) inAnchorTree(fn *ssa.Function, suffix string) bool {
	if strings.HasSuffix(c.FK(fn), suffix) {
		return true
	}
	if c.anchorTrees == nil {
		c.anchorTrees = map[string]map[*ssa.Function]bool{}
	}
	tree, ok := c.anchorTrees[suffix]
	if !ok {
		var roots []*ssa.Function
		for _, f := range c.P.Funcs {
			if strings.HasSuffix(c.FK(f), suffix) {
				roots = append(roots, f)
			}
		}
		tree = c.Closure(roots, true, func(f *ssa.Function) bool {
			// stay inside the anchor's package: library-like helpers of other packages have their own entries
			return len(roots) > 0 && load_FuncPkgPath(f) != load_FuncPkgPath(roots[0])
		})
		c.anchorTrees[suffix] = tree
	}
	return tree[fn]
}

// rangesOverKind: does the validator function examine the configuration list that the factory instantiates
// (Fans for NewFan, Sensors for NewSensor, Curves for NewSpeedCurve)?
func (c *Ctx) rangesOverKind(fn *ssa.Function, factory string) bool {
	want := map[string]string{"NewFan": "FanConfig", "NewSensor": "SensorConfig", "NewSpeedCurve": "CurveConfig"}[factory]
	found := false
	Instrs(fn, func(ins ssa.Instruction) {
		if fa, ok := ins.(*ssa.FieldAddr); ok {
			if o, _, ok := ir.FieldName(fa); ok && o != nil && o.Obj().Name() == want {
				// one of the backend pointer fields of that element type is inspected
				found = true
			}
		}
	})
	return found
}

// ruleEveryEntryRegistered (C11 R-registry|every-entry, C09 R-registered)
func (c *Ctx) ruleEveryEntryRegistered(rule string) {
	// every configured object is registered: in the instantiation code a loop that registers objects
	// (RegisterSensor / RegisterSpeedCurve / RegisterFan ...: a function of the registry packages that reaches a
	// concurrent-map Set) registers one in every iteration, or leaves the function. The validator only
	// guarantees that referenced ids are *defined*; the curves and controllers look them up in the registries
	// without an existence test, so an entry skipped here (a `continue` on a failed first read) is a nil
	// dereference in the first cycle of a configuration that validated.
	registers := func(f *ssa.Function) bool {
		if f == nil {
			return false
		}
		p := load_FuncPkgPath(f)
		if p != PkgCurves && p != PkgSensors && p != PkgFans {
			return false
		}
		return c.reaches(f, func(cc ssa.CallInstruction) bool {
			name := ir.CallName(cc)
			return strings.HasSuffix(name, ".Set") && strings.Contains(name, "concurrent-map")
		})
	}
	nreg := 0
	for _, fn := range c.P.Funcs {
		if load_FuncPkgPath(fn) != PkgInternal || len(fn.Blocks) == 0 {
			continue
		}
		isReg := func(ins ssa.Instruction) bool {
			cc, ok := ins.(ssa.CallInstruction)
			if !ok {
				return false
			}
			if _, isGo := ins.(*ssa.Go); isGo {
				return false
			}
			return registers(ir.Callee(cc).Static)
		}
		done := map[*ssa.BasicBlock]bool{}
		Instrs(fn, func(ins ssa.Instruction) {
			if !isReg(ins) {
				return
			}
			h := loopHead(ins.Block())
			if h == nil || done[h] {
				return
			}
			done[h] = true
			nreg++
			key := c.FK(fn) + "|" + ir.CallName(ins.(ssa.CallInstruction))
			skipped := ""
			for _, pred := range h.Preds {
				if !h.Dominates(pred) {
					continue
				}
				pred := pred
				ir.Search{StopInstr: isReg}.Reach([]ir.Point{{Block: h, Idx: 0}}, func(x ssa.Instruction, _ *ssa.BasicBlock) {
					if x.Block() == pred && x == pred.Instrs[len(pred.Instrs)-1] && skipped == "" {
						skipped = c.P.Pos(ins.Pos())
					}
				})
			}
			if skipped != "" {
				c.R.Bad(rule, key+"|every-entry", c.FK(fn), skipped, "an iteration over the configured entries can go on to the next entry without registering the object: a configured (and validated) id is then missing from the registry, and the code that looks it up dereferences the result without an existence test")
			} else {
				c.R.Ok(rule, key+"|every-entry", c.FK(fn), c.P.Pos(ins.Pos()), "every iteration over the configured entries registers its object or leaves the function")
			}
		})
	}
	if nreg == 0 {
		c.R.Undecided(rule, "every-entry", PkgInternal, "-", "no registering loop found in the instantiation code (anchor unresolved)")
	}
}
