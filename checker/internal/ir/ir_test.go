package ir_test

import (
	"go/token"
	"testing"

	"f2gcheck/internal/ir"
	"f2gcheck/internal/testutil"

	"golang.org/x/tools/go/ssa"
)

const src = `package fx

import "sync"

var mu sync.Mutex
var events []string

func ev(s string) { events = append(events, s) }

// guarded: sink only reachable across err == nil
func guarded(check func() error) int {
	if err := check(); err != nil {
		return -1
	}
	sink()
	return 0
}

// unguarded: sink reachable on the error path too
func unguarded(check func() error) int {
	err := check()
	if err != nil {
		ev("warn")
	}
	sink()
	return 0
}

func sink() {}

// flag: positive = the flag is set only after bind(); negative variant sets it before
func flagGood(xs []int) int {
	found := false
	for _, x := range xs {
		if x > 0 {
			bind()
			found = true
		}
	}
	if !found {
		return -1
	}
	use()
	return 0
}

func flagBad(xs []int) int {
	found := false
	for _, x := range xs {
		if x > 0 {
			found = true
			if x > 10 {
				continue
			}
			bind()
		}
	}
	if !found {
		return -1
	}
	use()
	return 0
}

func bind() {}
func use()  {}

// typestate: lock must be held at touch()
func lockedAll() {
	mu.Lock()
	defer mu.Unlock()
	helper()
}
func helper() { touch() }
func lockedSome(b bool) {
	if b {
		mu.Lock()
		defer mu.Unlock()
	}
	touch()
}
func touch() {}

func conj(a, b *int) int {
	ok := a != nil && *a == 7
	if ok && b != nil {
		return 1
	}
	return 0
}
`

func fn(p *ssa.Package, name string) *ssa.Function { return p.Func(name) }

func callTo(f *ssa.Function, name string) ssa.Instruction {
	for _, b := range f.Blocks {
		for _, ins := range b.Instrs {
			if c, ok := ins.(*ssa.Call); ok && ir.Callee(c).Static != nil && ir.Callee(c).Static.Name() == name {
				return ins
			}
		}
	}
	return nil
}

func reachesAvoidingOK(f *ssa.Function, target ssa.Instruction) bool {
	// blocked edges: those establishing  <error value> == nil
	reached := false
	ir.Search{StopEdge: func(b *ssa.BasicBlock, si int) bool {
		return ir.HasFact(ir.EdgeFacts(b, si), token.EQL, func(x, y ssa.Value) bool { return ir.IsNilConst(y) })
	}}.Reach([]ir.Point{{Block: f.Blocks[0]}}, func(ins ssa.Instruction, _ *ssa.BasicBlock) {
		if ins == target {
			reached = true
		}
	})
	return reached
}

func TestGuardedPath(t *testing.T) {
	p := testutil.Load(t, src)
	g, u := fn(p, "guarded"), fn(p, "unguarded")
	if reachesAvoidingOK(g, callTo(g, "sink")) {
		t.Errorf("guarded: sink must not be reachable without crossing err == nil")
	}
	if !reachesAvoidingOK(u, callTo(u, "sink")) {
		t.Errorf("unguarded: sink must be reachable without crossing err == nil (negative fixture)")
	}
}

func TestTrackBools(t *testing.T) {
	p := testutil.Load(t, src)
	for name, want := range map[string]bool{"flagGood": false, "flagBad": true} {
		f := fn(p, name)
		bindCall, useCall := callTo(f, "bind"), callTo(f, "use")
		reached := false
		ir.Search{TrackBools: true, StopInstr: func(ins ssa.Instruction) bool { return ins == bindCall }}.Reach([]ir.Point{{Block: f.Blocks[0]}}, func(ins ssa.Instruction, _ *ssa.BasicBlock) {
			if ins == useCall {
				reached = true
			}
		})
		if reached != want {
			t.Errorf("%s: use() reachable without bind() = %v, want %v", name, reached, want)
		}
		// without flag tracking the good variant is (imprecisely) reachable: the option matters
		if name == "flagGood" {
			r2 := false
			ir.Search{StopInstr: func(ins ssa.Instruction) bool { return ins == bindCall }}.Reach([]ir.Point{{Block: f.Blocks[0]}}, func(ins ssa.Instruction, _ *ssa.BasicBlock) {
				if ins == useCall {
					r2 = true
				}
			})
			if !r2 {
				t.Errorf("flagGood: expected the flag-insensitive search to be imprecise (sanity of the fixture)")
			}
		}
	}
}

func TestTypestateLocks(t *testing.T) {
	p := testutil.Load(t, src)
	spec := ir.TSpec{
		N: 2,
		Instr: func(ins ssa.Instruction) []ir.Mask {
			c, ok := ins.(ssa.CallInstruction)
			if !ok {
				return nil
			}
			switch ir.CallName(c) {
			case "(*sync.Mutex).Lock":
				return ir.AllTo(2, 1)
			case "(*sync.Mutex).Unlock":
				return ir.AllTo(2, 0)
			}
			return nil
		},
		Callees: func(call ssa.CallInstruction) []*ssa.Function {
			if f := ir.Callee(call).Static; f != nil && f.Pkg == p && len(f.Blocks) > 0 {
				return []*ssa.Function{f}
			}
			return nil
		},
	}
	for name, wantUnlocked := range map[string]bool{"lockedAll": false, "lockedSome": true} {
		f := fn(p, name)
		ts := ir.NewTS(spec)
		unlocked := false
		seen := false
		exit := ts.Run(f, ir.Bit(0), func(g *ssa.Function, ins ssa.Instruction, m ir.Mask) {
			if c, ok := ins.(*ssa.Call); ok && ir.Callee(c).Static != nil && ir.Callee(c).Static.Name() == "touch" {
				seen = true
				if m.Has(0) {
					unlocked = true
				}
			}
		})
		if !seen {
			t.Errorf("%s: touch() not reached (helper summaries broken)", name)
		}
		if unlocked != wantUnlocked {
			t.Errorf("%s: touch() possibly unlocked = %v, want %v", name, unlocked, wantUnlocked)
		}
		if exit.Has(1) && name == "lockedAll" {
			t.Errorf("lockedAll: the deferred Unlock must have released the lock at return (exit mask %b)", exit)
		}
	}
}

func TestCondFactsConjunction(t *testing.T) {
	p := testutil.Load(t, src)
	f := fn(p, "conj")
	// the block returning 1 must know: a != nil, *a == 7, b != nil
	for _, b := range f.Blocks {
		r, ok := b.Instrs[len(b.Instrs)-1].(*ssa.Return)
		if !ok {
			continue
		}
		if k, isConst := ir.ConstInt(r.Results[0]); !isConst || k != 1 {
			continue
		}
		facts := ir.BlockFacts(b)
		neqNil, eq7 := 0, false
		for _, fc := range facts {
			if fc.Op == token.NEQ && ir.IsNilConst(fc.Y) {
				neqNil++
			}
			if fc.Op == token.EQL {
				if k, ok := ir.ConstInt(fc.Y); ok && k == 7 {
					eq7 = true
				}
			}
		}
		if neqNil < 2 || !eq7 {
			t.Errorf("conjunction through a boolean variable not decomposed: facts=%d (!=nil: %d, ==7: %v)", len(facts), neqNil, eq7)
		}
		return
	}
	t.Errorf("return 1 not found")
}

const poolSrc = `package fx

import (
	"bytes"
	"io"
	"sync"
)

var pool = sync.Pool{New: func() any { return new(bytes.Buffer) }}

// bad: the slice returned aliases the buffer that the deferred Put hands back
func readBad(r io.Reader) ([]byte, error) {
	buf := pool.Get().(*bytes.Buffer)
	defer pool.Put(buf)
	buf.Reset()
	_, err := buf.ReadFrom(r)
	return buf.Bytes(), err
}

// good: the content is copied out before the buffer goes back
func readGood(r io.Reader) (string, error) {
	buf := pool.Get().(*bytes.Buffer)
	defer pool.Put(buf)
	buf.Reset()
	_, err := buf.ReadFrom(r)
	return buf.String(), err
}

// good: the caller keeps the object (no Put here)
func take() *bytes.Buffer {
	return pool.Get().(*bytes.Buffer)
}
`

func TestPoolEscapes(t *testing.T) {
	p := testutil.Load(t, poolSrc)
	if n := len(ir.PoolEscapes(fn(p, "readBad"))); n == 0 {
		t.Errorf("readBad: the escape of buf.Bytes() past the deferred Put is not reported")
	}
	for _, name := range []string{"readGood", "take"} {
		if n := len(ir.PoolEscapes(fn(p, name))); n != 0 {
			t.Errorf("%s: %d escapes reported, want 0", name, n)
		}
	}
}
