// Package testutil builds SSA for small fixture sources (tests of the engines).
package testutil

import (
	"os"
	"path/filepath"
	"testing"

	"golang.org/x/tools/go/packages"
	"golang.org/x/tools/go/ssa"
	"golang.org/x/tools/go/ssa/ssautil"
)

// Load type-checks src as package "fx" of a temporary module and returns its SSA package.
func Load(t *testing.T, src string) *ssa.Package {
	t.Helper()
	dir := t.TempDir()
	if err := os.WriteFile(filepath.Join(dir, "go.mod"), []byte("module fx\n\ngo 1.23\n"), 0o644); err != nil {
		t.Fatal(err)
	}
	if err := os.WriteFile(filepath.Join(dir, "fx.go"), []byte(src), 0o644); err != nil {
		t.Fatal(err)
	}
	cfg := &packages.Config{Mode: packages.LoadAllSyntax, Dir: dir,
		Env: append(os.Environ(), "GOWORK=off", "GOFLAGS=-mod=mod", "GOPROXY=off", "GOSUMDB=off", "GOTOOLCHAIN=local")}
	pkgs, err := packages.Load(cfg, ".")
	if err != nil || len(pkgs) != 1 || len(pkgs[0].Errors) > 0 {
		t.Fatalf("fixture does not load: %v %v", err, pkgs[0].Errors)
	}
	prog, spkgs := ssautil.AllPackages(pkgs, ssa.InstantiateGenerics)
	prog.Build()
	return spkgs[0]
}
