#!/bin/bash
# usage: tools/run_benign.sh <dir-with-*.diff>...   Runs every check on every patch IN MEMORY (witness mode):
# behaviour-preserving patches must produce no unlisted violation.
cd /verif
PROPS=$(bin/f2gcheck -list)
for d in "$@"; do for f in $d/*.diff; do case "$f" in *.tests.diff) continue;; esac; for p in $PROPS; do echo "$f $p"; done; done; done > /root/.benign.jobs
cat /root/.benign.jobs | xargs -P 8 -L 1 bash -c 'out=$(/verif/bin/f2gcheck -prop $1 -patch $0 2>&1 | grep WITNESS-RESULT | cut -c1-400); echo "$0 $1 $out"' | sort > /root/.benign.out
echo "runs: $(wc -l < /root/.benign.out)"
grep -v "violations=0 " /root/.benign.out | cut -c1-500
