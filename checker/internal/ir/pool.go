package ir

import (
	"go/types"

	"golang.org/x/tools/go/ssa"
)

// PoolEscape is a reference into an object taken from a sync.Pool that leaves the function although the object
// is handed back to the pool (Put, usually deferred) by the same function: the next Get - possibly in another
// goroutine - reuses and overwrites the memory the caller is still reading.
type PoolEscape struct {
	Put ssa.Instruction // the Put call
	Ret *ssa.Return     // the return whose result refers to the pooled object
}

// PoolEscapes lists such escapes in fn. A result "refers to" the pooled object when it is the object itself or
// the result of a method call on it / a slice of such a result, and has reference type (pointer, slice, map,
// interface, string built without copy is not tracked).
func PoolEscapes(fn *ssa.Function) []PoolEscape {
	var out []PoolEscape
	// values obtained from (*sync.Pool).Get in this function
	isPooled := func(v ssa.Value) bool {
		v = Strip(v)
		for i := 0; i < 4; i++ {
			switch x := v.(type) {
			case *ssa.TypeAssert:
				v = Strip(x.X)
				continue
			case *ssa.Extract:
				if ta, ok := x.Tuple.(*ssa.TypeAssert); ok {
					v = Strip(ta.X)
					continue
				}
			case *ssa.Call:
				return CallName(x) == "(*sync.Pool).Get"
			}
			break
		}
		return false
	}
	var puts []ssa.Instruction
	for _, b := range fn.Blocks {
		for _, ins := range b.Instrs {
			cc, ok := ins.(ssa.CallInstruction)
			if !ok || CallName(cc) != "(*sync.Pool).Put" {
				continue
			}
			args := cc.Common().Args
			if len(args) == 2 && isPooled(stripIface(args[1])) {
				puts = append(puts, ins)
			}
		}
	}
	if len(puts) == 0 {
		return nil
	}
	var refers func(v ssa.Value, depth int) bool
	refers = func(v ssa.Value, depth int) bool {
		if depth > 6 {
			return false
		}
		v = Resolve(v)
		if isPooled(v) {
			return true
		}
		switch x := v.(type) {
		case *ssa.Call:
			// a method of the pooled object that hands out a reference (Bytes(), a field getter ...)
			if !isRefType(x.Type()) {
				return false
			}
			for _, a := range x.Call.Args {
				if refers(a, depth+1) {
					return true
				}
			}
			if x.Call.IsInvoke() {
				return refers(x.Call.Value, depth+1)
			}
		case *ssa.Slice:
			return refers(x.X, depth+1)
		case *ssa.Phi:
			for _, e := range x.Edges {
				if refers(e, depth+1) {
					return true
				}
			}
		case *ssa.MakeInterface:
			return refers(x.X, depth+1)
		case *ssa.ChangeType:
			return refers(x.X, depth+1)
		case *ssa.FieldAddr:
			return refers(x.X, depth+1)
		case *ssa.UnOp:
			return refers(x.X, depth+1)
		}
		return false
	}
	for _, r := range Returns(fn) {
		for _, res := range r.Results {
			if isRefType(res.Type()) && refers(res, 0) {
				out = append(out, PoolEscape{Put: puts[0], Ret: r})
				break
			}
		}
	}
	return out
}

func stripIface(v ssa.Value) ssa.Value {
	if mi, ok := v.(*ssa.MakeInterface); ok {
		return mi.X
	}
	return v
}

func isRefType(t types.Type) bool {
	switch t.Underlying().(type) {
	case *types.Pointer, *types.Slice, *types.Map, *types.Interface, *types.Chan:
		return true
	}
	return false
}
