package rules

import (
	"go/token"
	"go/types"
	"reflect"
	"sort"
	"strings"

	"f2gcheck/internal/ir"

	"golang.org/x/tools/go/ssa"
)

func init() { Registry["C20"] = c20 }

type threadClass struct {
	name  string
	kind  string // perFan | perSensor | multi | single
	roots []*ssa.Function
}

type access struct {
	key      string // Owner.Field  or  (Owner.Field)[] for map contents  or  global:pkg.Name
	owner    string
	write    bool
	locks    uint64
	fn       *ssa.Function
	pos      token.Pos
	reflect_ bool
	mapIter  bool
}

// ownerField returns the (owner type, field) behind an address / map value by walking loads and field addresses.
func ownerField(v ssa.Value) (owner *types.Named, field string, ok bool) {
	for i := 0; i < 6; i++ {
		switch x := v.(type) {
		case *ssa.FieldAddr:
			o, n, ok := ir.FieldName(x)
			return o, n, ok && o != nil
		case *ssa.UnOp:
			if x.Op == token.MUL {
				v = x.X
				continue
			}
			return nil, "", false
		case *ssa.ChangeType:
			v = x.X
			continue
		default:
			return nil, "", false
		}
	}
	return nil, "", false
}

func (c *Ctx) threadClasses() []*threadClass {
	var out []*threadClass
	byName := map[string]*threadClass{}
	get := func(name, kind string) *threadClass {
		if t, ok := byName[name]; ok {
			return t
		}
		t := &threadClass{name: name, kind: kind}
		byName[name] = t
		out = append(out, t)
		return t
	}
	daemon := c.Func(PkgInternal, "RunDaemon")
	if daemon == nil {
		return nil
	}
	for _, a := range groupActors(daemon) {
		if a.intr != nil && len(a.intr.Blocks) > 0 {
			get("shutdown", "single").roots = append(get("shutdown", "single").roots, a.intr)
		}
		if a.execute == nil {
			continue
		}
		switch {
		case c.reachesShallow(a.execute, func(cc ssa.CallInstruction) bool { return isControllerCall(cc, "Run") }):
			t := get("fan-startup", "perFan")
			t.roots = append(t.roots, a.execute)
		case c.reachesShallow(a.execute, func(cc ssa.CallInstruction) bool { return ir.IsInvoke(cc, PkgInternal, "SensorMonitor", "Run") }):
			t := get("sensor-monitor", "perSensor")
			t.roots = append(t.roots, a.execute)
		default:
			t := get("webserver", "single")
			t.roots = append(t.roots, a.execute)
		}
	}
	for _, run := range c.ImplMethods(PkgCtrl, "FanController", "Run") {
		for _, a := range groupActors(run) {
			if a.intr != nil && len(a.intr.Blocks) > 0 {
				get("shutdown", "single").roots = append(get("shutdown", "single").roots, a.intr)
			}
			if a.execute == nil {
				continue
			}
			if c.reaches(a.execute, func(cc ssa.CallInstruction) bool { return isControllerCall(cc, "UpdateFanSpeed") }) {
				get("control-loop", "perFan").roots = append(get("control-loop", "perFan").roots, a.execute)
			} else {
				get("rpm-monitor", "perFan").roots = append(get("rpm-monitor", "perFan").roots, a.execute)
			}
		}
	}
	for f, what := range c.cycleEntries() {
		switch what {
		case "REST handler":
			get("rest-api", "multi").roots = append(get("rest-api", "multi").roots, f)
		case "prometheus Collect":
			get("metrics", "multi").roots = append(get("metrics", "multi").roots, f)
		}
	}
	// `go` statements: goroutines started by repository code
	for _, fn := range c.P.Funcs {
		Instrs(fn, func(ins ssa.Instruction) {
			if g, ok := ins.(*ssa.Go); ok {
				if ir.JoinedOnAllPaths(g) == nil {
					// the spawner waits for it on every path: it runs inside the spawner's thread class
					// (the typestate engine follows such a go statement like a call)
					return
				}
				if f := fnOfValue(g.Call.Value); f != nil && c.P.IsRepoFunc(f) {
					get("go:"+c.FK(f), "single").roots = append(get("go:"+c.FK(f), "single").roots, f)
				}
			}
		})
	}
	for _, t := range out {
		sort.Slice(t.roots, func(i, j int) bool { return c.FK(t.roots[i]) < c.FK(t.roots[j]) })
	}
	sort.Slice(out, func(i, j int) bool { return out[i].name < out[j].name })
	return out
}

// reachesShallow: like reaches but only looks at the function itself and direct static callees.
func (c *Ctx) reachesShallow(fn *ssa.Function, pred func(ssa.CallInstruction) bool) bool {
	found := false
	Calls(fn, func(cc ssa.CallInstruction) {
		if pred(cc) {
			found = true
		}
	})
	return found
}

func (c *Ctx) category(owner *types.Named, curveReach map[*ssa.Function]bool, fn *ssa.Function) string {
	if owner == nil {
		return "global"
	}
	in := func(list []*types.Named) bool {
		for _, t := range list {
			if t == owner {
				return true
			}
		}
		return false
	}
	switch {
	case in(c.Impls(PkgFans, "Fan")):
		return "fan"
	case in(c.Impls(PkgCurves, "SpeedCurve")):
		return "curve"
	case in(c.Impls(PkgSensors, "Sensor")):
		return "sensor"
	case owner.Obj().Pkg() != nil && owner.Obj().Pkg().Path() == PkgCtrl:
		return "controller"
	case owner.Obj().Pkg() != nil && owner.Obj().Pkg().Path() == PkgLoop:
		return "controlloop"
	case owner.Obj().Pkg() != nil && owner.Obj().Pkg().Path() == PkgUtil && owner.Obj().Name() == "PidLoop":
		if curveReach[fn] {
			return "curve" // a PidLoop owned by a (possibly shared) PID curve
		}
		return "controlloop"
	case owner.Obj().Pkg() != nil && owner.Obj().Pkg().Path() == PkgConf:
		return "config"
	}
	return "other"
}

// conflictPossible: can accesses of classes A and B to an object of this category concern the same object?
func conflictPossible(a, b *threadClass, cat string) bool {
	shared := cat == "curve" || cat == "sensor" || cat == "global" || cat == "config" || cat == "other"
	if a == b {
		switch a.kind {
		case "perFan":
			return shared // different fans: controller / fan / control loop objects differ
		case "perSensor":
			return cat == "global" || cat == "config" || cat == "other" || cat == "curve"
		case "multi":
			return true
		default:
			return false
		}
	}
	if a.kind == "perFan" && b.kind == "perFan" {
		if a.name == "fan-startup" || b.name == "fan-startup" {
			// a fan's start-up code happens-before its own control loop / RPM monitor (they are started by it)
			return shared
		}
		return true
	}
	if cat == "controller" || cat == "controlloop" {
		// controllers are reachable from the per-fan goroutines and the metrics collector only
		return true
	}
	return true
}

func c20(c *Ctx) {
	c.R.Explanation = "C20: a may-race over-approximation by lockset analysis (E1+E5) on the SSA of /repo. Thread classes are discovered from the code: actors of the daemon's run.Group (fan start-up goroutine = FanController.Run before its inner group; sensor monitor; web servers), actors of each controller's inner group (control loop, RPM monitor), interrupt functions, REST handlers (function values registered on echo routes), prometheus Collect/Describe methods, and `go` statements. For every class the fields (struct type, field), map contents and package-level variables read or written in its call tree (VTA call graph) are collected together with the must-lockset at the access, computed by an interprocedural typestate whose states are the sets of held mutexes (Lock/RLock add, Unlock/deferred Unlock remove; callee summaries as state relations). Reflective reads by JSON encoding (echo Context.JSON*, json.Marshal) are added from a summary: every exported, non-`json:\"-\"` field of every dynamic type of the argument, recursively through pointers, structs and maps (maps are iterated). A race candidate is a pair of accesses to the same key from two concurrently runnable classes (or two instances of a multi-instance class), at least one a write, with disjoint locksets; pairs that cannot concern the same object are excluded by the private/shared rule (a fan's start-up happens-before its own control loop and RPM monitor; per-fan classes of different fans own different controller / fan / control-loop objects; curves, sensors, registries and globals are shared; a PidLoop reached from a curve's Evaluate is shared, one reached only from a control loop is private). Every candidate on today's tree is recorded as a known finding; any new (key, class pair) is a violation. Map iteration against a map write is flagged crash-capable. Mutex modes: the lockset has two bits per mutex (held in some mode, held exclusively; RLock sets only the first); two accesses are protected against each other only if some mutex is held by both and by at least one of them exclusively - a write under RLock is unprotected against other RLock holders. Each bit is computed by its own two-state typestate (projection of the powerset automaton), so the number of mutexes is not limited. pool = no function returns a reference into an object obtained from a sync.Pool that it also puts back. Limitations: type-based object abstraction; only mutex synchronisation is modelled (sync/atomic typed fields are not plain accesses and never flagged)."
	c.R.Assumptions = append(c.R.Assumptions,
		"run.Group.Add actors run concurrently; echo handlers and prometheus collectors run on library goroutines and may run concurrently with themselves",
		"reprint.This copies interface-kinded values shallowly, so Snapshot*Map() hands out the live objects",
		"cmap (orcaman/concurrent-map) registries are internally synchronised")
	tb := ir.NewTB(c.P.IsRepoFunc, c.P.FuncKey)

	classes := c.threadClasses()
	if len(classes) < 5 {
		c.R.Undecided("threads", "classes", "(whole program)", "-", sprintf("only %d thread classes discovered (anchor unresolved)", len(classes)))
		return
	}
	// locks
	lockIDs := map[string]int{}
	lockName := func(v ssa.Value) string {
		r := ir.Root(v)
		if g, ok := r.(*ssa.Global); ok {
			return "global:" + short(g.Pkg.Pkg.Path()) + "." + g.Name()
		}
		if o, f, ok := ownerField(v); ok {
			return o.Obj().Name() + "." + f
		}
		return tb.Of(v, nil).String()
	}
	// lock events: name of the mutex, +1 acquire / -1 release, shared (RLock/RUnlock) or exclusive
	isLockCall := func(cc ssa.CallInstruction) (string, int, bool) {
		n := ir.CallName(cc)
		switch n {
		case "(*sync.Mutex).Lock", "(*sync.RWMutex).Lock":
			return lockName(cc.Common().Args[0]), +1, false
		case "(*sync.RWMutex).RLock":
			return lockName(cc.Common().Args[0]), +1, true
		case "(*sync.Mutex).Unlock", "(*sync.RWMutex).Unlock":
			return lockName(cc.Common().Args[0]), -1, false
		case "(*sync.RWMutex).RUnlock":
			return lockName(cc.Common().Args[0]), -1, true
		}
		return "", 0, false
	}
	hasShared := map[string]bool{}
	for _, fn := range c.P.Funcs {
		if load_FuncPkgPath(fn) == PkgUI {
			continue
		}
		Calls(fn, func(cc ssa.CallInstruction) {
			if n, d, shared := isLockCall(cc); d > 0 {
				if _, ok := lockIDs[n]; !ok {
					lockIDs[n] = len(lockIDs)
				}
				if shared {
					hasShared[n] = true
				}
			}
		})
	}
	if len(lockIDs) > 30 {
		c.R.Undecided("threads", "locks", "(whole program)", "-", sprintf("%d distinct mutexes: more than the lockset engine is configured for", len(lockIDs)))
		return
	}
	var lockNames []string
	for n := range lockIDs {
		lockNames = append(lockNames, n)
	}
	sort.Strings(lockNames)
	for i, n := range lockNames {
		lockIDs[n] = i
	}
	c.R.Note("mutexes", strings.Join(lockNames, ", "))
	// the lockset of an access has two bits per mutex: held in some mode (2*id) and held exclusively (2*id+1).
	// Each bit is an independent two-state typestate (not held / held), so the must-lockset is computed one
	// bit at a time (the projection of the powerset automaton: transitions on one mutex never depend on another).
	type lockBit struct {
		name      string
		exclusive bool
	}
	var bitsToRun []lockBit
	for _, n := range lockNames {
		bitsToRun = append(bitsToRun, lockBit{n, true})
		if hasShared[n] {
			bitsToRun = append(bitsToRun, lockBit{n, false})
		}
	}
	specFor := func(lb lockBit) ir.TSpec {
		return ir.TSpec{
			N: 2,
			Instr: func(ins ssa.Instruction) []ir.Mask {
				cc, ok := ins.(ssa.CallInstruction)
				if !ok {
					return nil
				}
				n, d, shared := isLockCall(cc)
				if d == 0 {
					return nil
				}
				if n != lb.name {
					return ir.Ident(2)
				}
				if lb.exclusive {
					if shared {
						return ir.Ident(2) // RLock / RUnlock do not change exclusive ownership
					}
				}
				if d > 0 {
					return ir.AllTo(2, 1)
				}
				return ir.AllTo(2, 0)
			},
			Callees: func(call ssa.CallInstruction) []*ssa.Function {
				var out []*ssa.Function
				for _, f := range c.Callees(call) {
					if load_FuncPkgPath(f) != PkgUI {
						out = append(out, f)
					}
				}
				return out
			},
			NoReturn: func(ins ssa.Instruction) bool { return c.noReturnCall(ins) },
		}
	}
	// protectedPair: some mutex is held by both accesses, by at least one of them exclusively
	protectedPair := func(x, y uint64) bool {
		for id := range lockNames {
			h, e := uint64(1)<<uint(2*id), uint64(1)<<uint(2*id+1)
			if x&h != 0 && y&h != 0 && (x&e != 0 || y&e != 0) {
				return true
			}
		}
		return false
	}

	// functions reachable from a curve's Evaluate (ownership context of PidLoop)
	curveReachMemo = nil

	accs := map[*threadClass][]access{}
	for _, tc := range classes {
		var names []string
		for _, r := range tc.roots {
			names = append(names, c.FK(r))
		}
		c.R.Note("thread classes", tc.name+" ["+tc.kind+"]: "+strings.Join(names, ", "))
		seen := map[string]bool{}
		add := func(a access) {
			k := a.key + "|" + sprintf("%v|%d|%v", a.write, a.locks, a.mapIter) + "|" + c.P.Pos(a.pos)
			if seen[k] {
				return
			}
			seen[k] = true
			accs[tc] = append(accs[tc], a)
		}
		for _, root := range tc.roots {
			type site struct {
				fn   *ssa.Function
				must uint64
			}
			sites := map[ssa.Instruction]*site{}
			var order []ssa.Instruction
			for bi, lb := range bitsToRun {
				id := lockIDs[lb.name]
				ts := ir.NewTS(specFor(lb))
				ts.Run(root, ir.Bit(0), func(fn *ssa.Function, ins ssa.Instruction, m ir.Mask) {
					if m == 0 || load_FuncPkgPath(fn) == PkgUI {
						return
					}
					st := sites[ins]
					if st == nil {
						if bi != 0 {
							return
						}
						st = &site{fn: fn}
						sites[ins] = st
						order = append(order, ins)
					}
					if m == ir.Bit(1) { // held in every calling context and on every path
						if lb.exclusive {
							st.must |= uint64(1)<<uint(2*id+1) | uint64(1)<<uint(2*id)
						} else {
							st.must |= uint64(1) << uint(2*id)
						}
					}
				})
			}
			for _, ins := range order {
				c.collectAccesses(sites[ins].fn, ins, sites[ins].must, tb, add)
			}
		}
	}

	// conflicts
	type conflict struct {
		key, a, b, cat string
		crash          bool
		wpos, rpos     string
		wfn, rfn       string
		reflective     bool
	}
	found := map[string]*conflict{}
	catOf := func(a access) string {
		if strings.HasPrefix(a.key, "global:") {
			return "global"
		}
		return a.owner
	}
	for i, A := range classes {
		for j := i; j < len(classes); j++ {
			B := classes[j]
			for _, x := range accs[A] {
				for _, y := range accs[B] {
					if x.key != y.key || (!x.write && !y.write) || protectedPair(x.locks, y.locks) {
						continue
					}
					if A == B && &x == &y {
						continue
					}
					cat := catOf(x)
					if cat2 := catOf(y); cat2 == "curve" || cat == "" {
						cat = cat2
					}
					if !conflictPossible(A, B, cat) {
						continue
					}
					if A == B && !x.write && !y.write {
						continue
					}
					names := []string{A.name, B.name}
					sort.Strings(names)
					k := x.key + "|" + names[0] + "~" + names[1]
					w, r := x, y
					if !w.write {
						w, r = y, x
					}
					cf := found[k]
					if cf == nil {
						cf = &conflict{key: x.key, a: names[0], b: names[1], cat: cat, wpos: c.P.Pos(w.pos), rpos: c.P.Pos(r.pos), wfn: c.FK(w.fn), rfn: c.FK(r.fn)}
						found[k] = cf
					}
					if (x.mapIter && y.write) || (y.mapIter && x.write) || (strings.HasSuffix(x.key, "[]") && x.write && y.write) {
						cf.crash = true
					}
					if x.reflect_ || y.reflect_ {
						cf.reflective = true
					}
				}
			}
		}
	}
	var keys []string
	for k := range found {
		keys = append(keys, k)
	}
	sort.Strings(keys)
	for _, k := range keys {
		cf := found[k]
		detail := sprintf("unsynchronised: written in %s (%s), accessed in %s (%s); classes %s / %s", cf.wfn, cf.wpos, cf.rfn, cf.rpos, cf.a, cf.b)
		if cf.reflective {
			detail += "; one side is the JSON encoder's reflective read"
		}
		if cf.crash {
			detail += "; CRASH-CAPABLE: concurrent map iteration/write (the Go runtime aborts)"
		}
		c.R.Bad("race", k, cf.wfn, cf.wpos, detail)
	}
	total := 0
	for _, a := range accs {
		total += len(a)
	}
	c.R.Stats["thread_classes"] = len(classes)
	c.R.Stats["shared_accesses_collected"] = total
	c.R.Stats["race_candidates"] = len(keys)
	// pooled objects: a reference into an object from a sync.Pool must not leave a function that also puts the
	// object back (the locksets above do not see this sharing: the pool hands the same memory to another goroutine)
	npool := 0
	for _, fn := range c.P.Funcs {
		if len(fn.Blocks) == 0 {
			continue
		}
		for _, pe := range ir.PoolEscapes(fn) {
			npool++
			c.R.Bad("pool", c.FK(fn), c.FK(fn), c.P.Pos(pe.Ret.Pos()), "a reference into an object taken from a sync.Pool is returned although the same function puts the object back into the pool ("+c.P.Pos(pe.Put.Pos())+"): the next Get, possibly in another goroutine, overwrites memory the caller is still reading (data race; readers see another caller's data)")
			break
		}
	}
	c.R.Ok("pool", "summary", "(whole program)", "-", sprintf("%d functions inspected, %d hand out a reference into a pooled object they also release (rule self-test: checker/internal/ir TestPoolEscapes)", len(c.P.Funcs), npool))
	// positive control: the synchronised accessors must be seen as protected (the engine is not blind)
	prot := 0
	for _, as := range accs {
		for _, a := range as {
			if a.locks != 0 {
				prot++
			}
		}
	}
	if prot == 0 {
		c.R.Undecided("lockset", "no-protected-access", "(whole program)", "-", "no access under a mutex was found although the code base has mutex-protected accessors (engine blind)")
	} else {
		c.R.Ok("lockset", "protected-accesses", "(whole program)", "-", sprintf("%d accesses collected, %d of them with a non-empty must-lockset", total, prot))
	}
}

// globalHeldFields: reference-typed fields (map / slice / pointer) that are somewhere assigned a value
// derived from a package-level variable: objects reachable through them are shared between all instances.
func (c *Ctx) globalHeldFields(tb *ir.TB) map[string]string {
	if c.globalHeld != nil {
		return c.globalHeld
	}
	c.globalHeld = map[string]string{}
	for _, fn := range c.P.Funcs {
		if load_FuncPkgPath(fn) == PkgUI {
			continue
		}
		Instrs(fn, func(ins ssa.Instruction) {
			st, ok := ins.(*ssa.Store)
			if !ok {
				return
			}
			fa, ok := st.Addr.(*ssa.FieldAddr)
			if !ok {
				return
			}
			switch st.Val.Type().Underlying().(type) {
			case *types.Map, *types.Slice, *types.Pointer:
			default:
				return
			}
			o, f, ok := ir.FieldName(fa)
			if !ok || o == nil || o.Obj().Pkg() == nil || !strings.HasPrefix(o.Obj().Pkg().Path(), M) {
				return
			}
			t := tb.Of(st.Val, nil)
			if g := t.Find(func(x *ir.Term) bool {
				return strings.HasPrefix(x.Op, "global:"+M) && !strings.Contains(x.Op, "configuration.CurrentConfig")
			}); g != nil && (t.Op == g.Op || t.Op == "load" || t.Op == "phi" || strings.HasPrefix(t.Op, "field:")) {
				c.globalHeld[o.Obj().Name()+"."+f] = g.Op
			}
		})
	}
	return c.globalHeld
}

// paramAlias resolves a map-typed parameter to the (owner, field) of the argument at the static call sites of fn.
func (c *Ctx) paramAlias(p *ssa.Parameter) (*types.Named, string, bool) {
	fn := p.Parent()
	idx := -1
	for i, q := range fn.Params {
		if q == p {
			idx = i
		}
	}
	if idx < 0 {
		return nil, "", false
	}
	for _, caller := range c.P.Funcs {
		var o *types.Named
		var f string
		found := false
		Calls(caller, func(cc ssa.CallInstruction) {
			match := ir.Callee(cc).Static == fn
			ai := idx
			if !match && cc.Common().IsInvoke() && cc.Common().Method.Name() == fn.Name() {
				match = true
				ai = idx - 1 // the receiver is not in Args of an invoke
			}
			if !match || ai < 0 || ai >= len(cc.Common().Args) {
				return
			}
			if oo, ff, ok := ownerField(ir.Resolve(cc.Common().Args[ai])); ok {
				o, f, found = oo, ff, true
			}
		})
		if found {
			return o, f, true
		}
	}
	return nil, "", false
}

// collectAccesses classifies one instruction.
func (c *Ctx) collectAccesses(fn *ssa.Function, ins ssa.Instruction, must uint64, tb *ir.TB, add func(access)) {
	mk := func(owner *types.Named, field string, write bool, suffix string) access {
		a := access{key: owner.Obj().Name() + "." + stableFieldName(owner, field) + suffix, owner: c.category(owner, c.curveReachCache(), fn), write: write, locks: must, fn: fn, pos: ins.Pos()}
		if _, shared := c.globalHeldFields(tb)[owner.Obj().Name()+"."+field]; shared && suffix == "[]" {
			a.owner = "global" // the object behind this field may be a package-level one shared by all instances
		}
		return a
	}
	mapOwner := func(v ssa.Value) (*types.Named, string, bool) {
		if o, f, ok := ownerField(v); ok {
			return o, f, true
		}
		if p, ok := ir.Resolve(v).(*ssa.Parameter); ok {
			return c.paramAlias(p)
		}
		return nil, "", false
	}
	repoType := func(n *types.Named) bool {
		return n != nil && n.Obj().Pkg() != nil && strings.HasPrefix(n.Obj().Pkg().Path(), M) && n.Obj().Pkg().Path() != PkgUI
	}
	switch x := ins.(type) {
	case *ssa.Store:
		if g, ok := x.Addr.(*ssa.Global); ok && strings.HasPrefix(g.Pkg.Pkg.Path(), M) {
			add(access{key: "global:" + short(g.Pkg.Pkg.Path()) + "." + g.Name(), write: true, locks: must, fn: fn, pos: ins.Pos()})
			return
		}
		if fa, ok := x.Addr.(*ssa.FieldAddr); ok {
			if _, lit := rootOfAddr(fa).(*ssa.Alloc); lit {
				return // construction of a fresh object
			}
			if o, f, ok := ir.FieldName(fa); ok && repoType(o) {
				a := mk(o, f, true, "")
				if outer, ok := fa.X.(*ssa.FieldAddr); ok {
					if oo, _, ok := ir.FieldName(outer); ok && oo != nil {
						a.owner = c.category(oo, c.curveReachCache(), fn)
					}
				}
				add(a)
			}
		}
	case *ssa.UnOp:
		if x.Op != token.MUL {
			return
		}
		if g, ok := x.X.(*ssa.Global); ok && strings.HasPrefix(g.Pkg.Pkg.Path(), M) {
			add(access{key: "global:" + short(g.Pkg.Pkg.Path()) + "." + g.Name(), write: false, locks: must, fn: fn, pos: ins.Pos()})
			return
		}
		if fa, ok := x.X.(*ssa.FieldAddr); ok {
			if _, lit := rootOfAddr(fa).(*ssa.Alloc); lit {
				return
			}
			if o, f, ok := ir.FieldName(fa); ok && repoType(o) {
				add(mk(o, f, false, ""))
				// loading a struct-typed field by value reads every field of that struct
				if n, ok := x.Type().(*types.Named); ok && repoType(n) {
					if st, ok := n.Underlying().(*types.Struct); ok {
						for i := 0; i < st.NumFields(); i++ {
							a := mk(n, st.Field(i).Name(), false, "")
							a.owner = c.category(o, c.curveReachCache(), fn)
							add(a)
						}
					}
				}
			}
		}
	case *ssa.MapUpdate:
		if o, f, ok := mapOwner(x.Map); ok && repoType(o) {
			add(mk(o, f, true, "[]"))
		}
	case *ssa.Lookup:
		if _, isMap := x.X.Type().Underlying().(*types.Map); isMap {
			if o, f, ok := mapOwner(x.X); ok && repoType(o) {
				add(mk(o, f, false, "[]"))
			}
		}
	case *ssa.Range:
		if _, isMap := x.X.Type().Underlying().(*types.Map); isMap {
			if o, f, ok := mapOwner(x.X); ok && repoType(o) {
				a := mk(o, f, false, "[]")
				a.mapIter = true
				add(a)
			}
		}
	case *ssa.Call:
		// reflective reads by JSON encoding
		n := ir.CallName(x)
		argi := -1
		switch {
		case strings.HasPrefix(n, "invoke:github.com/labstack/echo/v4.Context.JSON"):
			argi = 1
		case n == "encoding/json.Marshal" || n == "encoding/json.MarshalIndent":
			argi = 0
		}
		if argi >= 0 && argi < len(x.Call.Args) {
			for _, t := range c.dynamicTypes(x.Call.Args[argi], tb) {
				c.reflectiveReads(t, fn, ins, add, map[types.Type]bool{}, 0)
			}
		}
		// builtin delete(map, k) / len(map)
		if ir.Callee(x).Builtin == "delete" {
			if o, f, ok := ownerField(x.Call.Args[0]); ok && repoType(o) {
				add(mk(o, f, true, "[]"))
			}
		}
	}
}

func rootOfAddr(fa *ssa.FieldAddr) ssa.Value {
	var v ssa.Value = fa
	for {
		switch x := v.(type) {
		case *ssa.FieldAddr:
			v = x.X
		default:
			return v
		}
	}
}

var curveReachMemo map[*ssa.Function]bool

func (c *Ctx) curveReachCache() map[*ssa.Function]bool {
	if curveReachMemo == nil {
		curveReachMemo = c.Closure(c.ImplMethods(PkgCurves, "SpeedCurve", "Evaluate"), false, nil)
	}
	return curveReachMemo
}

// dynamicTypes returns the concrete repository struct types that may be encoded when v is marshalled.
func (c *Ctx) dynamicTypes(v ssa.Value, tb *ir.TB) []*types.Named {
	seen := map[*types.Named]bool{}
	var out []*types.Named
	addT := func(n *types.Named) {
		if n != nil && !seen[n] {
			seen[n] = true
			out = append(out, n)
		}
	}
	var fromType func(t types.Type, depth int)
	fromType = func(t types.Type, depth int) {
		if depth > 6 || t == nil {
			return
		}
		switch x := t.(type) {
		case *types.Pointer:
			fromType(x.Elem(), depth+1)
		case *types.Map:
			fromType(x.Elem(), depth+1)
		case *types.Slice:
			fromType(x.Elem(), depth+1)
		case *types.Tuple:
			for i := 0; i < x.Len(); i++ {
				fromType(x.At(i).Type(), depth+1)
			}
		case *types.Named:
			if x.Obj().Pkg() == nil || !strings.HasPrefix(x.Obj().Pkg().Path(), M) {
				if _, isIface := x.Underlying().(*types.Interface); !isIface {
					fromType(x.Underlying(), depth+1)
				}
				return
			}
			if it, ok := x.Underlying().(*types.Interface); ok {
				_ = it
				for _, impl := range c.Impls(x.Obj().Pkg().Path(), x.Obj().Name()) {
					addT(impl)
				}
				return
			}
			if _, ok := x.Underlying().(*types.Struct); ok {
				addT(x)
			}
		}
	}
	t := tb.Of(v, nil)
	var walk func(t *ir.Term)
	walk = func(t *ir.Term) {
		if t == nil {
			return
		}
		if t.Val != nil {
			fromType(t.Val.Type(), 0)
			if call, ok := t.Val.(*ssa.Call); ok {
				if call.Common().Signature().Results().Len() > 0 {
					fromType(call.Common().Signature().Results(), 0)
				}
			}
		}
		for _, a := range t.Args {
			walk(a)
		}
	}
	walk(t)
	sort.Slice(out, func(i, j int) bool { return out[i].String() < out[j].String() })
	return out
}

// reflectiveReads adds a read for every field the JSON encoder visits.
func (c *Ctx) reflectiveReads(n *types.Named, fn *ssa.Function, ins ssa.Instruction, add func(access), seen map[types.Type]bool, depth int) {
	if seen[n] || depth > 5 {
		return
	}
	seen[n] = true
	st, ok := n.Underlying().(*types.Struct)
	if !ok {
		return
	}
	for i := 0; i < st.NumFields(); i++ {
		f := st.Field(i)
		if !f.Exported() {
			continue
		}
		if tag := reflect.StructTag(st.Tag(i)).Get("json"); tag == "-" {
			continue
		}
		a := access{key: n.Obj().Name() + "." + stableFieldName(n, f.Name()), owner: c.category(n, c.curveReachCache(), fn), write: false, locks: 0, fn: fn, pos: ins.Pos(), reflect_: true}
		add(a)
		ft := f.Type()
		if p, ok := ft.(*types.Pointer); ok {
			ft = p.Elem()
		}
		switch x := ft.(type) {
		case *types.Map:
			m := a
			m.key = n.Obj().Name() + "." + stableFieldName(n, f.Name()) + "[]"
			m.mapIter = true
			add(m)
		case *types.Named:
			if x.Obj().Pkg() != nil && strings.HasPrefix(x.Obj().Pkg().Path(), M) {
				c.reflectiveReads(x, fn, ins, add, seen, depth+1)
			}
		default:
			if m, ok := ft.Underlying().(*types.Map); ok {
				_ = m
				mm := a
				mm.key = n.Obj().Name() + "." + stableFieldName(n, f.Name()) + "[]"
				mm.mapIter = true
				add(mm)
			}
		}
	}
}

// stableFieldName: exported fields are identified by name (part of the JSON/API surface); unexported
// fields by their type and ordinal among the unexported fields of that type, so that renaming a
// private field does not turn a known finding into a "new" one.
func stableFieldName(owner *types.Named, field string) string {
	st, ok := owner.Underlying().(*types.Struct)
	if !ok {
		return field
	}
	count := map[string]int{}
	for i := 0; i < st.NumFields(); i++ {
		f := st.Field(i)
		if f.Exported() {
			if f.Name() == field {
				return field
			}
			continue
		}
		ts := types.TypeString(f.Type(), func(p *types.Package) string { return p.Name() })
		count[ts]++
		if f.Name() == field {
			return sprintf("(unexported %s #%d)", ts, count[ts])
		}
	}
	return field
}
