package rules

import (
	"go/token"
	"sort"
	"strings"

	"f2gcheck/internal/ir"

	"golang.org/x/tools/go/ssa"
)

func init() { Registry["C14"] = c14 }

const boltPkg = "go.etcd.io/bbolt"

type boltOp struct {
	call *ssa.Call
	kind string // Bucket, CreateBucketIfNotExists, CreateBucket, DeleteBucket, Put, Get, Delete
	fn   *ssa.Function
}

func boltOpKind(call *ssa.Call) string {
	n := ir.CallName(call)
	for _, k := range []string{"Bucket", "CreateBucketIfNotExists", "CreateBucket", "DeleteBucket"} {
		if n == "(*"+boltPkg+".Tx)."+k || n == "(*"+boltPkg+".Bucket)."+k {
			return k
		}
	}
	for _, k := range []string{"Put", "Get", "Delete"} {
		if n == "(*"+boltPkg+".Bucket)."+k {
			return k
		}
	}
	return ""
}

func c14(c *Ctx) {
	c.R.Explanation = "C14: isolation and transaction structure (necessary conditions) decided on the SSA of /repo for every implementation of persistence.Persistence. R-bucket = every bucket name used by a method is the string constant of that method's kind (the constant used by Save<Kind>), the two kinds use different constants, and every key handed to Put/Get/Delete is the fan id (fan.GetId() of the fan parameter / the fanId parameter), never anything else; the six methods are cross-checked pairwise. R-txn = all bucket operations of a method happen inside one closure passed to (*bolt.DB).Update or View, and mutating operations (Put, Delete, CreateBucket*) only inside Update. R-results = Load returns os.ErrNotExist from the nil-bucket and nil-value edges and, from the error edge of json.Unmarshal, every path calls Delete(key) (the corrupt entry is discarded); Delete returns the nil constant on the missing-bucket and missing-key edges; the transaction's error is what the method returns. R-data = Save puts json.Marshal of data derived from its parameter, Load unmarshals into the variable it returns. Not decided: value equality after the JSON round trip, durability and SIGKILL atomicity (bbolt run-time behaviour)."
	c.R.Assumptions = append(c.R.Assumptions, "bbolt: Update/View run the closure synchronously in one transaction; a write inside View fails with 'tx not writable'")
	tb := ir.NewTB(c.P.IsRepoFunc, c.P.FuncKey)
	tb.InlineMaxBlocks = 0

	impls := c.Impls(PkgPersist, "Persistence")
	if len(impls) == 0 {
		c.R.Undecided("R-bucket", "no-impl", "Persistence", "-", "no implementation found")
		return
	}
	kinds := []string{"FanPwmData", "FanPwmMap"}
	verbs := []string{"Save", "Load", "Delete"}
	for _, impl := range impls {
		bucketOf := map[string]string{} // kind -> constant
		type minfo struct {
			fn      *ssa.Function
			ops     []boltOp
			buckets map[string]bool
			tb      *ir.TB
		}
		methods := map[string]*minfo{}
		for _, k := range kinds {
			for _, v := range verbs {
				name := v + k
				fn := c.Method(impl, name)
				if fn == nil || len(fn.Blocks) == 0 {
					c.R.Undecided("R-bucket", impl.Obj().Name()+"."+name, name, "-", "method not found")
					continue
				}
				mi := &minfo{fn: fn, buckets: map[string]bool{}}
				methods[name] = mi
				fk := c.FK(fn)
				c.R.Note("functions", fk)
				// collect bolt operations in the method and its closures
				tree := c.Closure([]*ssa.Function{fn}, true, func(f *ssa.Function) bool { return load_FuncPkgPath(f) != PkgPersist })
				// terms are built in the context of this method: parameters of helpers shared by several
				// methods are resolved through the call site inside this method's own call tree
				tb := ir.NewTB(c.P.IsRepoFunc, c.P.FuncKey)
				tb.InlineMaxBlocks = 0
				tb.ParamCallers = c.CallersIn(tree)
				mi.tb = tb
				for _, f := range c.SortedFuncs(tree) {
					Calls(f, func(cc ssa.CallInstruction) {
						if call, ok := cc.(*ssa.Call); ok {
							if kind := boltOpKind(call); kind != "" {
								mi.ops = append(mi.ops, boltOp{call, kind, f})
								return
							}
							// any other bbolt API (cursors, ForEach, sequences, nested buckets ...) has no summary here
							if n := ir.CallName(call); strings.Contains(n, boltPkg+".") {
								switch n {
								case boltPkg + ".Open", "(*" + boltPkg + ".DB).Close", "(*" + boltPkg + ".DB).Update", "(*" + boltPkg + ".DB).View":
								default:
									c.R.Undecided("R-bucket", c.FK(mi.fn)+"|unmodelled|"+n, c.FK(f), c.P.Pos(call.Pos()), "bbolt operation "+n+" has no summary in this check (keys touched through it cannot be tied to the fan id): isolation is not decided")
								}
							}
						}
					})
				}
				if len(mi.ops) == 0 {
					c.R.Bad("R-txn", fk+"|no-ops", fk, c.P.Pos(fn.Pos()), "method performs no bucket operation")
					continue
				}
				// ---- R-txn -----------------------------------------------------------
				closures := map[*ssa.Function]bool{}
				for _, op := range mi.ops {
					closures[op.fn] = true
				}
				if len(closures) != 1 {
					c.R.Bad("R-txn", fk+"|single-txn", fk, c.P.Pos(fn.Pos()), sprintf("bucket operations are spread over %d functions (not one transaction closure)", len(closures)))
				}
				for cl := range closures {
					mc := ir.MakeClosureOf(cl)
					mode := ""
					if mc != nil {
						if refs := mc.Referrers(); refs != nil {
							for _, r := range *refs {
								if call, ok := r.(*ssa.Call); ok {
									switch ir.CallName(call) {
									case "(*" + boltPkg + ".DB).Update":
										mode = "Update"
									case "(*" + boltPkg + ".DB).View":
										mode = "View"
									case "(*" + boltPkg + ".DB).Batch":
										mode = "Batch"
									}
								}
							}
						}
					}
					mutates := ""
					for _, op := range mi.ops {
						if op.fn == cl && (op.kind == "Put" || op.kind == "Delete" || strings.HasPrefix(op.kind, "CreateBucket") || op.kind == "DeleteBucket") {
							mutates = op.kind + " at " + c.P.Pos(op.call.Pos())
						}
					}
					switch {
					case mode == "":
						c.R.Bad("R-txn", fk+"|in-txn", fk, c.P.Pos(cl.Pos()), "bucket operations are not inside a closure passed to (*bolt.DB).Update/View")
					case mutates != "" && mode != "Update":
						c.R.Bad("R-txn", fk+"|in-txn", fk, c.P.Pos(cl.Pos()), "a mutating bucket operation ("+mutates+") runs inside db."+mode+": it fails with 'tx not writable' (e.g. a corrupt entry is never discarded)")
					default:
						c.R.Ok("R-txn", fk+"|in-txn", fk, c.P.Pos(cl.Pos()), sprintf("%d bucket operation(s) inside one db.%s closure", len(mi.ops), mode))
					}
				}
				// ---- R-bucket: names and keys ---------------------------------------------
				for _, op := range mi.ops {
					switch op.kind {
					case "Bucket", "CreateBucketIfNotExists", "CreateBucket", "DeleteBucket":
						t := tb.Of(op.call.Call.Args[1], nil)
						if strings.HasPrefix(t.Op, "const:") {
							mi.buckets[strings.Trim(strings.TrimPrefix(t.Op, "const:"), "\"")] = true
						} else {
							c.R.Bad("R-bucket", fk+"|bucket-name", fk, c.P.Pos(op.call.Pos()), "bucket name is not a constant: "+t.String())
						}
					case "Put", "Get", "Delete":
						t := tb.Of(op.call.Call.Args[1], nil)
						isId := false
						if strings.HasPrefix(t.Op, "invoke:") && strings.HasSuffix(t.Op, "fans.Fan.GetId") && len(t.Args) == 1 && strings.HasPrefix(t.Args[0].Op, "param:") {
							isId = true
						}
						if strings.HasPrefix(t.Op, "param:") && strings.Contains(strings.ToLower(t.Op), "id") {
							isId = true
						}
						if isId {
							c.R.Ok("R-bucket", fk+"|key|"+op.kind, fk, c.P.Pos(op.call.Pos()), op.kind+" key = "+t.String())
						} else {
							c.R.Bad("R-bucket", fk+"|key|"+op.kind, fk, c.P.Pos(op.call.Pos()), op.kind+" key is not the fan id of the method's parameter: "+t.String())
						}
					}
				}
				var bs []string
				for b := range mi.buckets {
					bs = append(bs, b)
				}
				sort.Strings(bs)
				if v == "Save" {
					if len(bs) == 1 {
						bucketOf[k] = bs[0]
					} else {
						c.R.Bad("R-bucket", fk+"|bucket-name", fk, c.P.Pos(fn.Pos()), sprintf("Save uses %d bucket names %v", len(bs), bs))
					}
				}
			}
		}
		// kinds must be disjoint, siblings must agree
		if bucketOf["FanPwmData"] != "" && bucketOf["FanPwmData"] == bucketOf["FanPwmMap"] {
			c.R.Bad("R-bucket", impl.Obj().Name()+"|kinds-disjoint", impl.Obj().Name(), "-", "both kinds of data are stored in the same bucket "+bucketOf["FanPwmMap"])
		} else {
			c.R.Ok("R-bucket", impl.Obj().Name()+"|kinds-disjoint", impl.Obj().Name(), "-", sprintf("bucket constants: %v", bucketOf))
		}
		for _, k := range kinds {
			for _, v := range verbs {
				mi := methods[v+k]
				if mi == nil {
					continue
				}
				fk := c.FK(mi.fn)
				ok := len(mi.buckets) == 1 && mi.buckets[bucketOf[k]]
				if ok {
					c.R.Ok("R-bucket", fk+"|bucket-name", fk, c.P.Pos(mi.fn.Pos()), "uses only bucket \""+bucketOf[k]+"\" (the constant of Save"+k+")")
				} else {
					var bs []string
					for b := range mi.buckets {
						bs = append(bs, b)
					}
					sort.Strings(bs)
					c.R.Bad("R-bucket", fk+"|bucket-name", fk, c.P.Pos(mi.fn.Pos()), sprintf("uses bucket(s) %v, but Save%s uses \"%s\": entries of one kind/fan would be read, overwritten or deleted by operations of the other", bs, k, bucketOf[k]))
				}
			}
		}
		// sibling agreement on operation structure
		for _, v := range verbs {
			a, b := methods[v+"FanPwmData"], methods[v+"FanPwmMap"]
			if a == nil || b == nil {
				continue
			}
			sig := func(m *minfo) string {
				var ks []string
				for _, op := range m.ops {
					ks = append(ks, op.kind)
				}
				sort.Strings(ks)
				return strings.Join(ks, ",")
			}
			if sig(a) == sig(b) {
				c.R.Ok("R-siblings", impl.Obj().Name()+"|"+v, v+"*", "-", "both kinds perform the same bucket operations: "+sig(a))
			} else {
				c.R.Bad("R-siblings", impl.Obj().Name()+"|"+v, v+"*", "-", "the two kinds differ in their bucket operations: "+sig(a)+" vs "+sig(b))
			}
		}

		checkTxnReturn := func(mi *minfo, fk string) {
			// the method returns the transaction's error
			ei := errResultIndex(mi.fn)
			okRet := false
			tbi := ir.NewTB(c.P.IsRepoFunc, c.P.FuncKey)
			silent := ""
			for _, r := range ir.Returns(mi.fn) {
				vias := []*ssa.BasicBlock{nil}
				if phi, ok := ir.Resolve(r.Results[ei]).(*ssa.Phi); ok && phi.Block() == r.Block() {
					vias = r.Block().Preds
				}
				for _, via := range vias {
					ev := ir.ResultVia(r, ei, via)
					t := tbi.Of(ev, nil)
					isTxn := t.Has(func(x *ir.Term) bool { return strings.HasPrefix(x.Op, "call:(*"+boltPkg+".DB).") })
					if isTxn {
						okRet = true
					} else if mayBeNilError(ev, factsAt(r.Block(), via)) {
						// success reported without the transaction having run: a silent no-op
						silent = c.P.Pos(r.Pos())
					}
				}
			}
			if okRet && silent != "" {
				c.R.Bad("R-results", fk+"|txn-error-returned", fk, silent, "the method can report success (nil error) on a path that never ran the transaction: the operation is silently skipped and a later load returns something else than what was saved")
			} else if okRet {
				c.R.Ok("R-results", fk+"|txn-error-returned", fk, c.P.Pos(mi.fn.Pos()), "the method returns the transaction's result")
			} else {
				c.R.Bad("R-results", fk+"|txn-error-returned", fk, c.P.Pos(mi.fn.Pos()), "the result of the transaction is not returned")
			}
		}
		// ---- R-results -------------------------------------------------------------------
		for _, k := range kinds {
			for _, v := range []string{"Load", "Delete"} {
				mi := methods[v+k]
				if mi == nil || len(mi.ops) == 0 {
					continue
				}
				cl := mi.ops[0].fn
				fk := c.FK(mi.fn)
				var bucketV, getV ssa.Value
				var getCall *ssa.Call
				for _, op := range mi.ops {
					if op.kind == "Bucket" {
						bucketV = op.call
					}
					if op.kind == "Get" {
						getV = op.call
						getCall = op.call
					}
				}
				_ = getCall
				wantNotExist := v == "Load"
				for name, val := range map[string]ssa.Value{"missing-bucket": bucketV, "missing-key": getV} {
					if val == nil {
						c.R.Bad("R-results", fk+"|"+name, fk, c.P.Pos(cl.Pos()), "no "+name+" test: bucket/value is used without a nil check")
						continue
					}
					var es []edge
					for _, b := range cl.Blocks {
						for si := range b.Succs {
							if ir.HasFact(ir.EdgeFacts(b, si), token.EQL, func(x, y ssa.Value) bool { return x == val && ir.IsNilConst(y) }) {
								es = append(es, edge{b, si})
							}
						}
					}
					if len(es) == 0 {
						c.R.Bad("R-results", fk+"|"+name, fk, c.P.Pos(cl.Pos()), "the "+name+" case is not tested")
						continue
					}
					bad := ""
					for _, rv := range returnsFrom(edgeStarts(es), ir.Search{}) {
						t := mi.tb.Of(ir.ResultVia(rv.ret, 0, rv.via), nil)
						if wantNotExist && t.Op != "global:os.ErrNotExist" {
							bad = "returns " + t.String() + " at " + c.P.Pos(rv.ret.Pos())
						}
						if !wantNotExist && t.Op != "nil" {
							bad = "returns " + t.String() + " at " + c.P.Pos(rv.ret.Pos())
						}
					}
					want := "nil (idempotent delete)"
					if wantNotExist {
						want = "os.ErrNotExist"
					}
					if bad != "" {
						c.R.Bad("R-results", fk+"|"+name, fk, c.P.Pos(cl.Pos()), "on the "+name+" edge the transaction "+bad+" instead of "+want)
					} else {
						c.R.Ok("R-results", fk+"|"+name, fk, c.P.Pos(cl.Pos()), "the "+name+" edge returns "+want)
					}
				}
				if v == "Load" {
					// corrupt entry discarded
					var um *ssa.Call
					Calls(cl, func(cc ssa.CallInstruction) {
						if call, ok := cc.(*ssa.Call); ok && ir.CallName(call) == "encoding/json.Unmarshal" {
							um = call
						}
					})
					if um == nil {
						c.R.Bad("R-results", fk+"|corrupt-discarded", fk, c.P.Pos(cl.Pos()), "Load does not decode with json.Unmarshal inside the transaction")
					} else {
						es := nilEdges(cl, um, true)
						isDel := func(ins ssa.Instruction) bool {
							call, ok := ins.(*ssa.Call)
							return ok && boltOpKind(call) == "Delete"
						}
						rets := returnsFrom(edgeStarts(es), ir.Search{StopInstr: isDel})
						if len(es) == 0 || len(rets) > 0 {
							c.R.Bad("R-results", fk+"|corrupt-discarded", fk, c.P.Pos(um.Pos()), "after a failed json.Unmarshal the transaction can return without deleting the undecodable entry")
						} else {
							c.R.Ok("R-results", fk+"|corrupt-discarded", fk, c.P.Pos(um.Pos()), "every path from the error edge of json.Unmarshal calls Delete(key)")
						}
						// unmarshal target is the variable the method returns
						tgt := ir.RootP(um.Call.Args[1], mi.tb.ParamCallers)
						returned := false
						for _, r := range ir.Returns(mi.fn) {
							rv := ir.Resolve(r.Results[0])
							if u, ok := rv.(*ssa.UnOp); ok && u.Op == token.MUL && (ir.Root(u.X) == tgt || u.X == tgt) {
								returned = true
							}
							if al, ok := tgt.(*ssa.Alloc); ok {
								t := tb.Of(r.Results[0], nil)
								if t.Has(func(x *ir.Term) bool { return x.Val != nil && x.Val == ssa.Value(al) }) || strings.Contains(t.String(), al.Comment) {
									returned = true
								}
							}
						}
						if returned {
							c.R.Ok("R-data", fk+"|decode-target", fk, c.P.Pos(um.Pos()), "json.Unmarshal decodes into the variable that Load returns")
						} else {
							c.R.Bad("R-data", fk+"|decode-target", fk, c.P.Pos(um.Pos()), "the decoded value is not what Load returns")
						}
					}
				}
				checkTxnReturn(mi, fk)
			}
			if mi := methods["Save"+k]; mi != nil && len(mi.ops) > 0 {
				checkTxnReturn(mi, c.FK(mi.fn))
			}
			// R-data for Save
			if mi := methods["Save"+k]; mi != nil {
				fk := c.FK(mi.fn)
				for _, op := range mi.ops {
					if op.kind != "Put" {
						continue
					}
					t := mi.tb.Of(op.call.Call.Args[2], nil)
					m := t.Find(func(x *ir.Term) bool { return x.Op == "call:encoding/json.Marshal" })
					if m == nil {
						c.R.Bad("R-data", fk+"|put-value", fk, c.P.Pos(op.call.Pos()), "the stored value is not the json.Marshal of the data: "+t.String())
					} else {
						c.R.Ok("R-data", fk+"|put-value", fk, c.P.Pos(op.call.Pos()), "Put stores json.Marshal(...) of the method's data")
					}
				}
			}
		}
	}
	c.R.Require("R-bucket", 12)
	c.R.Require("R-txn", 6)
	c.R.Require("R-results", 10)
}
