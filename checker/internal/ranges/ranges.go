// Package ranges is the symbolic range analysis (E4): abstract interpretation
// over SSA ints and floats where a value is bounded below and above by finite
// sets of linear expressions over opaque symbols (SSA values the analysis does
// not look into: call results, loads, parameters).
package ranges

import (
	"fmt"
	"go/token"
	"go/types"
	"math"
	"sort"
	"strings"

	"f2gcheck/internal/ir"

	"golang.org/x/tools/go/ssa"
)

// Lin is sum(coef*sym) + C.
type Lin struct {
	Coef map[ssa.Value]int
	C    float64
}

func Konst(c float64) Lin   { return Lin{map[ssa.Value]int{}, c} }
func Sym(v ssa.Value) Lin   { return Lin{map[ssa.Value]int{v: 1}, 0} }
func (a Lin) IsConst() bool { return len(a.Coef) == 0 }

// Add returns a + s*b.
func (a Lin) Add(b Lin, s int) Lin {
	r := Lin{map[ssa.Value]int{}, a.C + float64(s)*b.C}
	for k, v := range a.Coef {
		r.Coef[k] = v
	}
	for k, v := range b.Coef {
		r.Coef[k] += s * v
		if r.Coef[k] == 0 {
			delete(r.Coef, k)
		}
	}
	return r
}
func (a Lin) Shift(c float64) Lin { r := a.Add(Konst(0), 1); r.C += c; return r }

// SymKey identifies the symbolic part.
func (a Lin) SymKey(name func(ssa.Value) string) string {
	var ks []string
	for k, v := range a.Coef {
		ks = append(ks, fmt.Sprintf("%+d*%s", v, name(k)))
	}
	sort.Strings(ks)
	return strings.Join(ks, " ")
}

func (a Lin) key() string {
	var ks []string
	for k, v := range a.Coef {
		ks = append(ks, fmt.Sprintf("%+d*%p", v, k))
	}
	sort.Strings(ks)
	return strings.Join(ks, "")
}

// AV: value >= every Lo, <= every Hi; Exact != nil means value == *Exact.
// NaN: the value may be NaN or ±Inf (floats from unknown sources).
type AV struct {
	Lo, Hi []Lin
	Exact  *Lin
	NaN    bool
}

func exactAV(l Lin) AV { return AV{Lo: []Lin{l}, Hi: []Lin{l}, Exact: &l} }
func constAV(lo, hi float64) AV {
	return AV{Lo: []Lin{Konst(lo)}, Hi: []Lin{Konst(hi)}}
}
func top() AV { return AV{} }

func tighten(bs []Lin, upper bool) map[string]Lin {
	m := map[string]Lin{}
	for _, b := range bs {
		k := b.key()
		if o, ok := m[k]; !ok || (upper && b.C < o.C) || (!upper && b.C > o.C) {
			m[k] = b
		}
	}
	return m
}

func join(as []AV) AV {
	if len(as) == 0 {
		return top()
	}
	r := AV{}
	los := tighten(as[0].Lo, false)
	his := tighten(as[0].Hi, true)
	r.NaN = as[0].NaN
	for _, a := range as[1:] {
		r.NaN = r.NaN || a.NaN
		l2 := tighten(a.Lo, false)
		h2 := tighten(a.Hi, true)
		for k, v := range los {
			if w, ok := l2[k]; ok {
				if w.C < v.C {
					los[k] = w
				}
			} else {
				delete(los, k)
			}
		}
		for k, v := range his {
			if w, ok := h2[k]; ok {
				if w.C > v.C {
					his[k] = w
				}
			} else {
				delete(his, k)
			}
		}
	}
	for _, v := range los {
		r.Lo = append(r.Lo, v)
	}
	for _, v := range his {
		r.Hi = append(r.Hi, v)
	}
	if len(as) == 1 {
		r.Exact = as[0].Exact
	} else {
		same := as[0].Exact != nil
		for _, a := range as[1:] {
			if a.Exact == nil || !same || a.Exact.key() != as[0].Exact.key() || a.Exact.C != as[0].Exact.C {
				same = false
			}
		}
		if same {
			r.Exact = as[0].Exact
		}
	}
	return r
}

// ConstBounds returns the tightest constant bounds.
func (a AV) ConstBounds() (lo, hi float64, okLo, okHi bool) {
	l, h := tighten(a.Lo, false), tighten(a.Hi, true)
	cl, ok1 := l[""]
	ch, ok2 := h[""]
	return cl.C, ch.C, ok1, ok2
}

// An analyses one function.
type An struct {
	Fn   *ssa.Function
	Hyps []string
	Name func(ssa.Value) string
	// Assume gives the assumed range of an opaque value (assume/guarantee on interface calls).
	Assume func(v ssa.Value) (AV, bool)
	// Inline decides whether a static repository callee is evaluated in place.
	Inline func(*ssa.Function) bool
	// OpaqueFloatMayBeNaN: floats from unknown sources carry the NaN flag.
	OpaqueFloatMayBeNaN bool
	// AssumeNegativeDiff flips the case split of the r*(X-Y) rule: the hypothesis is X-Y <= 0
	// and the product lies in [X-Y, 0] (used to prove both halves of a convex combination).
	AssumeNegativeDiff bool
	// NonNegative reports symbols known to be >= 0 by a separately verified invariant.
	NonNegative func(ssa.Value) bool

	params   map[*ssa.Parameter]AV
	lenSym   map[ssa.Value]ssa.Value
	depth    int
	visiting map[ssa.Value]bool
	parent   *An
}

func New(fn *ssa.Function) *An {
	return &An{Fn: fn, visiting: map[ssa.Value]bool{}, Name: func(v ssa.Value) string { return v.Name() }}
}

func isInt(t types.Type) bool {
	b, ok := t.Underlying().(*types.Basic)
	return ok && b.Info()&types.IsInteger != 0
}
func isFloat(t types.Type) bool {
	b, ok := t.Underlying().(*types.Basic)
	return ok && b.Info()&types.IsFloat != 0
}

func (an *An) hyp(s string) {
	root := an
	for root.parent != nil {
		root = root.parent
	}
	for _, h := range root.Hyps {
		if h == s {
			return
		}
	}
	root.Hyps = append(root.Hyps, s)
}

// LinString renders a linear expression with symbol names.
func (an *An) LinString(l Lin) string {
	s := l.SymKey(an.Name)
	if s == "" {
		return fmt.Sprintf("%g", l.C)
	}
	if l.C == 0 {
		return s
	}
	return fmt.Sprintf("%s %+g", s, l.C)
}

func (an *An) AVString(a AV) string {
	var lo, hi []string
	for _, l := range a.Lo {
		lo = append(lo, an.LinString(l))
	}
	for _, h := range a.Hi {
		hi = append(hi, an.LinString(h))
	}
	sort.Strings(lo)
	sort.Strings(hi)
	s := "lo{" + strings.Join(lo, "; ") + "} hi{" + strings.Join(hi, "; ") + "}"
	if a.NaN {
		s += " may-be-NaN"
	}
	return s
}

// Eval evaluates v under the given facts (which must hold at the point of use).
func (an *An) Eval(v ssa.Value, facts []ir.Fact) AV {
	an.depth++
	defer func() { an.depth-- }()
	if an.depth > 80 {
		return an.opaque(v)
	}
	v = ir.Resolve(v)
	base := an.base(v, facts)
	return an.refine(v, base, facts)
}

func (an *An) opaque(v ssa.Value) AV {
	if an.Assume != nil {
		if a, ok := an.Assume(v); ok {
			// keep the symbol identity as well
			e := exactAV(Sym(v))
			e.Lo = append(e.Lo, a.Lo...)
			e.Hi = append(e.Hi, a.Hi...)
			e.NaN = a.NaN
			return e
		}
	}
	a := exactAV(Sym(v))
	if an.NonNegative != nil && an.NonNegative(v) {
		a.Lo = append(a.Lo, Konst(0))
	}
	if isFloat(v.Type()) && an.OpaqueFloatMayBeNaN {
		a.NaN = true
	}
	return a
}

// refine adds the bounds implied by facts that mention v directly, keeping exactness.
func (an *An) refine(v ssa.Value, base AV, facts []ir.Fact) AV {
	for _, f := range facts {
		if f.Op == token.ILLEGAL {
			continue
		}
		op := f.Op
		var other ssa.Value
		if sameValue(f.X, v) {
			other = f.Y
		} else if sameValue(f.Y, v) {
			other = f.X
			op = ir.Flip(op)
		} else {
			continue
		}
		if !isInt(v.Type()) && !isFloat(v.Type()) {
			continue
		}
		oa := an.base(ir.Resolve(other), nil)
		d := 0.0
		if isInt(v.Type()) {
			d = 1
		}
		// a comparison that holds implies neither side is NaN
		switch op {
		case token.LSS:
			for _, h := range oa.Hi {
				base.Hi = append(base.Hi, h.Shift(-d))
			}
			base.NaN = false
		case token.LEQ:
			base.Hi = append(base.Hi, oa.Hi...)
			base.NaN = false
		case token.GTR:
			for _, l := range oa.Lo {
				base.Lo = append(base.Lo, l.Shift(d))
			}
			base.NaN = false
		case token.GEQ:
			base.Lo = append(base.Lo, oa.Lo...)
			base.NaN = false
		case token.EQL:
			base.Lo = append(base.Lo, oa.Lo...)
			base.Hi = append(base.Hi, oa.Hi...)
			if oa.Exact != nil && base.Exact == nil {
				base.Exact = oa.Exact
			}
			base.NaN = false
		}
	}
	return base
}

func (an *An) base(v ssa.Value, facts []ir.Fact) AV {
	switch x := v.(type) {
	case *ssa.Const:
		if f, ok := ir.ConstFloat(x); ok {
			return exactAV(Konst(f))
		}
		return an.opaque(v)
	case *ssa.Parameter:
		if an.params != nil {
			if a, ok := an.params[x]; ok {
				return a
			}
		}
		return an.opaque(v)
	case *ssa.Phi:
		if an.visiting[v] {
			return top()
		}
		an.visiting[v] = true
		defer delete(an.visiting, v)
		var indep []AV
		var selfs []selfEdge
		for i, e := range x.Edges {
			pred := x.Block().Preds[i]
			fs := append([]ir.Fact{}, ir.BlockFacts(pred)...)
			for si, s := range pred.Succs {
				if s == x.Block() {
					fs = append(fs, ir.EdgeFacts(pred, si)...)
				}
			}
			in, se := an.classify(e, x, fs, 0)
			indep = append(indep, in...)
			if len(se) > 0 {
				// bounds the edge's own condition puts on the incoming value (rotated loops test
				// `i+1 < n` on the back edge): usable when they are loop-invariant
				b := an.refine(ir.Resolve(e), top(), fs)
				b.Lo, b.Hi = invariantLins(b.Lo, x.Block()), invariantLins(b.Hi, x.Block())
				for k := range se {
					se[k].bound = b
				}
			}
			selfs = append(selfs, se...)
		}
		if len(selfs) == 0 {
			return join(indep)
		}
		// loop-carried value: phi = f(phi). Lower bounds of the independent edges survive when no
		// self edge can lower the value below them; symmetrically for upper bounds.
		loOK, hiOK := true, true
		loSet, hiSet := append([]AV{}, indep...), append([]AV{}, indep...)
		nan := false
		for _, a := range indep {
			nan = nan || a.NaN
		}
		for _, se := range selfs {
			switch se.kind {
			case "add":
				lo, hi, okLo, okHi := se.d.ConstBounds()
				if !(okLo && lo >= 0) {
					if len(se.bound.Lo) > 0 {
						loSet = append(loSet, AV{Lo: se.bound.Lo})
					} else {
						loOK = false
					}
				}
				if !(okHi && hi <= 0) {
					if len(se.bound.Hi) > 0 {
						hiSet = append(hiSet, AV{Hi: se.bound.Hi})
					} else {
						hiOK = false
					}
				}
				nan = nan || se.d.NaN
			case "min":
				loSet = append(loSet, se.x)
				nan = nan || se.x.NaN
			case "max":
				hiSet = append(hiSet, se.x)
				nan = nan || se.x.NaN
			}
		}
		r := AV{NaN: nan}
		if loOK {
			r.Lo = join(loSet).Lo
		}
		if hiOK {
			r.Hi = join(hiSet).Hi
		}
		return r
	case *ssa.Convert:
		in := an.Eval(x.X, facts)
		switch {
		case isInt(x.X.Type()) && isFloat(x.Type()):
			return in // exact for |v| < 2^53 (recorded assumption)
		case isFloat(x.X.Type()) && isInt(x.Type()):
			if in.NaN {
				return top() // int(NaN/Inf) is implementation-defined
			}
			return an.trunc(in)
		case isInt(x.X.Type()) && isInt(x.Type()):
			return in // width changes are not modelled (ints < 2^31 in this code base)
		case isFloat(x.X.Type()) && isFloat(x.Type()):
			in.Exact = nil
			return in // float32 rounding is monotone: bounds that are float32-representable integers carry over
		}
		return an.opaque(v)
	case *ssa.ChangeType:
		return an.Eval(x.X, facts)
	case *ssa.UnOp:
		if x.Op == token.SUB {
			in := an.Eval(x.X, facts)
			r := AV{NaN: in.NaN}
			for _, h := range in.Hi {
				r.Lo = append(r.Lo, Konst(0).Add(h, -1))
			}
			for _, l := range in.Lo {
				r.Hi = append(r.Hi, Konst(0).Add(l, -1))
			}
			if in.Exact != nil {
				e := Konst(0).Add(*in.Exact, -1)
				r.Exact = &e
			}
			return r
		}
		return an.opaque(v)
	case *ssa.BinOp:
		return an.binop(x, facts)
	case *ssa.Call:
		return an.call(x, facts)
	case *ssa.Extract:
		// one result of a small repository helper that returns a tuple (value, error)
		if c, ok := x.Tuple.(*ssa.Call); ok {
			if a, ok := an.inlineResult(c, x.Index, facts); ok {
				if a.Exact != nil {
					return a
				}
				// keep the identity of the value as a symbol (facts and hypotheses may name it) and add the bounds
				e := an.opaque(v)
				e.Lo = append(e.Lo, a.Lo...)
				e.Hi = append(e.Hi, a.Hi...)
				e.NaN = e.NaN || a.NaN
				return e
			}
		}
	}
	return an.opaque(v)
}

// inlineResult evaluates result #idx of a call to an inlinable repository function in place:
// the join over its returns, with the parameters bound to the ranges of the arguments.
func (an *An) inlineResult(c *ssa.Call, idx int, facts []ir.Fact) (AV, bool) {
	args := c.Call.Args
	ci := ir.Callee(c)
	if ci.Static == nil || an.Inline == nil || !an.Inline(ci.Static) || len(ci.Static.Blocks) == 0 || ci.Closure != nil {
		return AV{}, false
	}
	if idx >= ci.Static.Signature.Results().Len() {
		return AV{}, false
	}
	for p := an; p != nil; p = p.parent {
		if p.Fn == ci.Static {
			return AV{}, false
		}
	}
	sub := New(ci.Static)
	sub.parent = an
	sub.Name, sub.Assume, sub.Inline, sub.OpaqueFloatMayBeNaN, sub.NonNegative, sub.AssumeNegativeDiff = an.Name, an.Assume, an.Inline, an.OpaqueFloatMayBeNaN, an.NonNegative, an.AssumeNegativeDiff
	sub.depth = an.depth
	sub.params = map[*ssa.Parameter]AV{}
	for i, p := range ci.Static.Params {
		if i < len(args) {
			sub.params[p] = an.Eval(args[i], facts)
		}
	}
	var as []AV
	for _, r := range ir.Returns(ci.Static) {
		if idx >= len(r.Results) {
			return AV{}, false
		}
		vias := []*ssa.BasicBlock{nil}
		if phi, ok := ir.Resolve(r.Results[idx]).(*ssa.Phi); ok && phi.Block() == r.Block() {
			vias = r.Block().Preds
		}
		for _, via := range vias {
			as = append(as, sub.Eval(ir.ResultVia(r, idx, via), FactsAt(r.Block(), via)))
		}
	}
	if len(as) == 0 {
		return AV{}, false
	}
	return join(as), true
}

func intValued(l Lin) bool {
	if l.C != math.Trunc(l.C) {
		return false
	}
	for s := range l.Coef {
		if !isInt(s.Type()) {
			// float convert of an int symbol is stored as the int symbol itself; other floats are not integer-valued
			return false
		}
	}
	return true
}

// trunc models float->int conversion (truncation toward zero) for a non-NaN value.
func (an *An) trunc(in AV) AV {
	if len(in.Lo) == 0 || len(in.Hi) == 0 {
		// a float that is not bounded on both sides may exceed the integer range:
		// the conversion result is then implementation-defined (e.g. MinInt64 on amd64)
		return top()
	}
	r := AV{}
	for _, l := range in.Lo {
		switch {
		case l.IsConst():
			r.Lo = append(r.Lo, Konst(math.Trunc(l.C)))
		case intValued(l):
			r.Lo = append(r.Lo, l)
		default:
			r.Lo = append(r.Lo, l.Shift(-1))
		}
	}
	for _, h := range in.Hi {
		switch {
		case h.IsConst():
			r.Hi = append(r.Hi, Konst(math.Trunc(h.C)))
		case intValued(h):
			r.Hi = append(r.Hi, h)
		default:
			r.Hi = append(r.Hi, h.Shift(1))
		}
	}
	if in.Exact != nil && intValued(*in.Exact) {
		r.Exact = in.Exact
	}
	return r
}

func (an *An) binop(v *ssa.BinOp, facts []ir.Fact) AV {
	if !isInt(v.Type()) && !isFloat(v.Type()) {
		return an.opaque(v)
	}
	x, y := an.Eval(v.X, facts), an.Eval(v.Y, facts)
	nan := x.NaN || y.NaN
	switch v.Op {
	case token.ADD, token.SUB:
		s := 1
		if v.Op == token.SUB {
			s = -1
		}
		r := AV{NaN: nan}
		if x.Exact != nil && y.Exact != nil {
			e := x.Exact.Add(*y.Exact, s)
			r.Exact = &e
			r.Lo = append(r.Lo, e)
			r.Hi = append(r.Hi, e)
		}
		ylo, yhi := y.Lo, y.Hi
		if s == -1 {
			ylo, yhi = y.Hi, y.Lo
		}
		for _, a := range x.Lo {
			for _, b := range ylo {
				r.Lo = append(r.Lo, a.Add(b, s))
			}
		}
		for _, a := range x.Hi {
			for _, b := range yhi {
				r.Hi = append(r.Hi, a.Add(b, s))
			}
		}
		return r
	case token.QUO:
		// division by a positive constant
		if y.Exact != nil && y.Exact.IsConst() && y.Exact.C > 0 {
			r := AV{NaN: nan}
			k := y.Exact.C
			for _, l := range x.Lo {
				if l.IsConst() {
					q := l.C / k
					if isInt(v.Type()) {
						q = math.Trunc(q)
					}
					r.Lo = append(r.Lo, Konst(q))
				}
			}
			for _, h := range x.Hi {
				if h.IsConst() {
					q := h.C / k
					if isInt(v.Type()) {
						q = math.Trunc(q)
					}
					r.Hi = append(r.Hi, Konst(q))
				}
			}
			return r
		}
		// c / v with constant c >= 0 and v >= 1 lies in [0, c]
		if x.Exact != nil && x.Exact.IsConst() && x.Exact.C >= 0 {
			if lo, _, okLo, _ := y.ConstBounds(); okLo && lo >= 1 {
				return AV{Lo: []Lin{Konst(0)}, Hi: []Lin{Konst(x.Exact.C)}, NaN: nan}
			}
		}
		// n/(X-Y) with 0 <= n <= X-Y lies in [0,1]  (X-Y > 0 established or assumed)
		if isFloat(v.Type()) && y.Exact != nil && !y.Exact.IsConst() {
			d := *y.Exact
			geZero, leD := false, false
			for _, l := range x.Lo {
				if l.IsConst() && l.C >= 0 {
					geZero = true
				}
			}
			for _, h := range x.Hi {
				diff := d.Add(h, -1) // d - h >= 0 ?
				if diff.IsConst() && diff.C >= 0 {
					leD = true
				}
			}
			if geZero && leD {
				an.hyp(an.LinString(d) + " > 0 (denominator)")
				return AV{Lo: []Lin{Konst(0)}, Hi: []Lin{Konst(1)}, NaN: nan}
			}
		}
	case token.MUL:
		// integer constant * exact linear expression
		for _, p := range [][2]AV{{x, y}, {y, x}} {
			if p[0].Exact != nil && p[0].Exact.IsConst() && p[1].Exact != nil && !p[1].Exact.IsConst() {
				k := p[0].Exact.C
				if k == math.Trunc(k) && math.Abs(k) < 1e9 {
					e := Konst(0).Add(*p[1].Exact, int(k))
					r := exactAV(e)
					r.NaN = nan
					return r
				}
			}
		}
		// constant * bounded
		for _, p := range [][2]AV{{x, y}, {y, x}} {
			if p[0].Exact != nil && p[0].Exact.IsConst() {
				k := p[0].Exact.C
				r := AV{NaN: nan}
				lo, hi, okLo, okHi := p[1].ConstBounds()
				if k >= 0 {
					if okLo {
						r.Lo = append(r.Lo, Konst(k*lo))
					}
					if okHi {
						r.Hi = append(r.Hi, Konst(k*hi))
					}
				} else {
					if okHi {
						r.Lo = append(r.Lo, Konst(k*hi))
					}
					if okLo {
						r.Hi = append(r.Hi, Konst(k*lo))
					}
				}
				if len(r.Lo)+len(r.Hi) > 0 {
					return r
				}
			}
		}
		// r in [0,1] times exact E with hypothesis E >= 0  =>  [0, E]
		for _, p := range [][2]AV{{x, y}, {y, x}} {
			lo, hi, okLo, okHi := p[0].ConstBounds()
			if okLo && okHi && lo >= 0 && hi <= 1 && p[1].Exact != nil {
				if p[1].Exact.IsConst() {
					if p[1].Exact.C >= 0 {
						return AV{Lo: []Lin{Konst(0)}, Hi: []Lin{*p[1].Exact}, NaN: nan}
					}
					continue
				}
				if an.AssumeNegativeDiff {
					an.hyp(an.LinString(*p[1].Exact) + " <= 0")
					return AV{Lo: []Lin{*p[1].Exact}, Hi: []Lin{Konst(0)}, NaN: nan}
				}
				an.hyp(an.LinString(*p[1].Exact) + " >= 0")
				return AV{Lo: []Lin{Konst(0)}, Hi: []Lin{*p[1].Exact}, NaN: nan}
			}
		}
		// two constant-bounded non-negative factors
		xl, xh, a1, a2 := x.ConstBounds()
		yl, yh, b1, b2 := y.ConstBounds()
		if a1 && a2 && b1 && b2 && xl >= 0 && yl >= 0 {
			return AV{Lo: []Lin{Konst(xl * yl)}, Hi: []Lin{Konst(xh * yh)}, NaN: nan}
		}
	}
	return an.opaque(v)
}

func (an *An) call(c *ssa.Call, facts []ir.Fact) AV {
	name := ir.CallName(c)
	args := c.Call.Args
	if name == "builtin:len" && len(args) == 1 {
		// all len() calls on the same (immutable-length) SSA value denote one symbol
		root := an
		for root.parent != nil {
			root = root.parent
		}
		if root.lenSym == nil {
			root.lenSym = map[ssa.Value]ssa.Value{}
		}
		k := ir.Resolve(args[0])
		if _, ok := root.lenSym[k]; !ok {
			root.lenSym[k] = c
		}
		a := exactAV(Sym(root.lenSym[k]))
		a.Lo = append(a.Lo, Konst(0))
		return a
	}
	switch name {
	case "math.Min", "math.Max", "builtin:min", "builtin:max":
		if len(args) == 0 {
			return an.opaque(c)
		}
		isMin := name == "math.Min" || name == "builtin:min"
		r := an.Eval(args[0], facts)
		r.Exact = nil
		for _, arg := range args[1:] {
			a, b := r, an.Eval(arg, facts)
			r = AV{NaN: a.NaN || b.NaN}
			if isMin {
				// min(a,b) <= every upper bound of either; >= lower bounds common to both
				r.Hi = append(append(r.Hi, a.Hi...), b.Hi...)
				r.Lo = join([]AV{{Lo: a.Lo}, {Lo: b.Lo}}).Lo
			} else {
				r.Lo = append(append(r.Lo, a.Lo...), b.Lo...)
				r.Hi = join([]AV{{Hi: a.Hi}, {Hi: b.Hi}}).Hi
			}
		}
		return r
	case "math.Round", "math.Floor", "math.Ceil", "math.Trunc", "math.RoundToEven":
		in := an.Eval(args[0], facts)
		r := AV{NaN: in.NaN}
		for _, l := range in.Lo {
			if l.IsConst() {
				r.Lo = append(r.Lo, Konst(math.Floor(l.C)))
			} else if intValued(l) {
				r.Lo = append(r.Lo, l)
			}
		}
		for _, h := range in.Hi {
			if h.IsConst() {
				r.Hi = append(r.Hi, Konst(math.Ceil(h.C)))
			} else if intValued(h) {
				r.Hi = append(r.Hi, h)
			}
		}
		return r
	case "math.Abs":
		in := an.Eval(args[0], facts)
		r := AV{NaN: in.NaN, Lo: []Lin{Konst(0)}}
		lo, hi, a1, a2 := in.ConstBounds()
		if a1 && a2 {
			r.Hi = append(r.Hi, Konst(math.Max(math.Abs(lo), math.Abs(hi))))
		}
		return r
	}
	if ir.Callee(c).Static != nil && ir.Callee(c).Static.Signature.Results().Len() == 1 {
		if a, ok := an.inlineResult(c, 0, facts); ok {
			return a
		}
	}
	return an.opaque(c)
}

// FactsAt returns the facts holding when block b is entered through via (nil: any predecessor).
func FactsAt(b *ssa.BasicBlock, via *ssa.BasicBlock) []ir.Fact {
	fs := append([]ir.Fact{}, ir.BlockFacts(b)...)
	if via != nil {
		for si, s := range via.Succs {
			if s == b {
				fs = append(fs, ir.EdgeFacts(via, si)...)
			}
		}
		fs = append(fs, ir.BlockFacts(via)...)
	}
	return fs
}

// ProvesLE reports whether av <= target is established: some upper bound h has
// the same symbolic part as target and h.C <= target.C.
func ProvesLE(av AV, target Lin) bool {
	for _, h := range av.Hi {
		d := target.Add(h, -1)
		if d.IsConst() && d.C >= 0 {
			return true
		}
	}
	return false
}

// ProvesGE reports whether av >= target is established.
func ProvesGE(av AV, target Lin) bool {
	for _, l := range av.Lo {
		d := l.Add(target, -1)
		if d.IsConst() && d.C >= 0 {
			return true
		}
	}
	return false
}

// selfEdge describes how a loop-carried phi is updated along one back edge.
type selfEdge struct {
	kind  string // add: phi + d ; min: math.Min(phi, x) ; max: math.Max(phi, x)
	d, x  AV
	bound AV // loop-invariant bounds the edge condition puts on the incoming value
}

// invariantLins keeps the bounds whose symbols are defined outside the loop headed by hdr.
func invariantLins(ls []Lin, hdr *ssa.BasicBlock) []Lin {
	var out []Lin
	for _, l := range ls {
		ok := true
		for s := range l.Coef {
			if !invariantSym(s, hdr, 0) {
				ok = false
			}
		}
		if ok {
			out = append(out, l)
		}
	}
	return out
}

func invariantSym(s ssa.Value, hdr *ssa.BasicBlock, depth int) bool {
	switch x := s.(type) {
	case *ssa.Parameter, *ssa.Const, *ssa.Global, *ssa.FreeVar, *ssa.Function:
		return true
	case *ssa.Call:
		if ir.Callee(x).Builtin == "len" && len(x.Call.Args) == 1 && depth < 3 {
			// len symbols stand for the length of their (immutable-length) argument value
			return invariantSym(ir.Resolve(x.Call.Args[0]), hdr, depth+1)
		}
	}
	if in, ok := s.(ssa.Instruction); ok && in.Block() != nil {
		return in.Block() != hdr && in.Block().Dominates(hdr)
	}
	return false
}

// classify splits an incoming value of loop phi `phi` into values independent of
// the phi and self updates (phi + d, min(phi, x), max(phi, x)), looking through
// intermediate phis (if/else inside the loop body).
func (an *An) classify(e ssa.Value, phi *ssa.Phi, facts []ir.Fact, depth int) (indep []AV, selfs []selfEdge) {
	r := ir.Resolve(e)
	if r == ssa.Value(phi) {
		return nil, []selfEdge{{kind: "add", d: exactAV(Konst(0))}}
	}
	if depth < 4 {
		switch x := r.(type) {
		case *ssa.Phi:
			if !an.visiting[x] && x.Block() != phi.Block() {
				an.visiting[x] = true
				defer delete(an.visiting, x)
				for i, e2 := range x.Edges {
					pred := x.Block().Preds[i]
					fs := append([]ir.Fact{}, ir.BlockFacts(pred)...)
					for si, s := range pred.Succs {
						if s == x.Block() {
							fs = append(fs, ir.EdgeFacts(pred, si)...)
						}
					}
					in, se := an.classify(e2, phi, fs, depth+1)
					indep = append(indep, in...)
					selfs = append(selfs, se...)
				}
				return
			}
		case *ssa.BinOp:
			if x.Op == token.ADD || x.Op == token.SUB {
				try := func(self, other ssa.Value, sign int) bool {
					in, se := an.classify(self, phi, facts, depth+1)
					if len(in) != 0 || len(se) == 0 {
						return false
					}
					d := an.Eval(other, facts)
					for _, s := range se {
						if s.kind != "add" {
							return false
						}
					}
					for _, s := range se {
						nd := AV{NaN: s.d.NaN || d.NaN}
						dl, dh := d.Lo, d.Hi
						if sign < 0 {
							dl, dh = nil, nil
							for _, h := range d.Hi {
								dl = append(dl, Konst(0).Add(h, -1))
							}
							for _, l := range d.Lo {
								dh = append(dh, Konst(0).Add(l, -1))
							}
						}
						for _, a := range s.d.Lo {
							for _, b := range dl {
								nd.Lo = append(nd.Lo, a.Add(b, 1))
							}
						}
						for _, a := range s.d.Hi {
							for _, b := range dh {
								nd.Hi = append(nd.Hi, a.Add(b, 1))
							}
						}
						selfs = append(selfs, selfEdge{kind: "add", d: nd})
					}
					return true
				}
				if try(x.X, x.Y, map[bool]int{true: 1, false: -1}[x.Op == token.ADD]) {
					return
				}
				if x.Op == token.ADD && try(x.Y, x.X, 1) {
					return
				}
				selfs = nil
			}
		case *ssa.Call:
			n := ir.CallName(x)
			if (n == "math.Min" || n == "math.Max") && len(x.Call.Args) == 2 {
				for k := 0; k < 2; k++ {
					in, se := an.classify(x.Call.Args[k], phi, facts, depth+1)
					if len(in) == 0 && len(se) == 1 && se[0].kind == "add" {
						lo, hi, okLo, okHi := se[0].d.ConstBounds()
						if okLo && okHi && lo == 0 && hi == 0 {
							kind := "min"
							if n == "math.Max" {
								kind = "max"
							}
							return nil, []selfEdge{{kind: kind, x: an.Eval(x.Call.Args[1-k], facts)}}
						}
					}
				}
			}
		case *ssa.Convert:
			// int<->float conversion of the phi itself (e.g. float64(sum) is not a self edge) : fall through
		}
	}
	return []AV{an.Eval(e, facts)}, nil
}

// Enter returns an analyzer for the static repository callee of call with its
// parameters bound to the argument ranges (evaluated under facts), or nil.
func (an *An) Enter(call *ssa.Call, facts []ir.Fact) *An {
	ci := ir.Callee(call)
	if ci.Static == nil || len(ci.Static.Blocks) == 0 || ci.Closure != nil {
		return nil
	}
	for p := an; p != nil; p = p.parent {
		if p.Fn == ci.Static {
			return nil
		}
	}
	sub := New(ci.Static)
	sub.parent = an
	sub.Name, sub.Assume, sub.Inline, sub.OpaqueFloatMayBeNaN, sub.NonNegative, sub.AssumeNegativeDiff = an.Name, an.Assume, an.Inline, an.OpaqueFloatMayBeNaN, an.NonNegative, an.AssumeNegativeDiff
	sub.params = map[*ssa.Parameter]AV{}
	for i, p := range ci.Static.Params {
		if i < len(call.Call.Args) {
			sub.params[p] = an.Eval(call.Call.Args[i], facts)
		}
	}
	return sub
}

// sameValue: identical SSA values, or two constants of equal value (every use of a literal is its own
// *ssa.Const; a rotated loop tests `0 < n` before the body whose phi starts at the literal 0).
func sameValue(a, b ssa.Value) bool {
	if a == b {
		return true
	}
	ca, ok1 := a.(*ssa.Const)
	cb, ok2 := b.(*ssa.Const)
	if !ok1 || !ok2 || ca.Value == nil || cb.Value == nil {
		return false
	}
	fa, okA := ir.ConstFloat(ca)
	fb, okB := ir.ConstFloat(cb)
	return okA && okB && fa == fb
}

// Parent returns the analyser of the caller this one was entered from (nil at the top).
func (an *An) Parent() *An { return an.parent }
