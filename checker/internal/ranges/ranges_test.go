package ranges_test

import (
	"testing"

	"f2gcheck/internal/ir"
	"f2gcheck/internal/ranges"
	"f2gcheck/internal/testutil"

	"golang.org/x/tools/go/ssa"
)

const src = `package fx

import "math"

type Fan interface {
	Min() int
	Max() int
}

// good: clamp to 0..255, rescale into [min,max]
func good(f Fan, raw int) int {
	t := raw
	if t > 255 {
		t = 255
	} else if t < 0 {
		t = 0
	}
	mx := f.Max()
	mn := f.Min()
	return mn + int((float64(t)/255)*(float64(mx)-float64(mn)))
}

// bad1: clamp upper arm missing
func bad1(f Fan, raw int) int {
	t := raw
	if t < 0 {
		t = 0
	}
	mx := f.Max()
	mn := f.Min()
	return mn + int((float64(t)/255)*(float64(mx)-float64(mn)))
}

// bad2: offset added after the rescale
func bad2(f Fan, raw, off int) int {
	t := raw
	if t > 255 {
		t = 255
	} else if t < 0 {
		t = 0
	}
	mx := f.Max()
	mn := f.Min()
	return mn + int((float64(t)/255)*(float64(mx)-float64(mn))) + off
}

func sumCapped(vs []int) int {
	sum := 0
	for _, v := range vs {
		if v < 0 || v > 255 {
			continue
		}
		sum += v
	}
	return int(math.Min(255, float64(sum)))
}

func sumUncapped(vs []int) int {
	sum := 0
	for _, v := range vs {
		if v < 0 || v > 255 {
			continue
		}
		sum += v
	}
	return sum
}

func pairsRangeInt(xs []int) int {
	s := 0
	for i := range len(xs) - 1 {
		s += xs[i+1] - xs[i]
	}
	return s
}

func pairsRangeIntBad(xs []int) int {
	s := 0
	for i := range len(xs) {
		s += xs[i+1] - xs[i]
	}
	return s
}

func pairsClassic(xs []int) int {
	s := 0
	for i := 0; i < len(xs)-1; i++ {
		s += xs[i+1] - xs[i]
	}
	return s
}

func ramp(x, lo, hi float64) int {
	if x >= hi {
		return 255
	} else if x <= lo {
		return 0
	}
	return int((x - lo) / (hi - lo) * 255)
}
`

func ret(t *testing.T, f *ssa.Function) (*ranges.An, ranges.AV) {
	an := ranges.New(f)
	var as []ranges.AV
	for _, r := range ir.Returns(f) {
		vias := []*ssa.BasicBlock{nil}
		if phi, ok := ir.Resolve(r.Results[0]).(*ssa.Phi); ok && phi.Block() == r.Block() {
			vias = r.Block().Preds
		}
		for _, via := range vias {
			as = append(as, an.Eval(ir.ResultVia(r, 0, via), ranges.FactsAt(r.Block(), via)))
		}
	}
	if len(as) == 0 {
		t.Fatalf("no return in %s", f.Name())
	}
	// all returns must satisfy the bound: check each
	return an, as[0]
}

func invoke(f *ssa.Function, name string) ssa.Value {
	for _, b := range f.Blocks {
		for _, ins := range b.Instrs {
			if c, ok := ins.(*ssa.Call); ok && c.Call.IsInvoke() && c.Call.Method.Name() == name {
				return c
			}
		}
	}
	return nil
}

func TestEnvelope(t *testing.T) {
	p := testutil.Load(t, src)
	for name, want := range map[string][2]bool{"good": {true, true}, "bad1": {false, false}, "bad2": {false, false}} {
		f := p.Func(name)
		_, av := ret(t, f)
		lo := ranges.ProvesGE(av, ranges.Sym(invoke(f, "Min")))
		hi := ranges.ProvesLE(av, ranges.Sym(invoke(f, "Max")))
		if lo != want[0] || hi != want[1] {
			t.Errorf("%s: proved lower=%v upper=%v, want %v", name, lo, hi, want)
		}
	}
}

func TestLoopSum(t *testing.T) {
	p := testutil.Load(t, src)
	for name, want := range map[string]bool{"sumCapped": true, "sumUncapped": false} {
		f := p.Func(name)
		an := ranges.New(f)
		ok := true
		for _, r := range ir.Returns(f) {
			av := an.Eval(r.Results[0], ranges.FactsAt(r.Block(), nil))
			lo, hi, a, b := av.ConstBounds()
			if !(a && b && lo >= 0 && hi <= 255) {
				ok = false
			}
		}
		if ok != want {
			t.Errorf("%s: proved in [0,255] = %v, want %v", name, ok, want)
		}
	}
}

func TestRamp(t *testing.T) {
	p := testutil.Load(t, src)
	f := p.Func("ramp")
	an := ranges.New(f)
	for _, r := range ir.Returns(f) {
		av := an.Eval(r.Results[0], ranges.FactsAt(r.Block(), nil))
		lo, hi, a, b := av.ConstBounds()
		if !(a && b && lo >= 0 && hi <= 255) {
			t.Errorf("ramp return not proved in [0,255]: %s", an.AVString(av))
		}
	}
	found := false
	for _, h := range an.Hyps {
		if len(h) > 0 {
			found = true
		}
	}
	if !found {
		t.Errorf("the n/(X-Y) rule must record its hypothesis (hi - lo > 0)")
	}
}

// TestIndexInLoops: every index of the function is proved within [0, len-1] exactly for the
// well-formed loops, whatever the loop form (classic three-clause or rotated range-over-int).
func TestIndexInLoops(t *testing.T) {
	p := testutil.Load(t, src)
	for name, want := range map[string]bool{"pairsRangeInt": true, "pairsClassic": true, "pairsRangeIntBad": false} {
		f := p.Func(name)
		an := ranges.New(f)
		all, n := true, 0
		for _, b := range f.Blocks {
			for _, ins := range b.Instrs {
				ia, ok := ins.(*ssa.IndexAddr)
				if !ok {
					continue
				}
				n++
				var ln ssa.Value
				for _, b2 := range f.Blocks {
					for _, i2 := range b2.Instrs {
						if c, ok := i2.(*ssa.Call); ok && ln == nil {
							if bi, ok := c.Call.Value.(*ssa.Builtin); ok && bi.Name() == "len" {
								ln = c
							}
						}
					}
				}
				lav := an.Eval(ln, nil)
				if lav.Exact == nil {
					t.Fatalf("%s: len not symbolic", name)
				}
				av := an.Eval(ia.Index, ranges.FactsAt(b, nil))
				if !(ranges.ProvesGE(av, ranges.Konst(0)) && ranges.ProvesLE(av, lav.Exact.Shift(-1))) {
					all = false
				}
			}
		}
		if n != 2 {
			t.Fatalf("%s: %d index operations, want 2", name, n)
		}
		if all != want {
			t.Errorf("%s: all indexes proved in range = %v, want %v", name, all, want)
		}
	}
}
