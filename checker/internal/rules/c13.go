package rules

import (
	"go/token"
	"go/types"
	"sort"
	"strings"

	"f2gcheck/internal/ir"

	"golang.org/x/tools/go/ssa"
)

func init() { Registry["C13"] = c13 }

var limitFields = map[string]string{"MinPwm": "SetMinPwm", "StartPwm": "SetStartPwm", "MaxPwm": "SetMaxPwm"}

// neverStopTerm reports whether a boolean value is ShouldNeverStop() / Config.NeverStop of the receiver.
func neverStopValue(tb *ir.TB, v ssa.Value) bool {
	t := tb.Of(v, nil)
	return t.Op == "field:NeverStop" || ((strings.HasPrefix(t.Op, "invoke:") || strings.HasPrefix(t.Op, "call:")) && strings.HasSuffix(t.Op, "ShouldNeverStop"))
}

// ruleMinZero (C02(d), C13 R-min0): every Fan.GetMinPwm implementation returns
// the constant 0 on every path on which "never stop" is not established.
func (c *Ctx) ruleMinZero(rule string, tb *ir.TB) {
	n := 0
	for _, fn := range c.ImplMethods(PkgFans, "Fan", "GetMinPwm") {
		n++
		key := c.FK(fn)
		bad := ""
		for _, r := range ir.Returns(fn) {
			vias := []*ssa.BasicBlock{nil}
			if phi, ok := ir.Resolve(r.Results[0]).(*ssa.Phi); ok && phi.Block() == r.Block() {
				vias = r.Block().Preds
			}
			for _, via := range vias {
				v := ir.ResultVia(r, 0, via)
				if k, isConst := ir.ConstInt(v); isConst && k == 0 {
					continue
				}
				facts := factsAt(r.Block(), via)
				if !ir.HasBool(facts, true, func(b ssa.Value) bool { return neverStopValue(tb, b) }) {
					bad = c.P.Pos(r.Pos())
				}
			}
		}
		if bad != "" {
			c.R.Bad(rule, key, key, bad, "GetMinPwm can return a non-zero minimum on a path that did not establish ShouldNeverStop(): a fan without neverStop would get a non-zero minimum")
		} else {
			c.R.Ok(rule, key, key, c.P.Pos(fn.Pos()), "returns the constant 0 unless ShouldNeverStop()/Config.NeverStop was established true")
		}
	}
	c.R.Require(rule, 3)
	_ = n
}

func c13(c *Ctx) {
	c.R.Explanation = "C13: the override discipline, decided on the SSA of /repo. R-replace = AttachFanRpmCurveData overwrites the curve-data field (the one GetFanRpmCurveData returns) with the attached data or a copy made in the call on every path before ComputePwmBoundaries, so limits follow the data attached, not a union with earlier data. R-writers = the limit fields {MinPwm,StartPwm,MaxPwm} of every Fan implementation are stored only in composite literals (construction from the configuration) and in that type's three setters; FanConfig.{MinPwm,StartPwm,MaxPwm} are stored only in composite literals; nothing is stored *through* those pointers. R-guard = in each setter the store is reachable only across an edge establishing Config.<same field> == nil or force == true. R-force = every setter call reachable from an AttachFanRpmCurveData implementation passes the constant false, and no other call site in the repository passes a non-false force. R-min0 = every GetMinPwm implementation returns the constant 0 unless never-stop was established. R-empty = every AttachFanRpmCurveData implementation that changes limits returns a non-nil error, before touching any limit or the curve data, on the edges data == nil and len(*data) <= 0. R-wholerpm = in the boundary computation every comparison on a value read from the curve data has integer-typed operands (the statement's 'in whole RPM'). R-derive = for every effective-limit getter the boundary computation consults (an override hook such as `if fan.GetStartPwm() < 255`), every path of the attach implementation to the computation first calls the matching setter with a constant and force=false (directly or in the helper that derives the limits), so a value measured from previously attached data does not stick. Not decided: that the scan picks the right keys (functional correctness)."
	tb := ir.NewTB(c.P.IsRepoFunc, c.P.FuncKey)
	tb.InlineMaxBlocks = 0

	fanTypes := c.Impls(PkgFans, "Fan")
	isFanType := func(n *types.Named) bool {
		for _, t := range fanTypes {
			if t == n {
				return true
			}
		}
		return false
	}
	confNamed := c.Named(PkgConf, "FanConfig")

	// ---- R-writers -------------------------------------------------------------
	nw := 0
	for _, fn := range c.P.Funcs {
		Instrs(fn, func(ins ssa.Instruction) {
			st, ok := ins.(*ssa.Store)
			if !ok {
				return
			}
			// store through one of the limit pointers: *x.MinPwm = v
			if u, ok := st.Addr.(*ssa.UnOp); ok && u.Op == token.MUL {
				if fa, ok := u.X.(*ssa.FieldAddr); ok {
					owner, name, _ := ir.FieldName(fa)
					if _, isLimit := limitFields[name]; isLimit && owner != nil && (isFanType(owner) || owner == confNamed) {
						nw++
						c.R.Bad("R-writers", c.FK(fn)+"|through-pointer|"+name, c.FK(fn), c.P.Pos(st.Pos()), "a value is stored *through* the "+name+" pointer: this silently changes the configured limit shared with the configuration")
					}
				}
				return
			}
			fa, ok := st.Addr.(*ssa.FieldAddr)
			if !ok {
				return
			}
			owner, name, _ := ir.FieldName(fa)
			setter, isLimit := limitFields[name]
			if !isLimit || owner == nil {
				return
			}
			if !(isFanType(owner) || owner == confNamed) {
				return
			}
			nw++
			key := c.FK(fn) + "|" + owner.Obj().Name() + "." + name
			root := fa.X
			for {
				if inner, ok := root.(*ssa.FieldAddr); ok {
					root = inner.X
					continue
				}
				break
			}
			if _, isLit := root.(*ssa.Alloc); isLit {
				c.R.Ok("R-writers", key, c.FK(fn), c.P.Pos(st.Pos()), "composite literal (construction)")
				return
			}
			if owner == confNamed {
				c.R.Bad("R-writers", key, c.FK(fn), c.P.Pos(st.Pos()), "a configured limit (FanConfig."+name+") is overwritten at run time")
				return
			}
			if m := c.Method(owner, setter); m == fn {
				c.R.Ok("R-writers", key, c.FK(fn), c.P.Pos(st.Pos()), "store inside the setter "+setter)
			} else {
				c.R.Bad("R-writers", key, c.FK(fn), c.P.Pos(st.Pos()), owner.Obj().Name()+"."+name+" is written outside its setter "+setter+" (bypasses the configured-value guard)")
			}
		})
	}
	c.R.Require("R-writers", 3)
	c.R.Stats["limit_field_stores"] = nw

	// ---- R-guard ---------------------------------------------------------------
	ng := 0
	for _, ft := range fanTypes {
		for field, setter := range limitFields {
			fn := c.Method(ft, setter)
			if fn == nil || len(fn.Blocks) == 0 {
				continue
			}
			var stores []*ssa.Store
			Instrs(fn, func(ins ssa.Instruction) {
				if st, ok := ins.(*ssa.Store); ok {
					if fa, ok := st.Addr.(*ssa.FieldAddr); ok {
						if _, n, _ := ir.FieldName(fa); n == field {
							stores = append(stores, st)
						}
					}
				}
			})
			if len(stores) == 0 {
				continue
			}
			ng++
			key := c.FK(fn)
			if len(fn.Params) < 3 {
				c.R.Undecided("R-guard", key, key, c.P.Pos(fn.Pos()), "unexpected signature")
				continue
			}
			force := fn.Params[2]
			isCfg := func(x ssa.Value) bool {
				t := tb.Of(x, nil)
				return t.Op == "field:"+field && len(t.Args) == 1 && t.Args[0].Op == "field:Config"
			}
			// a boolean helper that can only say yes when (its force argument) or (its configured argument == nil)
			guardHelper := func(v ssa.Value) bool {
				call, ok := v.(*ssa.Call)
				if !ok {
					return false
				}
				h := ir.Callee(call).Static
				if h == nil || len(h.Blocks) == 0 || len(h.Blocks) > 8 || h.Signature.Results().Len() != 1 || call.Call.IsInvoke() {
					return false
				}
				var forceP, cfgP *ssa.Parameter
				for i, a := range call.Call.Args {
					if i >= len(h.Params) {
						break
					}
					if ir.Resolve(a) == ssa.Value(force) {
						forceP = h.Params[i]
					} else if isCfg(a) {
						cfgP = h.Params[i]
					}
				}
				if forceP == nil && cfgP == nil {
					return false
				}
				yes := false
				ir.Search{StopEdge: func(b *ssa.BasicBlock, si int) bool {
					fs := ir.EdgeFacts(b, si)
					if forceP != nil && ir.HasBool(fs, true, func(x ssa.Value) bool { return x == ssa.Value(forceP) }) {
						return true
					}
					return cfgP != nil && ir.HasFact(fs, token.EQL, func(x, y ssa.Value) bool { return x == ssa.Value(cfgP) && ir.IsNilConst(y) })
				}}.Reach([]ir.Point{{Block: h.Blocks[0]}}, func(ins ssa.Instruction, via *ssa.BasicBlock) {
					if rt, ok := ins.(*ssa.Return); ok {
						rv := ir.ResultVia(rt, 0, via)
						// look through negations and pick the definition that arrives over this edge:
						// `return !(cfg != nil && !force)` is NOT(phi(false, !force))
						pol := true
						for depth := 0; depth < 6; depth++ {
							if u, isNot := rv.(*ssa.UnOp); isNot && u.Op == token.NOT {
								rv, pol = u.X, !pol
								continue
							}
							if phi, isPhi := rv.(*ssa.Phi); isPhi && via != nil && phi.Block() == rt.Block() {
								sel := ssa.Value(nil)
								for i, p := range phi.Block().Preds {
									if p == via {
										sel = phi.Edges[i]
									}
								}
								if sel != nil {
									rv = sel
									continue
								}
							}
							break
						}
						k, isConst := ir.ConstBool(rv)
						if isConst && !pol {
							k = !k
						}
						if !isConst || k {
							// a non-constant result may still be exactly one of the admitted tests
							if !isConst {
								for _, f := range ir.CondFacts(rv, pol) {
									if forceP != nil && f.Bool != nil && f.Truth && f.Bool == ssa.Value(forceP) {
										return
									}
									if cfgP != nil && f.Op == token.EQL && f.X == ssa.Value(cfgP) && ir.IsNilConst(f.Y) {
										return
									}
								}
							}
							yes = true
						}
					}
				})
				return !yes
			}
			allow := func(b *ssa.BasicBlock, si int) bool {
				fs := ir.EdgeFacts(b, si)
				if ir.HasBool(fs, true, func(v ssa.Value) bool { return v == ssa.Value(force) || guardHelper(v) }) {
					return true
				}
				return ir.HasFact(fs, token.EQL, func(x, y ssa.Value) bool {
					if !ir.IsNilConst(y) {
						return false
					}
					t := tb.Of(x, nil)
					return t.Op == "field:"+field && len(t.Args) == 1 && t.Args[0].Op == "field:Config"
				})
			}
			reached := false
			ir.Search{StopEdge: allow}.Reach([]ir.Point{{Block: fn.Blocks[0]}}, func(ins ssa.Instruction, _ *ssa.BasicBlock) {
				for _, st := range stores {
					if ins == ssa.Instruction(st) {
						reached = true
					}
				}
			})
			if reached {
				c.R.Bad("R-guard", key, key, c.P.Pos(stores[0].Pos()), "the limit "+field+" can be overwritten on a path that established neither Config."+field+" == nil nor force: a configured value is replaced by a measured one")
			} else {
				c.R.Ok("R-guard", key, key, c.P.Pos(stores[0].Pos()), "store reachable only across Config."+field+" == nil or force == true")
			}
			// the stored value is the parameter
			for _, st := range stores {
				if al, ok := ir.Resolve(st.Val).(*ssa.Alloc); ok {
					okv := false
					for _, s2 := range ir.StoresTo(al) {
						if ir.Resolve(s2.Val) == ssa.Value(fn.Params[1]) {
							okv = true
						}
					}
					if !okv {
						c.R.Bad("R-guard", key+"|value", key, c.P.Pos(st.Pos()), "the setter does not store its pwm parameter")
					}
				}
			}
		}
	}
	if ng == 0 {
		c.R.Undecided("R-guard", "no-setter", "Fan setters", "-", "no setter stores a limit field (anchor unresolved)")
	}
	c.R.Require("R-guard", 3)

	// ---- R-force ---------------------------------------------------------------
	isSetterCall := func(cc ssa.CallInstruction) (string, bool) {
		for _, s := range limitFields {
			if isFanInvoke(cc, s) {
				return s, true
			}
			if st := ir.Callee(cc).Static; st != nil && st.Name() == s && st.Signature.Recv() != nil {
				if n := ir.NamedOf(st.Signature.Recv().Type()); n != nil && isFanType(n) {
					return s, true
				}
			}
		}
		return "", false
	}
	attachTree := map[*ssa.Function]bool{}
	for _, a := range c.ImplMethods(PkgFans, "Fan", "AttachFanRpmCurveData") {
		for f := range c.Closure([]*ssa.Function{a}, false, nil) {
			attachTree[f] = true
		}
	}
	nf := 0
	for _, fn := range c.P.Funcs {
		Calls(fn, func(cc ssa.CallInstruction) {
			s, ok := isSetterCall(cc)
			if !ok {
				return
			}
			nf++
			args := cc.Common().Args
			forceArg := args[len(args)-1]
			b, isConst := ir.ConstBool(forceArg)
			key := c.FK(fn) + "|" + s
			switch {
			case isConst && !b:
				where := "call passes force=false"
				if attachTree[fn] {
					where += " (in the AttachFanRpmCurveData call tree)"
				}
				c.R.Ok("R-force", key, c.FK(fn), c.P.Pos(cc.Pos()), where)
			case attachTree[fn]:
				c.R.Bad("R-force", key, c.FK(fn), c.P.Pos(cc.Pos()), "a limit derived from measured data is applied with force != false: it replaces a configured "+strings.TrimPrefix(s, "Set"))
			default:
				c.R.Bad("R-force", key, c.FK(fn), c.P.Pos(cc.Pos()), "a limit setter is called with force != false outside any listed exception: a configured limit can be replaced at run time")
			}
		})
	}
	c.R.Require("R-force", 3)

	// ---- R-min0 ----------------------------------------------------------------
	c.ruleMinZero("R-min0", tb)

	// ---- R-empty ---------------------------------------------------------------
	for _, fn := range c.ImplMethods(PkgFans, "Fan", "AttachFanRpmCurveData") {
		key := c.FK(fn)
		changes := false
		isEffect := func(ins ssa.Instruction) bool {
			if cc, ok := ins.(ssa.CallInstruction); ok {
				if _, ok := isSetterCall(cc); ok {
					return true
				}
			}
			if st, ok := ins.(*ssa.Store); ok {
				if fa, ok := st.Addr.(*ssa.FieldAddr); ok {
					if n := ir.NamedOf(fa.X.Type()); n != nil && isFanType(n) {
						return true
					}
				}
			}
			// a private helper of the fan type that stores one of its fields
			if cc, ok := ins.(ssa.CallInstruction); ok {
				if cal := ir.Callee(cc).Static; cal != nil && cal != fn && load_FuncPkgPath(cal) == PkgFans && cal.Signature.Recv() != nil && len(cal.Blocks) > 0 {
					stores := false
					Instrs(cal, func(i2 ssa.Instruction) {
						if st, ok := i2.(*ssa.Store); ok {
							if fa, ok := st.Addr.(*ssa.FieldAddr); ok {
								if n := ir.NamedOf(fa.X.Type()); n != nil && isFanType(n) {
									stores = true
								}
							}
						}
					})
					return stores
				}
			}
			return false
		}
		Instrs(fn, func(ins ssa.Instruction) {
			if isEffect(ins) {
				changes = true
			}
		})
		if !changes {
			c.R.Ok("R-empty", key+"|no-effect", key, c.P.Pos(fn.Pos()), "implementation does not change limits or curve data (nothing to refuse)")
			continue
		}
		if len(fn.Params) < 2 {
			c.R.Undecided("R-empty", key, key, c.P.Pos(fn.Pos()), "unexpected signature")
			continue
		}
		data := fn.Params[1]
		tbp := ir.NewTB(c.P.IsRepoFunc, c.P.FuncKey)
		tbp.InlineMaxBlocks = 0
		tbp.ParamCallers = c.StaticCallers
		isData := func(v ssa.Value) bool {
			return v == ssa.Value(data) || ir.RootP(v, c.StaticCallers) == ssa.Value(data)
		}
		lenOfData := func(x ssa.Value) bool {
			call, isCall := x.(*ssa.Call)
			return isCall && ir.Callee(call).Builtin == "len" && tbp.Of(call.Call.Args[0], nil).Has(func(t *ir.Term) bool { return t.Val == ssa.Value(data) })
		}
		// edges establishing "data != nil" / "len(*data) > 0" (directly or through a small boolean helper)
		establishes := map[string]func(fs []ir.Fact) bool{
			"nil-data": func(fs []ir.Fact) bool {
				return ir.HasFact(fs, token.NEQ, func(x, y ssa.Value) bool { return isData(x) && ir.IsNilConst(y) })
			},
			"empty-data": func(fs []ir.Fact) bool {
				return ir.HasFact(fs, token.GTR, func(x, y ssa.Value) bool { k, ok := ir.ConstInt(y); return ok && k == 0 && lenOfData(x) }) ||
					ir.HasFact(fs, token.GEQ, func(x, y ssa.Value) bool { k, ok := ir.ConstInt(y); return ok && k == 1 && lenOfData(x) }) ||
					ir.HasFact(fs, token.NEQ, func(x, y ssa.Value) bool { k, ok := ir.ConstInt(y); return ok && k == 0 && lenOfData(x) })
			},
		}
		ei := errResultIndex(fn)
		for _, name := range []string{"nil-data", "empty-data"} {
			k := key + "|" + name
			est := establishes[name]
			found := false
			for _, b := range fn.Blocks {
				for si := range b.Succs {
					if est(ir.EdgeFacts(b, si)) {
						found = true
					}
				}
			}
			if !found {
				c.R.Bad("R-empty", k, key, c.P.Pos(fn.Pos()), "the "+name+" case is not tested before limits are derived")
				continue
			}
			// without crossing an establishing edge: no effect, no success
			bad := ""
			ir.Search{StopEdge: func(b *ssa.BasicBlock, si int) bool { return est(ir.EdgeFacts(b, si)) }}.Reach([]ir.Point{{Block: fn.Blocks[0]}}, func(ins ssa.Instruction, via *ssa.BasicBlock) {
				if isEffect(ins) {
					bad = "limits/curve data are changed at " + c.P.Pos(ins.Pos())
				}
				if r, ok := ins.(*ssa.Return); ok && ei >= 0 {
					facts := factsAt(r.Block(), via)
					if mayBeNilError(r.Results[ei], facts) && mayBeNilError(ir.ResultVia(r, ei, via), facts) {
						bad = "nil error returned at " + c.P.Pos(r.Pos())
					}
				}
			})
			if bad != "" {
				c.R.Bad("R-empty", k, key, c.P.Pos(fn.Pos()), "with "+name+" the function does not refuse: "+bad)
			} else {
				c.R.Ok("R-empty", k, key, c.P.Pos(fn.Pos()), "unless the opposite of "+name+" is established, a non-nil error is returned before any limit or the curve data is touched")
			}
		}
		// and no effect before the tests: every effect is reachable only across the negations
		early := false
		ir.Search{StopEdge: func(b *ssa.BasicBlock, si int) bool {
			fs := ir.EdgeFacts(b, si)
			return ir.HasFact(fs, token.GTR, func(x, y ssa.Value) bool {
				call, isCall := x.(*ssa.Call)
				return isCall && ir.Callee(call).Builtin == "len"
			}) || ir.HasFact(fs, token.GEQ, func(x, y ssa.Value) bool {
				call, isCall := x.(*ssa.Call)
				return isCall && ir.Callee(call).Builtin == "len"
			}) || ir.HasFact(fs, token.NEQ, func(x, y ssa.Value) bool {
				call, isCall := x.(*ssa.Call)
				k, isConst := ir.ConstInt(y)
				return isCall && ir.Callee(call).Builtin == "len" && isConst && k == 0
			})
		}}.Reach([]ir.Point{{Block: fn.Blocks[0]}}, func(ins ssa.Instruction, _ *ssa.BasicBlock) {
			if isEffect(ins) {
				early = true
			}
		})
		if early {
			c.R.Bad("R-empty", key+"|order", key, c.P.Pos(fn.Pos()), "limits or curve data can be changed before the data was established non-empty")
		} else {
			c.R.Ok("R-empty", key+"|order", key, c.P.Pos(fn.Pos()), "every change of limits/curve data is reachable only after len(*data) > 0 was established")
		}
	}
	c.R.Require("R-empty", 3)

	// ---- R-wholerpm ------------------------------------------------------------
	if fn := c.Func(PkgFans, "ComputePwmBoundaries"); fn != nil {
		n := 0
		// the computation and the helpers of the fans package it hands the curve data to (parameters resolved
		// to the caller's arguments, so the data keeps its origin GetFanRpmCurveData inside a scan helper)
		tbw := ir.NewTB(c.P.IsRepoFunc, c.P.FuncKey)
		tbw.ParamCallers = c.StaticCallers
		tb := tbw
		var scanFns []*ssa.Function
		for f := range c.Closure([]*ssa.Function{fn}, false, func(f *ssa.Function) bool { return load_FuncPkgPath(f) != PkgFans }) {
			if f.Signature.Recv() == nil || f == fn {
				scanFns = append(scanFns, f)
			}
		}
		sort.Slice(scanFns, func(i, j int) bool { return c.FK(scanFns[i]) < c.FK(scanFns[j]) })
		for _, sf := range scanFns {
			Instrs(sf, func(ins ssa.Instruction) {
				b, ok := ins.(*ssa.BinOp)
				if !ok {
					return
				}
				switch b.Op {
				case token.LSS, token.LEQ, token.GTR, token.GEQ, token.EQL, token.NEQ:
				default:
					return
				}
				fromData := func(v ssa.Value) bool {
					return tb.Of(v, nil).Has(func(t *ir.Term) bool {
						return t.Op == "lookup" && termHasCall(t, "GetFanRpmCurveData")
					})
				}
				if !fromData(b.X) && !fromData(b.Y) {
					return
				}
				n++
				key := c.FK(fn) + "|" + b.Op.String()
				if basic, ok := b.X.Type().Underlying().(*types.Basic); ok && basic.Info()&types.IsInteger != 0 {
					c.R.Ok("R-wholerpm", key, c.FK(fn), c.P.Pos(b.Pos()), "RPM comparison on whole (integer) RPM")
				} else {
					c.R.Bad("R-wholerpm", key, c.FK(fn), c.P.Pos(b.Pos()), "an RPM value read from the curve data is compared as a fraction ("+b.X.Type().String()+"): start/max PWM are documented to be decided on whole RPM")
				}
			})
		}
		if n == 0 {
			c.R.Undecided("R-wholerpm", c.FK(fn), c.FK(fn), c.P.Pos(fn.Pos()), "no comparison on curve data found in the boundary computation (anchor unresolved)")
		}
	}
	c.R.Require("R-wholerpm", 1)

	// ---- R-replace: attaching curve data replaces what the fan holds ---------------------
	// "limits follow the RPM curve" for the data attached: before the boundaries are derived, the field
	// that GetFanRpmCurveData returns is overwritten, on every path, with the parameter or with a map
	// created in this activation (a copy) - never merged into whatever the fan held before.
	nrep := 0
	for _, ft := range fanTypes {
		attach, getter := c.Method(ft, "AttachFanRpmCurveData"), c.Method(ft, "GetFanRpmCurveData")
		if attach == nil || getter == nil || len(attach.Blocks) == 0 {
			continue
		}
		var derive []ssa.Instruction
		Calls(attach, func(cc ssa.CallInstruction) {
			st := ir.Callee(cc).Static
			if st == nil {
				return
			}
			isCompute := func(c2 ssa.CallInstruction) bool {
				s2 := ir.Callee(c2).Static
				return s2 != nil && ir.FuncIs(s2, PkgFans, "ComputePwmBoundaries")
			}
			// directly, or through a helper of the fans package that derives the limits
			if ir.FuncIs(st, PkgFans, "ComputePwmBoundaries") || (load_FuncPkgPath(st) == PkgFans && c.reaches(st, isCompute)) {
				derive = append(derive, cc)
			}
		})
		if len(derive) == 0 {
			continue // implementation derives nothing from the data
		}
		nrep++
		key := c.FK(attach)
		field := ""
		for _, rt := range ir.Returns(getter) {
			if t := tb.Of(rt.Results[0], nil); strings.HasPrefix(t.Op, "field:") {
				field = strings.TrimPrefix(t.Op, "field:")
			}
		}
		if field == "" || len(attach.Params) < 2 {
			c.R.Undecided("R-replace", key, key, c.P.Pos(attach.Pos()), "curve-data field not identified from GetFanRpmCurveData (anchor unresolved)")
			continue
		}
		param := attach.Params[1]
		fresh := func(v ssa.Value) bool {
			v = ir.Resolve(v)
			if v == ssa.Value(param) {
				return true
			}
			switch x := v.(type) {
			case *ssa.Alloc:
				// &local where local is a map made here
				for _, s2 := range ir.StoresTo(x) {
					if _, ok := ir.Resolve(s2.Val).(*ssa.MakeMap); !ok {
						return false
					}
				}
				return len(ir.StoresTo(x)) > 0
			}
			return false
		}
		isReplace := func(ins ssa.Instruction) bool {
			// a private setter of the same type that always stores its parameter into the field
			if cc, ok := ins.(ssa.CallInstruction); ok {
				cal := ir.Callee(cc).Static
				if cal != nil && cal != attach && load_FuncPkgPath(cal) == PkgFans && cal.Signature.Recv() != nil && len(cal.Params) == 2 && len(cc.Common().Args) == 2 && fresh(cc.Common().Args[1]) {
					missedStore := false
					ir.Search{StopInstr: func(i2 ssa.Instruction) bool {
						st, ok := i2.(*ssa.Store)
						if !ok {
							return false
						}
						fa, ok := st.Addr.(*ssa.FieldAddr)
						if !ok {
							return false
						}
						_, n, _ := ir.FieldName(fa)
						return n == field && ir.Resolve(st.Val) == ssa.Value(cal.Params[1])
					}}.Reach([]ir.Point{{Block: cal.Blocks[0], Idx: 0}}, func(i2 ssa.Instruction, _ *ssa.BasicBlock) {
						if _, isRet := i2.(*ssa.Return); isRet {
							missedStore = true
						}
					})
					return !missedStore
				}
				return false
			}
			st, ok := ins.(*ssa.Store)
			if !ok {
				return false
			}
			fa, ok := st.Addr.(*ssa.FieldAddr)
			if !ok {
				return false
			}
			if _, n, _ := ir.FieldName(fa); n != field {
				return false
			}
			return fresh(st.Val)
		}
		missed := false
		ir.Search{StopInstr: isReplace}.Reach([]ir.Point{{Block: attach.Blocks[0], Idx: 0}}, func(ins ssa.Instruction, _ *ssa.BasicBlock) {
			for _, d := range derive {
				if ins == d {
					missed = true
				}
			}
		})
		if missed {
			c.R.Bad("R-replace", key, key, c.P.Pos(derive[0].Pos()), "the limits are derived on a path on which the fan's curve data ("+field+") was not replaced by the attached data: data already held by the fan (an earlier attach, live RPM updates) is mixed into the boundaries")
		} else {
			c.R.Ok("R-replace", key, key, c.P.Pos(derive[0].Pos()), "before ComputePwmBoundaries every path stores the attached data (the parameter or a map made in this call) into "+field)
		}
		// R-derive: the boundary computation may consult an effective limit of the fan (an override hook:
		// `if fan.GetStartPwm() < 255 { start = fan.GetStartPwm() }`). The effective limit is the configured value,
		// or - after an earlier attach - a value measured from other data. For the limits to follow the data
		// attached now, the measured value has to be forgotten first: before deriving, every path calls the matching
		// setter with a constant and force=false (which resets the limit unless it is configured).
		consulted := map[string]bool{}
		for _, d := range derive {
			for _, cal := range c.Callees(d.(ssa.CallInstruction)) {
				for f := range c.Closure([]*ssa.Function{cal}, false, func(f *ssa.Function) bool { return load_FuncPkgPath(f) != PkgFans }) {
					if f == attach {
						continue
					}
					Calls(f, func(cc ssa.CallInstruction) {
						for _, lf := range limitFields {
							getter := "G" + strings.TrimPrefix(lf, "S") // SetStartPwm -> GetStartPwm
							if isFanInvoke(cc, getter) {
								consulted[lf] = true
							}
						}
					})
				}
			}
		}
		var setterNames []string
		for lf := range consulted {
			setterNames = append(setterNames, lf)
		}
		sort.Strings(setterNames)
		for _, setter := range setterNames {
			isReset := func(ins ssa.Instruction) bool {
				cc, ok := ins.(ssa.CallInstruction)
				if !ok {
					return false
				}
				if _, isDefer := ins.(*ssa.Defer); isDefer {
					return false
				}
				isSetter := isFanInvoke(cc, setter)
				if st := ir.Callee(cc).Static; st != nil && st.Name() == setter && st.Signature.Recv() != nil {
					isSetter = true
				}
				if !isSetter {
					return false
				}
				args := cc.Common().Args
				if len(args) < 2 {
					return false
				}
				_, constVal := ir.ConstInt(ir.Resolve(args[len(args)-2]))
				force, constForce := ir.ConstBool(args[len(args)-1])
				return constVal && constForce && !force
			}
			// stale: the boundary computation is reached without a reset - in the attach itself, or (when it is
			// called through a helper) neither before the helper call nor inside the helper before the computation
			isComputeCall := func(c2 ssa.CallInstruction) bool {
				s2 := ir.Callee(c2).Static
				return s2 != nil && ir.FuncIs(s2, PkgFans, "ComputePwmBoundaries")
			}
			var staleIn func(f *ssa.Function, depth int) bool
			staleIn = func(f *ssa.Function, depth int) bool {
				if len(f.Blocks) == 0 || depth > 3 {
					return true
				}
				found := false
				ir.Search{StopInstr: isReset}.Reach([]ir.Point{{Block: f.Blocks[0], Idx: 0}}, func(ins ssa.Instruction, _ *ssa.BasicBlock) {
					cc, ok := ins.(ssa.CallInstruction)
					if !ok || found {
						return
					}
					if isComputeCall(cc) {
						found = true
						return
					}
					if st := ir.Callee(cc).Static; st != nil && st != f && load_FuncPkgPath(st) == PkgFans && c.reaches(st, isComputeCall) {
						if staleIn(st, depth+1) {
							found = true
						}
					}
				})
				return found
			}
			stale := staleIn(attach, 0)
			getter := "G" + strings.TrimPrefix(setter, "S")
			k2 := key + "|" + getter
			if stale {
				c.R.Bad("R-derive", k2, key, c.P.Pos(derive[0].Pos()), "the boundary computation consults "+getter+"() - the effective limit, which after an earlier attach is a value measured from other data - and the attach does not reset that limit ("+setter+"(<constant>, false)) before deriving: limits measured from previously attached data stick instead of following the data attached now")
			} else {
				c.R.Ok("R-derive", k2, key, c.P.Pos(derive[0].Pos()), "the limit consulted by the boundary computation through "+getter+"() is reset ("+setter+"(<constant>, false): kept only if configured) on every path before the limits are derived")
			}
		}
	}
	if nrep == 0 {
		c.R.Undecided("R-replace", "none", PkgFans, "-", "no AttachFanRpmCurveData implementation derives limits (anchor unresolved)")
	}
	c.R.Require("R-replace", 1)
}
