#!/usr/bin/env python3
"""Regenerates /verif/MANIFEST.json from the table below and `bin/f2gcheck -list`."""
import json, subprocess, sys, os
V = '/verif'
impl = subprocess.run([V + '/bin/f2gcheck', '-list'], capture_output=True, text=True).stdout.split()
META = {
 'C01': ('§4 C01', 'symbolic range analysis (abstract interpretation over SSA) + value-provenance + typestate',
         'Decides the envelope clause for every input/state: every Fan.SetPwm on the regulation path writes pwmMap[FindClosest(r, keys)] with r proved in [GetMinPwm()+offset, GetMaxPwm()] by a symbolic range analysis that treats curve value, control-loop output and RPM as unknown (so it covers all algorithms, NaN/absurd readings and histories); keys are proved recomputed after every map change; no forced SetMinPwm/SetMaxPwm/SetStartPwm on the regulation path (the limits the envelope is proved against do not move).',
         'assumes min<=max initially, PWM-map outputs in 0..255, ints < 2^53; FindClosest nearest-ness is C12 (not decided)'),
 'C02': ('§4 C02', 'symbolic range analysis + store/who-may-write rules',
         'Decides: request >= GetMinPwm()+offset on every non-error return; the offset only ever increases; the floor is raised only where request < GetMaxPwm() is established (the raised floor never passes the maximum); no forced SetMinPwm on the regulation path; the raise path returns >= stalled request + 1; non-neverStop fans have minimum 0.',
         'stall *detection* is C10; fan limits assumed 0<=min<=max<=255'),
 'C03': ('§4 C03', 'interprocedural typestate (must-pass-through) + channel typestate',
         'Decides structural necessary conditions: every return of the control goroutine and the failed-initialisation return pass through a restore that ends in a confirmed mode switch-back to the recorded non-manual mode or SetPwm(255); the mode write is read back; the signal actor cancels the shared context; the notify channel is never closed without signal.Stop; every actor of the per-fan group returns the nil constant (a non-nil actor error reaches panic(err) in the daemon wrapper before any restore); every Fan.SetPwm implementation writes to the device on every path that reports success; only one actor of the per-fan group (the one that hands the fan back) can drive the fan.',
         'driver behaviour, timing and a failing final PWM write are not decided'),
 'C04': ('§4 C04', 'units-of-measure inference (dimension type inference by unification over SSA) + value-provenance/must-pass-through rule + monotonicity abstract interpretation',
         'Decides three structural necessary conditions of "one steady target, the same for every algorithm": (R-scale) no value on the fan scale [min,max]/raw PWM is combined with, stored as, or passed for a value on the loop scale 0..255 anywhere in the controller and control-loop packages - in particular what ControlLoop.Cycle receives as current is on the same scale as its target; (R-feedback) that current value is the previous clamped result of Cycle, stored on every successful cycle; (R-clock) a loop routine that measures elapsed time against a remembered stamp refreshes the stamp on every path and is advanced only from control cycles / curve evaluations (not from constructors or start-up code); (R-ownloop) the ControlLoop handed to a controller is created per controller (not a shared package-level or cached instance whose state another fan advances); (R-mono-steady) the request is non-decreasing in the curve value through the direct loop, clamp and rescale.',
         'settling time, history independence (PID wind-up), PID within one step, equality of fixed points, the per-cycle difference bound and monotone approach are dynamics (not decided); dimension seeds are the documented meaning of the Fan/SpeedCurve/ControlLoop interfaces'),
 'C05': ('§4 C05', 'typestate + guarded-path rules + sibling term agreement',
         'Decides: every successful cycle re-asserts manual mode (guarded only by ControlMode support); the write is skipped only when a fresh successful read equals the expected value; the third-party counter is incremented only under a fresh successful read differing from the same expected-value term the writer uses and is never reset (a whole-struct store of the statistics must carry the count over); every Fan.SetPwm implementation writes to the device on every path that reports success.',
         'assumes the fan reads back what was written (quantifier)'),
 'C06': ('§4 C06', 'symbolic range analysis with assume/guarantee on SpeedCurve.Evaluate',
         'Decides only the range clause 0..255 for linear(min/max), PID, and function types sum/difference/minimum/maximum/default, plus (R-members) that a function curve evaluates every configured member (one value per entry of function.curves on every path) and (R-current) that every successful return of Evaluate is preceded by SetValue of the returned value; agreement with the documented function, delta/average/steps are not decided.',
         'assumes finite non-NaN sensor values and min<max; PidLoop.Loop assumed non-NaN'),
 'C07': ('§4 C07', 'monotonicity analysis (sign-of-dependence abstract interpretation over SSA, piecewise definitions ordered with the symbolic range analysis)',
         'Decides, per code form, that the output is non-decreasing in the designated input: linear min/max ramp in the smoothed temperature (pieces ordered around the truncated ramp), the step-form wrapper and the interpolating expression inside one segment, function curves sum/minimum/maximum/average in every member value, DirectControlLoop.Cycle in its target, the target computation (curve value -> request) and the write routine (request -> value handed to Fan.SetPwm); (R-keys) the key list a lookup table is searched with is the sorted key set of that same table; (R-skip) the write is skipped only when a fresh successful read equals the value to be written (a stale value would break monotonicity of the PWM the fan runs at in the request).',
         'between different interpolation segments and inside util.FindClosest monotonicity is a stated hypothesis (relational loop invariants; not decided); premises of the property (non-decreasing steps / PWM map, min<max) and maxPwmChangePerCycle >= 0, fan max >= min are recorded hypotheses; IEEE rounding assumed monotone'),
 'C08': ('§4 C08', 'error-propagation path rules + interprocedural taint (non-finite floats)',
         'Decides the fault clause (no Sensor.GetValue - nor util.SafeCmdExecution behind the command sensor - converts a failed read into a value or keeps the value of a failed read in a field (a cache) for later calls; the monitor never updates the average after a failed read; no value parsed by strconv.ParseFloat reaches the average without IsNaN/IsInf guards) and no implementation reads through an open handle remembered in the sensor object (every poll opens the configured source anew) and the one-step hull clause in real arithmetic (the stored average is UpdateSimpleMovingAvg(old, window, reading) of the same sensor, which is proved to lie between old average and reading for window >= 1).',
         'floating-point rounding and the geometric convergence rate are not decided'),
 'C09': ('§4 C09', 'crash-site inventory over the call graph + error-propagation/taint rules',
         'Decides: no panic / does-not-return call / unchecked error type assertion is reachable from the per-cycle entry points on an error path; curve errors are propagated; cycle errors never reach a panic or an actor return; all actor returns of the per-fan group and the sensor monitor are nil; when the control goroutine gives up on a fan every return passes the restore typestate shared with C03; the value result of a fallible library call (pointer/interface, error) is dereferenced only where that call\'s error is established nil (os.Stat after a successful EvalSymlinks with the not-found case handled is the one documented exception); (R-iodata) every index, slice expression and integer division on data that comes from a standard-library call (file contents, command output, split lines) in the functions reachable from the per-cycle entries is proved in bounds by a dominating length guard, range loop or the range analysis; (R-lastgood) a failed sensor read never reaches the moving-average update; (R-errnil) methods are invoked on error values only where they are established non-nil; (R-registered) every configured sensor/curve/fan is registered (no iteration of a registering loop is skipped); (R-kept) the value of a fallible read is kept in an object field only where its error is nil.',
         'library internals (prometheus, echo) summarised; usefulness of continued regulation not decided'),
 'C10': ('§4 C10', 'symbolic range analysis + data-flow rule on the stall predicate',
         'Decides the step/termination structure (raise by >=1 on the stall path; (R-raise) the floor-raising store/call reached from the stall edge writes offset+k, k>=1, on every path, skipping only where GetMinPwm()+offset >= GetMaxPwm() is implied by the branch; stall at max returns the sentinel error which leads to restore), the poll structure (every poll of the RPM monitor feeds a reading into the average unless the RPM read itself failed; the polling goroutine ends only with the context) and the threshold precondition (a stall test against a non-positive constant on an exponential average can never fire once the fan has spun); not the latency itself.',
         'number of polls and pacing are timing (not decided)'),
 'C11': ('§4 C11', 'partial-operation inventory + validator-obligation rules + sibling agreement',
         'Decides the crash-freedom half structurally: every configuration-dependent partial operation on the instantiate/evaluate path has a local guard or a verified validator check; factory and validator agree on backends; the run-time registries key objects by the id exactly as the validator compares it and receive every configured entry; cycle detection covers every member edge and only the own members of the curve (the edge list is not carried over from the curves listed before, which would reject acyclic configurations).',
         'acceptance semantics, Tarjan correctness and the converse (documented forms accepted) are not decided'),
 'C12': ('§4 C12', 'value-provenance + typestate (composition only)',
         'Decides the composition: written value = pwmMap[FindClosest(request, keys)], keys = sorted(ExtractKeysWithDistinctValues(pwmMap)) recomputed after every map change, argument order correct, chosen key used as map index. Every supported input reported by the extraction is a key of the map. The search itself is not decided.',
         'nearest-ness / first-key-of-run / index arithmetic of the binary search are functional (not decided)'),
 'C13': ('§4 C13', 'who-may-write + guard-dominance rules',
         'Decides the override discipline: limit fields written only by construction and the three setters; setter stores dominated by (configured==nil || force); attach passes force=false; no other forced call; empty data rejected before any store; attaching curve data overwrites the held data (parameter or a copy made in the call) on every path before the limits are derived; a limit the boundary computation consults through its getter is reset (setter with a constant, force=false) before deriving, so values measured from earlier data do not stick; non-neverStop minimum is 0.',
         'correctness of the boundary scan is functional (not decided)'),
 'C14': ('§4 C14', 'value-provenance (bucket/key terms) + transaction-structure + result-path rules',
         'Decides isolation and transaction structure: each method uses the bucket constant of its kind and the fan id as key, all bucket access inside one Update closure, ErrNotExist/Delete/nil results on the documented paths, no method reports success on a path that did not run its transaction, sibling methods agree.',
         'JSON round-trip equality, durability and SIGKILL atomicity are bbolt run-time behaviour (not decided)'),
 'C15': ('§4 C15', 'guarded-path rules',
         'Decides: the sweep is reachable from LoadFanPwmMap only across err!=nil or loaded-map==nil; a configured pwmMap returns before load and sweep; initialisation is reachable from LoadFanPwmData only across err!=nil; a measured map is saved before regulation starts; reset/init delete both entries; on the daemon path stored data is deleted only where it cannot be decoded (R-keep). The README min/max clause is a known finding.',
         'process-level behaviour of the database not decided'),
 'C16': ('§4 C16', 'flag-specialised must-lockset analysis',
         'Decides mutual exclusion by lock coverage: with runFanInitializationInParallel=false every Fan.SetPwm reachable from the analysis entry points holds the global initialisation mutex, one analysis holds it without a gap, and fan-driving work handed to a goroutine is joined (unconditional receive / WaitGroup.Wait) on every path before the spawner returns and releases the mutex.',
         'sound for mutex-based exclusion; restore path excluded'),
 'C17': ('§4 C17', 'value-provenance templates + guarded-path + crash-site rules',
         'Decides: sysfs paths are SysfsPath/fan<rpm>_input, pwm<pwm>, pwm<pwm>_enable and all HwMonFan I/O uses them; pwmChannel defaulted only when 0; index/channel compared for every candidate; no-match returns an error; a sensor index is the running position among the chip\'s temperature inputs (discovery keys the map with a counter, not with a number from the device name); no unchecked map/index/assert in binding code; no in-place filtering of a parameter device list (R-alias); every device-path field of the entry is recomputed together with the three known paths; (R-holes) the device lists of the discovery/binding packages contain no nil element (a list of pointers pre-sized with make(n) must store its slot in every iteration).',
         'regex semantics and enumeration-order independence beyond first-match not decided'),
 'C18': ('§4 C18', 'who-may-call + dominance (guarded-path) + predicate-path rules',
         'Decides the property at the level of code paths: only the checked entry point creates processes with a non-constant program; the exec call is reachable only through the nil-error edge of the permission check on the same value in the same activation (no memoisation); the check establishes uid==0, (gid==0 or no group write), no other write on the resolved file; nothing changes how the checked program string is resolved between check and start (no store to Cmd.Dir/Path/Args); (R-once) one successful check licenses one process start: after a process-creating call no further one is reachable in the same activation without crossing the nil-error edge of a new check (no retry loop around the start); the validator applies it to the config file whenever a cmd entry exists; the daemon starts only after validation.',
         'TOCTOU between check and exec is outside the statement; os/exec, os.Stat semantics trusted'),
 'C19': ('§4 C19', 'typestate on *exec.Cmd + blocking-operation and crash-site inventory + error-propagation',
         'Decides the structural preconditions of the bound: CommandContext with WithTimeout(timeout<=2s), WaitDelay set before Output, no unbounded blocking operation and no comma-less error assertion in the call tree, value results of fallible library calls used only where their error is nil, cmd.ProcessState (nil for a command that could not be started) used only under a nil test or through nil-tolerant methods, failures returned as errors, parse errors returned by the cmd fan/sensor methods; (R-iodata) command output is indexed / sliced only under a length guard in the consumers of SafeCmdExecution; (R-errnil) methods are invoked on error values only where they are established non-nil (Output() may return nil although the deadline fired); (R-unlock) a mutex taken by the command consumers is released on every path.',
         'the wall-clock bound itself is timing (not decided)'),
 'C20': ('§4 C20', 'lockset-based static race detection over a thread model',
         'Decides a may-race over-approximation: every (field, thread-class pair) with a write and no mutex held by both accesses, by at least one of them exclusively (RLock is a shared mode), is reported; today\'s pairs are recorded as known findings, any new pair is a violation.',
         'type-based object abstraction with private/shared context; only mutex synchronisation modelled'),
}
NA = {}
checks = []
na = []
for i in range(1, 21):
    pid = 'C%02d' % i
    if pid in impl and pid in META:
        ref, tech, text, note = META[pid]
        checks.append({
            'property_id': pid,
            'quick_cmd': f'bin/f2gcheck -prop {pid} -tier quick',
            'thorough_cmd': f'bin/f2gcheck -prop {pid} -tier thorough',
            'evidence_file': f'/verif/evidence/{pid}.json',
            'replay_cmd_template': 'bin/f2gcheck -explain {path}',
            'engine': 'f2gcheck',
            'level_claimed': {'category': 'other', 'text': text + ' Static analysis over the type-checked SSA of /repo: universally quantified over inputs/paths by construction, but it decides the structural clause(s) named here, not the run-time behaviour as a whole.', 'design_ref': 'DESIGN.md ' + ref},
            'level_note': note + '; trusted base: go/types, go/ssa (x/tools v0.29.0), the library summary table of DESIGN §3.2, the pure-Go gosensors stand-in (fidelity-checked each run)',
            'technique': 'static analysis: ' + tech,
        })
    elif pid in NA:
        na.append({'property_id': pid, 'reason': NA[pid]})
    else:
        na.append({'property_id': pid, 'reason': 'check designed (DESIGN.md §4) but not built yet in this commit; not claimed until it is'})
m = {
 'version': 1,
 'setup_cmd': 'cd /verif/checker && GOFLAGS=-mod=mod GOPROXY=off GOSUMDB=off GOTOOLCHAIN=local GOWORK=off go build -o ../bin/f2gcheck ./cmd/f2gcheck && GOFLAGS=-mod=mod GOPROXY=off GOSUMDB=off GOTOOLCHAIN=local GOWORK=off go test ./...',
 'hooks': {'guard': 'verif', 'enable': 'none needed: the checks read the source of /repo (go/packages + go/ssa) and never build or run it; no hook commits exist', 'baseline_off_cmd': 'cd /repo && GOFLAGS=-mod=mod GOPROXY=off GOSUMDB=off GOTOOLCHAIN=local go test -json -vet=off -count=1 -timeout 25m ./...', 'source_commits': [], 'add_only': True},
 'engines': [{'name': 'f2gcheck', 'path': 'checker/', 'serves_properties': [c['property_id'] for c in checks], 'kind_free_text': 'repository-specific static analyser (Go, x/tools go/packages + go/ssa + VTA call graph): typestate/guarded-path engine, value-provenance terms, symbolic range analysis, monotonicity analysis, units-of-measure inference, lockset analysis, crash-site inventory'}],
 'checks': checks,
 'not_applicable': na,
 'notes': 'Technique family: static analysis only. Known findings: KNOWN_FINDINGS.txt (finding:/fixed: lines). Seeded changes used to test the checks: seeded/. Repairs of genuine defects are the "fix:" commits in /repo.',
}
json.dump(m, open(V + '/MANIFEST.json', 'w'), indent=1)
print('checks:', [c['property_id'] for c in checks]); print('n/a:', [n['property_id'] for n in na])
