// Package load type-checks /repo (all packages, with the pure-Go gosensors
// stand-in substituted through a generated -modfile) and builds its SSA form.
package load

import (
	"fmt"
	"go/ast"
	"go/parser"
	"go/token"
	"go/types"
	"os"
	"path/filepath"
	"sort"
	"strings"

	"golang.org/x/tools/go/packages"
	"golang.org/x/tools/go/ssa"
	"golang.org/x/tools/go/ssa/ssautil"
)

const ModulePath = "github.com/markusressel/fan2go"

// Program is the loaded, type-checked and SSA-built repository.
type Program struct {
	RepoDir  string
	Fset     *token.FileSet
	Pkgs     []*packages.Package          // repo packages only
	ByPath   map[string]*packages.Package // import path -> package (repo only)
	SSA      *ssa.Program
	SSAPkgs  map[string]*ssa.Package // import path -> ssa package (repo only)
	AllFuncs map[*ssa.Function]bool  // every function incl. dependencies
	Funcs    []*ssa.Function         // repo functions (incl. anonymous), sorted
	Tags     string
	GOARCH   string
}

// Options of one load.
type Options struct {
	RepoDir string            // default /repo
	WorkDir string            // where alt.mod is generated (never /tmp)
	StubDir string            // directory of the gosensors stand-in module
	Tags    string            // extra build tags
	GOARCH  string            // optional
	Overlay map[string][]byte // in-memory replacement of repo files (mutant witnesses)
	Tests   bool
}

// Load loads ./... of the repository.
func Load(o Options) (*Program, error) {
	if o.RepoDir == "" {
		o.RepoDir = "/repo"
	}
	if err := os.MkdirAll(o.WorkDir, 0o755); err != nil {
		return nil, err
	}
	modfile, err := genModfile(o)
	if err != nil {
		return nil, err
	}
	env := []string{}
	for _, e := range os.Environ() {
		if strings.HasPrefix(e, "GOWORK=") || strings.HasPrefix(e, "GOFLAGS=") || strings.HasPrefix(e, "GOARCH=") {
			continue
		}
		env = append(env, e)
	}
	env = append(env, "GOWORK=off", "GOFLAGS=-mod=mod", "GOPROXY=off", "GOSUMDB=off", "GOTOOLCHAIN=local", "CGO_ENABLED=1")
	if o.GOARCH != "" {
		env = append(env, "GOARCH="+o.GOARCH, "CGO_ENABLED=0")
	}
	flags := []string{"-modfile=" + modfile}
	if o.Tags != "" {
		flags = append(flags, "-tags="+o.Tags)
	}
	cfg := &packages.Config{
		Mode:       packages.LoadAllSyntax,
		Dir:        o.RepoDir,
		BuildFlags: flags,
		Env:        env,
		Overlay:    o.Overlay,
		Tests:      o.Tests,
	}
	pkgs, err := packages.Load(cfg, "./...")
	if err != nil {
		return nil, fmt.Errorf("packages.Load: %w", err)
	}
	var errs []string
	packages.Visit(pkgs, nil, func(p *packages.Package) {
		for _, e := range p.Errors {
			errs = append(errs, e.Error())
		}
	})
	if len(errs) > 0 {
		sort.Strings(errs)
		if len(errs) > 12 {
			errs = errs[:12]
		}
		return nil, fmt.Errorf("type-check errors (fail closed):\n  %s", strings.Join(errs, "\n  "))
	}
	p := &Program{RepoDir: o.RepoDir, ByPath: map[string]*packages.Package{}, SSAPkgs: map[string]*ssa.Package{}, Tags: o.Tags, GOARCH: o.GOARCH}
	for _, pk := range pkgs {
		if pk.PkgPath == ModulePath || strings.HasPrefix(pk.PkgPath, ModulePath+"/") {
			p.Pkgs = append(p.Pkgs, pk)
			p.ByPath[pk.PkgPath] = pk
		}
	}
	if len(p.Pkgs) < 20 {
		return nil, fmt.Errorf("only %d repository packages loaded, expected >= 20 (fail closed)", len(p.Pkgs))
	}
	p.Fset = pkgs[0].Fset
	prog, _ := ssautil.AllPackages(pkgs, ssa.InstantiateGenerics)
	prog.Build()
	p.SSA = prog
	for _, sp := range prog.AllPackages() {
		if _, ok := p.ByPath[sp.Pkg.Path()]; ok {
			p.SSAPkgs[sp.Pkg.Path()] = sp
		}
	}
	p.AllFuncs = ssautil.AllFunctions(prog)
	for fn := range p.AllFuncs {
		if p.IsRepoFunc(fn) {
			p.Funcs = append(p.Funcs, fn)
		}
	}
	sort.Slice(p.Funcs, func(i, j int) bool { return p.FuncKey(p.Funcs[i]) < p.FuncKey(p.Funcs[j]) })
	if err := stubFidelity(p, o); err != nil {
		return nil, err
	}
	return p, nil
}

func genModfile(o Options) (string, error) {
	mod, err := os.ReadFile(filepath.Join(o.RepoDir, "go.mod"))
	if err != nil {
		return "", err
	}
	sum, err := os.ReadFile(filepath.Join(o.RepoDir, "go.sum"))
	if err != nil {
		return "", err
	}
	stub, err := filepath.Abs(o.StubDir)
	if err != nil {
		return "", err
	}
	alt := filepath.Join(o.WorkDir, fmt.Sprintf("alt-%d.mod", os.Getpid()))
	content := string(mod) + "\nreplace github.com/md14454/gosensors => " + stub + "\n"
	if err := os.WriteFile(alt, []byte(content), 0o644); err != nil {
		return "", err
	}
	if err := os.WriteFile(strings.TrimSuffix(alt, ".mod")+".sum", sum, 0o644); err != nil {
		return "", err
	}
	return alt, nil
}

// Cleanup removes the generated modfile of this process.
func Cleanup(workDir string) {
	base := filepath.Join(workDir, fmt.Sprintf("alt-%d", os.Getpid()))
	os.Remove(base + ".mod")
	os.Remove(base + ".sum")
}

// IsRepoFunc reports whether fn (or its outermost parent) is declared in the repository.
func (p *Program) IsRepoFunc(fn *ssa.Function) bool {
	pk := FuncPkg(fn)
	if pk == nil {
		return false
	}
	_, ok := p.ByPath[pk.Path()]
	return ok
}

// FuncPkg returns the types.Package a function belongs to (via parent / origin / receiver).
func FuncPkg(fn *ssa.Function) *types.Package {
	for fn.Parent() != nil {
		fn = fn.Parent()
	}
	if fn.Origin() != nil {
		fn = fn.Origin()
	}
	if fn.Pkg != nil {
		return fn.Pkg.Pkg
	}
	if fn.Object() != nil {
		return fn.Object().Pkg()
	}
	return nil
}

// FuncKey is a stable, line-free name for a function: pkg.(Recv).Name or parent$N.
func (p *Program) FuncKey(fn *ssa.Function) string {
	s := fn.String()
	return strings.ReplaceAll(s, ModulePath+"/", "")
}

// Pos renders a position relative to the repository.
func (p *Program) Pos(pos token.Pos) string {
	if !pos.IsValid() {
		return "-"
	}
	ps := p.Fset.Position(pos)
	f := strings.TrimPrefix(ps.Filename, p.RepoDir+"/")
	return fmt.Sprintf("%s:%d", f, ps.Line)
}

// stubFidelity parses the real gosensors.go in the module cache (AST only) and
// compares every exported declaration that the stand-in declares.
func stubFidelity(p *Program, o Options) error {
	cache := os.Getenv("GOMODCACHE")
	if cache == "" {
		home, _ := os.UserHomeDir()
		gp := os.Getenv("GOPATH")
		if gp == "" {
			gp = filepath.Join(home, "go")
		}
		cache = filepath.Join(gp, "pkg", "mod")
	}
	matches, _ := filepath.Glob(filepath.Join(cache, "github.com/md14454/gosensors@*", "gosensors.go"))
	if len(matches) == 0 {
		return fmt.Errorf("stub fidelity: real gosensors source not found in module cache %s (fail closed)", cache)
	}
	fset := token.NewFileSet()
	real, err := parser.ParseFile(fset, matches[len(matches)-1], nil, parser.SkipObjectResolution)
	if err != nil {
		return fmt.Errorf("stub fidelity: %w", err)
	}
	stubFile, err := parser.ParseFile(fset, filepath.Join(o.StubDir, "gosensors.go"), nil, parser.SkipObjectResolution)
	if err != nil {
		return fmt.Errorf("stub fidelity: %w", err)
	}
	sig := func(f *ast.File) map[string]string {
		m := map[string]string{}
		for _, d := range f.Decls {
			switch d := d.(type) {
			case *ast.FuncDecl:
				if !d.Name.IsExported() {
					continue
				}
				name := d.Name.Name
				if d.Recv != nil && len(d.Recv.List) == 1 {
					name = types.ExprString(d.Recv.List[0].Type) + "." + name
				}
				m["func "+name] = fieldTypes(d.Type.Params) + " -> " + fieldTypes(d.Type.Results)
			case *ast.GenDecl:
				for _, s := range d.Specs {
					switch s := s.(type) {
					case *ast.TypeSpec:
						if !s.Name.IsExported() {
							continue
						}
						if st, ok := s.Type.(*ast.StructType); ok {
							var fs []string
							for _, f := range st.Fields.List {
								for _, n := range f.Names {
									if n.IsExported() {
										fs = append(fs, n.Name+" "+types.ExprString(f.Type))
									}
								}
							}
							m["type "+s.Name.Name] = "struct{" + strings.Join(fs, "; ") + "}"
						} else {
							m["type "+s.Name.Name] = types.ExprString(s.Type)
						}
					case *ast.ValueSpec:
						for _, n := range s.Names {
							if n.IsExported() && d.Tok == token.CONST {
								m["const "+n.Name] = "const"
							}
						}
					}
				}
			}
		}
		return m
	}
	rs, ss := sig(real), sig(stubFile)
	var bad []string
	for k, v := range ss {
		rv, ok := rs[k]
		if !ok {
			bad = append(bad, k+": not in real package")
		} else if k[:5] != "const" && rv != v {
			bad = append(bad, fmt.Sprintf("%s: stub %q real %q", k, v, rv))
		}
	}
	// every gosensors object the repo uses must be declared identically in the real package
	used := map[string]bool{}
	for _, pk := range p.Pkgs {
		for _, obj := range pk.TypesInfo.Uses {
			if obj.Pkg() != nil && obj.Pkg().Path() == "github.com/md14454/gosensors" && obj.Exported() {
				used[obj.Name()] = true
			}
		}
	}
	for name := range used {
		found := false
		for k := range rs {
			if strings.HasSuffix(k, " "+name) || strings.HasSuffix(k, "."+name) {
				found = true
			}
		}
		if !found {
			// struct fields are listed inside the struct signature
			for _, v := range rs {
				if strings.Contains(v, name+" ") {
					found = true
				}
			}
		}
		if !found {
			bad = append(bad, "used object "+name+" not found in real gosensors")
		}
	}
	if len(bad) > 0 {
		sort.Strings(bad)
		return fmt.Errorf("stub fidelity check failed (fail closed):\n  %s", strings.Join(bad, "\n  "))
	}
	return nil
}

func fieldTypes(fl *ast.FieldList) string {
	if fl == nil {
		return "()"
	}
	var ts []string
	for _, f := range fl.List {
		n := len(f.Names)
		if n == 0 {
			n = 1
		}
		for i := 0; i < n; i++ {
			ts = append(ts, types.ExprString(f.Type))
		}
	}
	return "(" + strings.Join(ts, ",") + ")"
}
