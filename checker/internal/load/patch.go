package load

import (
	"fmt"
	"os"
	"path/filepath"
	"strconv"
	"strings"
)

// OverlayFromPatch applies a unified diff (git format) in memory to files under
// repoDir and returns the resulting contents keyed by absolute path. Nothing on
// disk is modified. Hunks must apply exactly (context and removed lines must
// match; the nearest matching position is used, as git apply does); otherwise an error is returned.
func OverlayFromPatch(repoDir, patchFile string) (map[string][]byte, error) {
	data, err := os.ReadFile(patchFile)
	if err != nil {
		return nil, err
	}
	out := map[string][]byte{}
	lines := strings.Split(string(data), "\n")
	i := 0
	for i < len(lines) {
		if !strings.HasPrefix(lines[i], "--- ") {
			i++
			continue
		}
		if i+1 >= len(lines) || !strings.HasPrefix(lines[i+1], "+++ ") {
			i++
			continue
		}
		oldName := strings.TrimPrefix(strings.Fields(lines[i])[1], "a/")
		newName := strings.TrimPrefix(strings.Fields(lines[i+1])[1], "b/")
		i += 2
		name := newName
		if newName == "/dev/null" {
			name = oldName
		}
		abs := filepath.Join(repoDir, name)
		var src []string
		if b, ok := out[abs]; ok {
			src = strings.Split(string(b), "\n")
		} else if oldName != "/dev/null" {
			b, err := os.ReadFile(filepath.Join(repoDir, oldName))
			if err != nil {
				return nil, err
			}
			src = strings.Split(string(b), "\n")
		}
		offset := 0
		for i < len(lines) && strings.HasPrefix(lines[i], "@@") {
			// @@ -a,b +c,d @@
			hdr := strings.Fields(lines[i])
			if len(hdr) < 3 {
				return nil, fmt.Errorf("bad hunk header %q", lines[i])
			}
			os_ := strings.Split(strings.TrimPrefix(hdr[1], "-"), ",")
			start, _ := strconv.Atoi(os_[0])
			i++
			var before, after []string
			for i < len(lines) && !strings.HasPrefix(lines[i], "@@") && !strings.HasPrefix(lines[i], "--- ") && !strings.HasPrefix(lines[i], "diff ") {
				l := lines[i]
				switch {
				case strings.HasPrefix(l, "+"):
					after = append(after, l[1:])
				case strings.HasPrefix(l, "-"):
					before = append(before, l[1:])
				case strings.HasPrefix(l, " "):
					before = append(before, l[1:])
					after = append(after, l[1:])
				case l == "":
					// blank context line (some tools strip the leading space) or trailing newline of the patch
					if i == len(lines)-1 {
						break
					}
					before = append(before, "")
					after = append(after, "")
				case strings.HasPrefix(l, "\\"):
				}
				i++
			}
			pos := start - 1 + offset
			if start == 0 {
				pos = 0
			}
			found := -1
			// nearest position at which the old lines match (like git apply's offset search)
			var ds []int
			for d := 0; d <= len(src); d++ {
				ds = append(ds, d)
				if d > 0 {
					ds = append(ds, -d)
				}
			}
			for _, d := range ds {
				p := pos + d
				if p < 0 || p+len(before) > len(src) {
					continue
				}
				ok := true
				for k := range before {
					if src[p+k] != before[k] {
						ok = false
						break
					}
				}
				if ok {
					found = p
					break
				}
			}
			if found < 0 {
				return nil, fmt.Errorf("hunk at %s:%d does not apply", name, start)
			}
			ns := append([]string{}, src[:found]...)
			ns = append(ns, after...)
			ns = append(ns, src[found+len(before):]...)
			offset += len(after) - len(before) + (found - pos)
			src = ns
		}
		out[abs] = []byte(strings.Join(src, "\n"))
	}
	if len(out) == 0 {
		return nil, fmt.Errorf("no file changes found in %s", patchFile)
	}
	return out, nil
}
