#!/bin/bash
# Runs every implemented check on the clean tree (expect exit 0) and against every
# seeded change / revert witness of its property (expect exit 1). Prints a matrix.
cd /verif
IMPL=$(bin/f2gcheck -list)
echo "== clean tree"
for p in $IMPL; do
  out=$(bin/f2gcheck -prop $p 2>&1); rc=$?
  echo "$p clean exit=$rc $(echo "$out" | tail -1 | sed 's/^\[[A-Z0-9]*\] //')"
done
echo "== seeds and witnesses"
for d in seeded/*/; do
  n=$(basename $d); p=${n%%-*}
  for q in $p ${EXTRA_PROPS:-}; do
  echo "$IMPL" | grep -qw $q || { echo "$n ($q) SKIP (check not built)"; continue; }
  out=$(tools/run_seed.sh $n $q 2>&1); rc=$?
  rules=$(echo "$out" | grep -oE "(VIOLATION|UNDECIDED) [A-Za-z0-9-]+" | sort -u | tr '\n' ' ')
  echo "$n ($q) exit=$rc $rules"
  done
done
for f in witness/*.patch; do
  n=$(basename $f .patch); p=$(echo $n | cut -d- -f2)
  echo "$IMPL" | grep -qw $p || { echo "$n SKIP (check not built)"; continue; }
  out=$(tools/run_patch.sh /verif/$f $p 2>&1); rc=$?
  rules=$(echo "$out" | grep -oE "(VIOLATION|UNDECIDED) [A-Za-z0-9-]+" | sort -u | tr '\n' ' ')
  echo "$n exit=$rc $rules"
done
