// Package units is a units-of-measure inference (engine E7): every numeric
// value gets a dimension vector over a small set of base units; +, -, phi,
// store/load and argument binding generate equalities, * and / add and subtract
// vectors, literals and unmodelled operations get fresh variables. The linear
// system is solved by elimination over the rationals; an equality that cannot
// hold is reported at the instruction that introduced it.
//
// Because literals and unknown sources are free variables, a conflict can only
// arise between values whose dimensions are forced by the seeds (what the
// interfaces of the program say about scales).
package units

import (
	"fmt"
	"go/token"
	"go/types"
	"math/big"
	"sort"
	"strings"

	"f2gcheck/internal/ir"

	"golang.org/x/tools/go/ssa"
)

// NBase is the number of base units.
const NBase = 2

// Dim is a dimension vector (exponents of the base units).
type Dim [NBase]*big.Rat

func zeroDim() Dim {
	var d Dim
	for i := range d {
		d[i] = new(big.Rat)
	}
	return d
}

// Base returns the dimension of base unit i.
func Base(i int) Dim {
	d := zeroDim()
	d[i].SetInt64(1)
	return d
}

func (d Dim) isZero() bool {
	for _, x := range d {
		if x.Sign() != 0 {
			return false
		}
	}
	return true
}

func (d Dim) String(names [NBase]string) string {
	var parts []string
	for i, x := range d {
		if x.Sign() == 0 {
			continue
		}
		if x.Cmp(big.NewRat(1, 1)) == 0 {
			parts = append(parts, names[i])
		} else {
			parts = append(parts, names[i]+"^"+x.RatString())
		}
	}
	if len(parts) == 0 {
		return "1"
	}
	return strings.Join(parts, "*")
}

// term: sum of coef*variable + constant dimension.
type term struct {
	coef map[int]*big.Rat
	k    Dim
}

func newTerm() term { return term{map[int]*big.Rat{}, zeroDim()} }

func constTerm(d Dim) term {
	t := newTerm()
	for i := range d {
		t.k[i].Set(d[i])
	}
	return t
}

func varTerm(v int) term {
	t := newTerm()
	t.coef[v] = big.NewRat(1, 1)
	return t
}

func (t term) clone() term {
	n := newTerm()
	for v, c := range t.coef {
		n.coef[v] = new(big.Rat).Set(c)
	}
	for i := range t.k {
		n.k[i].Set(t.k[i])
	}
	return n
}

// addScaled: t += s * u
func (t term) addScaled(u term, s *big.Rat) term {
	n := t.clone()
	for v, c := range u.coef {
		x := new(big.Rat).Mul(c, s)
		if old, ok := n.coef[v]; ok {
			x.Add(x, old)
		}
		if x.Sign() == 0 {
			delete(n.coef, v)
		} else {
			n.coef[v] = x
		}
	}
	for i := range n.k {
		n.k[i].Add(n.k[i], new(big.Rat).Mul(u.k[i], s))
	}
	return n
}

var one = big.NewRat(1, 1)
var minusOne = big.NewRat(-1, 1)

// Conflict is an equality that cannot hold.
type Conflict struct {
	Fn    *ssa.Function // the top-level function being analysed
	At    ssa.Instruction
	What  string // construct: "call Cycle arg 2", "store field lastLoopOutput", "x + y" ...
	Left  string
	Right string
}

// System is the constraint system.
type System struct {
	Names [NBase]string
	// SeedCall gives dimensions forced by a call: for each argument index (receiver excluded) and
	// each result index. Missing entries are unconstrained.
	SeedCall func(c ssa.CallInstruction) (args map[int]Dim, results map[int]Dim, ok bool)
	// SeedFunc gives dimensions forced on a function's own parameters/results (implementations of a seeded interface).
	SeedFunc func(fn *ssa.Function) (params map[int]Dim, results map[int]Dim, ok bool)
	// Instantiate decides whether a static callee is analysed per call site.
	Instantiate func(fn *ssa.Function) bool
	// SameDims lists external functions whose numeric arguments and result all share one dimension.
	SameDims func(name string) bool

	nvars     int
	subst     map[int]term // solved variables
	fieldVar  map[string]int
	Conflicts []Conflict
	NEq       int // equalities added
	NSites    int // seeded call sites seen
	curTop    *ssa.Function
}

func NewSystem() *System {
	return &System{subst: map[int]term{}, fieldVar: map[string]int{}}
}

func (s *System) fresh() int {
	s.nvars++
	return s.nvars
}

// apply substitutes solved variables.
func (s *System) apply(t term) term {
	for iter := 0; iter < 64; iter++ {
		changed := false
		for v, c := range t.coef {
			if sub, ok := s.subst[v]; ok {
				cc := new(big.Rat).Set(c)
				t = t.clone()
				delete(t.coef, v)
				t = t.addScaled(sub, cc)
				changed = true
				break
			}
		}
		if !changed {
			return t
		}
	}
	return t
}

func (s *System) render(t term) string {
	t = s.apply(t)
	if len(t.coef) == 0 {
		return t.k.String(s.Names)
	}
	return "(unconstrained)"
}

// equate adds a == b; reports a conflict at `at` when impossible.
func (s *System) equate(a, b term, at ssa.Instruction, what string) {
	s.NEq++
	e := s.apply(a.addScaled(b, minusOne))
	if len(e.coef) == 0 {
		if !e.k.isZero() {
			s.Conflicts = append(s.Conflicts, Conflict{Fn: s.curTop, At: at, What: what, Left: s.render(a), Right: s.render(b)})
		}
		return
	}
	// solve for the variable with the largest id (most recently created: keeps field/seeded variables stable)
	pick := -1
	for v := range e.coef {
		if v > pick {
			pick = v
		}
	}
	c := e.coef[pick]
	rest := e.clone()
	delete(rest.coef, pick)
	sol := newTerm().addScaled(rest, new(big.Rat).Neg(new(big.Rat).Inv(c)))
	s.subst[pick] = sol
}

// ---------------------------------------------------------------------------
// constraint generation

type frame struct {
	s      *System
	fn     *ssa.Function
	vals   map[ssa.Value]term
	depth  int
	stack  []*ssa.Function
	params map[*ssa.Parameter]term
	result []term // one per result

	callResults map[*ssa.Call][]term
	maps        map[ssa.Value][2]term
	paramMaps   map[*ssa.Parameter][2]term
}

// set records the dimension of a defined value; a placeholder handed out earlier (use before
// definition along a back edge) is equated with it.
func (f *frame) set(v ssa.Value, t term) {
	if old, ok := f.vals[v]; ok {
		if in, isInstr := v.(ssa.Instruction); isInstr {
			f.s.equate(old, t, in, "definition of "+v.Name())
		}
		return
	}
	f.vals[v] = t
}

func numeric(t types.Type) bool {
	switch u := t.Underlying().(type) {
	case *types.Basic:
		return u.Info()&(types.IsInteger|types.IsFloat) != 0
	case *types.Pointer:
		return numeric(u.Elem())
	case *types.Slice:
		return numeric(u.Elem())
	case *types.Array:
		return numeric(u.Elem())
	}
	return false
}

func fieldKey(fa *ssa.FieldAddr) string {
	owner, name, ok := ir.FieldName(fa)
	if !ok || owner == nil {
		return ""
	}
	p := ""
	if owner.Obj().Pkg() != nil {
		p = owner.Obj().Pkg().Path()
	}
	return p + "." + owner.Obj().Name() + "." + name
}

func (s *System) fieldTerm(key string) term {
	v, ok := s.fieldVar[key]
	if !ok {
		v = s.fresh()
		s.fieldVar[key] = v
	}
	return varTerm(v)
}

// AnalyseTop generates the constraints of fn analysed on its own (parameters free unless seeded).
func (s *System) AnalyseTop(fn *ssa.Function) {
	if len(fn.Blocks) == 0 {
		return
	}
	s.curTop = fn
	f := &frame{s: s, fn: fn, vals: map[ssa.Value]term{}, params: map[*ssa.Parameter]term{}, stack: []*ssa.Function{fn}}
	f.result = make([]term, fn.Signature.Results().Len())
	for i := range f.result {
		f.result[i] = varTerm(s.fresh())
	}
	if s.SeedFunc != nil {
		if ps, rs, ok := s.SeedFunc(fn); ok {
			for i, d := range ps {
				if i < len(fn.Params) {
					f.params[fn.Params[i]] = constTerm(d)
				}
			}
			for i, d := range rs {
				if i < len(f.result) {
					f.result[i] = constTerm(d)
				}
			}
		}
	}
	f.run()
}

func (f *frame) of(v ssa.Value) term {
	if t, ok := f.vals[v]; ok {
		return t
	}
	var t term
	switch x := v.(type) {
	case *ssa.Parameter:
		if pt, ok := f.params[x]; ok {
			t = pt
		} else {
			t = varTerm(f.s.fresh())
		}
	case *ssa.Convert:
		if numeric(x.X.Type()) && numeric(x.Type()) {
			t = f.of(x.X)
		} else {
			t = varTerm(f.s.fresh())
		}
	case *ssa.ChangeType:
		t = f.of(x.X)
	case *ssa.MakeInterface:
		t = f.of(x.X)
	case *ssa.FieldAddr:
		if k := fieldKey(x); k != "" {
			t = f.s.fieldTerm(k)
		} else {
			t = varTerm(f.s.fresh())
		}
	case *ssa.Field:
		t = varTerm(f.s.fresh())
	case *ssa.IndexAddr:
		t = f.of(x.X) // a collection carries the dimension of its elements
	case *ssa.Index:
		t = f.of(x.X)
	case *ssa.Slice:
		t = f.of(x.X)
	case *ssa.Global:
		t = f.s.fieldTerm("global:" + x.Pkg.Pkg.Path() + "." + x.Name())
	case *ssa.FreeVar:
		t = f.s.fieldTerm("freevar:" + x.Parent().String() + "." + x.Name())
	default:
		t = varTerm(f.s.fresh())
	}
	f.vals[v] = t
	return t
}

func (f *frame) run() {
	fn := f.fn
	s := f.s
	for _, b := range fn.Blocks {
		for _, ins := range b.Instrs {
			switch x := ins.(type) {
			case *ssa.BinOp:
				if !numeric(x.X.Type()) {
					continue
				}
				switch x.Op {
				case token.ADD, token.SUB:
					if !numeric(x.Type()) {
						continue
					}
					what := "operands of " + x.Op.String()
					s.equate(f.of(x.X), f.of(x.Y), x, what)
					f.set(x, f.of(x.X))
				case token.MUL:
					f.set(x, f.of(x.X).addScaled(f.of(x.Y), one))
				case token.QUO:
					f.set(x, f.of(x.X).addScaled(f.of(x.Y), minusOne))
				case token.REM:
					f.set(x, f.of(x.X))
				}
			case *ssa.UnOp:
				switch x.Op {
				case token.SUB:
					f.set(x, f.of(x.X))
				case token.MUL:
					if numeric(x.Type()) {
						f.set(x, f.of(x.X)) // a pointer carries the dimension of what it points to
					}
				}
			case *ssa.Phi:
				if !numeric(x.Type()) {
					continue
				}
				pt := f.of(x)
				for _, e := range x.Edges {
					s.equate(pt, f.of(e), x, "merge of definitions ("+x.Comment+")")
				}
			case *ssa.Store:
				if !numeric(x.Val.Type()) {
					continue
				}
				what := "store"
				if fa, ok := x.Addr.(*ssa.FieldAddr); ok {
					if _, n, ok := ir.FieldName(fa); ok {
						what = "store to field " + n
					}
				}
				s.equate(f.of(x.Addr), f.of(x.Val), x, what)
			case *ssa.MapUpdate:
				mk, mv := f.mapTerms(x.Map)
				if numeric(x.Key.Type()) {
					s.equate(mk, f.of(x.Key), x, "map key")
				}
				if numeric(x.Value.Type()) {
					s.equate(mv, f.of(x.Value), x, "map value")
				}
			case *ssa.Lookup:
				if _, isMap := x.X.Type().Underlying().(*types.Map); !isMap {
					continue
				}
				mk, mv := f.mapTerms(x.X)
				if numeric(x.Index.Type()) {
					s.equate(mk, f.of(x.Index), x, "map key")
				}
				f.set(x, mv)
			case *ssa.Extract:
				switch tup := x.Tuple.(type) {
				case *ssa.Lookup:
					if x.Index == 0 {
						f.set(x, f.of(tup))
					}
				case *ssa.Next:
					if rg, ok := tup.Iter.(*ssa.Range); ok {
						if _, isMap := rg.X.Type().Underlying().(*types.Map); isMap {
							mk, mv := f.mapTerms(rg.X)
							if x.Index == 1 {
								f.set(x, mk)
							} else if x.Index == 2 {
								f.set(x, mv)
							}
						}
					}
				case *ssa.Call:
					if rt, ok := f.callResults[tup]; ok && x.Index < len(rt) {
						f.set(x, rt[x.Index])
					}
				}
			case *ssa.Return:
				for i, r := range x.Results {
					if i < len(f.result) && numeric(r.Type()) {
						s.equate(f.result[i], f.of(r), x, "returned value")
					}
				}
			case ssa.CallInstruction:
				f.call(x)
			}
		}
	}
}

// map dimensions: (key, value) per map root.
func (f *frame) mapTerms(m ssa.Value) (term, term) {
	root := ir.Resolve(m)
	key := ""
	switch x := root.(type) {
	case *ssa.UnOp:
		if fa, ok := x.X.(*ssa.FieldAddr); ok {
			key = fieldKey(fa)
		} else if u2, ok := x.X.(*ssa.UnOp); ok {
			if fa, ok := u2.X.(*ssa.FieldAddr); ok {
				key = fieldKey(fa)
			}
		}
	}
	if key != "" {
		return f.s.fieldTerm(key + "#key"), f.s.fieldTerm(key + "#val")
	}
	if f.maps == nil {
		f.maps = map[ssa.Value][2]term{}
	}
	if p, ok := root.(*ssa.Parameter); ok {
		if mt, ok := f.paramMaps[p]; ok {
			return mt[0], mt[1]
		}
	}
	if t, ok := f.maps[root]; ok {
		return t[0], t[1]
	}
	t := [2]term{varTerm(f.s.fresh()), varTerm(f.s.fresh())}
	f.maps[root] = t
	return t[0], t[1]
}

func (f *frame) call(c ssa.CallInstruction) {
	s := f.s
	cc := c.Common()
	val, _ := c.(*ssa.Call)
	nres := 0
	if val != nil {
		if tup, ok := val.Type().(*types.Tuple); ok {
			nres = tup.Len()
		} else {
			nres = 1
		}
	}
	results := make([]term, nres)
	for i := range results {
		results[i] = varTerm(s.fresh())
	}
	setResults := func() {
		if val == nil {
			return
		}
		if f.callResults == nil {
			f.callResults = map[*ssa.Call][]term{}
		}
		f.callResults[val] = results
		if nres == 1 {
			f.set(val, results[0])
		}
	}
	name := ir.CallName(c)
	if s.SeedCall != nil {
		if as, rs, ok := s.SeedCall(c); ok {
			s.NSites++
			for i, d := range as {
				if i < len(cc.Args) {
					s.equate(f.of(cc.Args[i]), constTerm(d), c, fmt.Sprintf("argument %d of %s", i+1, shortName(name)))
				}
			}
			for i, d := range rs {
				if i < nres {
					results[i] = constTerm(d)
				}
			}
			setResults()
			return
		}
	}
	ci := ir.Callee(c)
	switch {
	case ci.Builtin == "append":
		if len(cc.Args) == 2 && val != nil && numeric(val.Type()) {
			s.equate(f.of(cc.Args[0]), f.of(cc.Args[1]), c, "appended elements")
			results[0] = f.of(cc.Args[0])
		}
	case ci.Builtin == "copy":
		if len(cc.Args) == 2 && numeric(cc.Args[0].Type()) {
			s.equate(f.of(cc.Args[0]), f.of(cc.Args[1]), c, "copied elements")
		}
	case ci.Builtin == "min" || ci.Builtin == "max" || (s.SameDims != nil && s.SameDims(name)):
		var first *term
		for _, a := range cc.Args {
			if !numeric(a.Type()) {
				continue
			}
			t := f.of(a)
			if first == nil {
				first = &t
			} else {
				s.equate(*first, t, c, "arguments of "+shortName(name))
			}
		}
		if first != nil && nres >= 1 {
			results[0] = *first
		}
	case ci.Static != nil && ci.Closure == nil && len(ci.Static.Blocks) > 0 && s.Instantiate != nil && s.Instantiate(ci.Static) && f.depth < 4 && !f.onStack(ci.Static):
		sub := &frame{s: s, fn: ci.Static, vals: map[ssa.Value]term{}, params: map[*ssa.Parameter]term{}, depth: f.depth + 1,
			stack: append(append([]*ssa.Function{}, f.stack...), ci.Static), paramMaps: map[*ssa.Parameter][2]term{}}
		for i, p := range ci.Static.Params {
			if i >= len(cc.Args) {
				continue
			}
			if _, isMap := p.Type().Underlying().(*types.Map); isMap {
				k, v := f.mapTerms(cc.Args[i])
				sub.paramMaps[p] = [2]term{k, v}
				continue
			}
			if numeric(p.Type()) {
				sub.params[p] = f.of(cc.Args[i])
			}
		}
		sub.result = make([]term, ci.Static.Signature.Results().Len())
		for i := range sub.result {
			if i < nres {
				sub.result[i] = results[i]
			} else {
				sub.result[i] = varTerm(s.fresh())
			}
		}
		sub.run()
	}
	setResults()
}

func (f *frame) onStack(fn *ssa.Function) bool {
	for _, x := range f.stack {
		if x == fn {
			return true
		}
	}
	return false
}

func shortName(n string) string {
	if i := strings.LastIndex(n, "/"); i >= 0 {
		n = n[i+1:]
	}
	return n
}

// FieldDims lists the solved dimensions of the field variables (for evidence).
func (s *System) FieldDims() []string {
	var out []string
	for k, v := range s.fieldVar {
		t := s.apply(varTerm(v))
		if len(t.coef) == 0 && !t.k.isZero() {
			out = append(out, k+" : "+t.k.String(s.Names))
		}
	}
	sort.Strings(out)
	return out
}
