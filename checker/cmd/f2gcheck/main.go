// f2gcheck decides the fan2go properties C01..C20 (those claimed) from the
// type-checked source of /repo, without running it.
package main

import (
	"encoding/json"
	"flag"
	"fmt"
	"os"
	"path/filepath"
	"runtime/debug"
	"sort"
	"strconv"
	"strings"
	"time"

	"f2gcheck/internal/load"
	"f2gcheck/internal/report"
	"f2gcheck/internal/rules"
)

func main() {
	prop := flag.String("prop", "", "property id (C01..C20)")
	tier := flag.String("tier", "quick", "quick|thorough")
	repo := flag.String("repo", "/repo", "repository directory")
	verif := flag.String("verif", "", "verification directory (default: parent of the binary's dir)")
	explain := flag.String("explain", "", "print a replay file")
	list := flag.Bool("list", false, "list implemented properties")
	tags := flag.String("tags", "", "extra build tags")
	dump := flag.String("dump", "", "debug: print the SSA of repository functions whose key contains this text")
	patch := flag.String("patch", "", "witness mode: analyse the repository with this unified diff applied in memory (no files are written)")
	goarch := flag.String("goarch", "", "load for this GOARCH")
	cha := flag.Bool("cha", false, "use the CHA call graph instead of VTA (audit)")
	flag.Parse()

	if *verif == "" {
		exe, _ := os.Executable()
		*verif = filepath.Dir(filepath.Dir(exe))
		if _, err := os.Stat(filepath.Join(*verif, "properties.jsonl")); err != nil {
			*verif = "/verif"
		}
	}
	if *explain != "" {
		b, err := os.ReadFile(*explain)
		if err != nil {
			fmt.Println(err)
			os.Exit(2)
		}
		var v map[string]interface{}
		json.Unmarshal(b, &v)
		out, _ := json.MarshalIndent(v, "", "  ")
		fmt.Println(string(out))
		fmt.Println("re-derive with: bin/f2gcheck -prop", v["property"], "-tier", v["tier"])
		return
	}
	if *dump != "" {
		var ov map[string][]byte
		if *patch != "" {
			var perr error
			if ov, perr = load.OverlayFromPatch(*repo, *patch); perr != nil {
				fmt.Println(perr)
				os.Exit(2)
			}
		}
		p, err := load.Load(load.Options{RepoDir: *repo, WorkDir: filepath.Join(*verif, ".work"), StubDir: filepath.Join(*verif, "checker", "stub", "gosensors"), Tags: *tags, Overlay: ov})
		load.Cleanup(filepath.Join(*verif, ".work"))
		if err != nil {
			fmt.Println(err)
			os.Exit(2)
		}
		for _, fn := range p.Funcs {
			if strings.Contains(p.FuncKey(fn), *dump) {
				fmt.Println("#", p.FuncKey(fn))
				fn.WriteTo(os.Stdout)
			}
		}
		return
	}
	if *list {
		var ids []string
		for id := range rules.Registry {
			ids = append(ids, id)
		}
		sort.Strings(ids)
		fmt.Println(strings.Join(ids, " "))
		return
	}
	if t := os.Getenv("VERIF_TIER"); t != "" && !isFlagSet("tier") {
		*tier = t
	}
	seed := 0
	if s := os.Getenv("VERIF_SEED"); s != "" {
		seed, _ = strconv.Atoi(s)
	}
	rule, ok := rules.Registry[*prop]
	if !ok {
		fmt.Printf("unknown or unclaimed property %q\n", *prop)
		os.Exit(2)
	}
	os.Exit(run(*prop, *tier, *repo, *verif, *tags, seed, rule, *patch, *goarch, *cha))
}

func isFlagSet(name string) bool {
	set := false
	flag.Visit(func(f *flag.Flag) {
		if f.Name == name {
			set = true
		}
	})
	return set
}

func run(prop, tier, repo, verif, tags string, seed int, rule rules.Rule, patch, goarch string, cha bool) (code int) {
	variant := patch != "" || goarch != "" || tags != "" || cha
	start := time.Now()
	res := report.New(prop)
	work := filepath.Join(verif, ".work")
	defer load.Cleanup(work)
	findings, err := report.LoadFindings(filepath.Join(verif, "KNOWN_FINDINGS.txt"))
	if err != nil {
		fmt.Println("cannot read known findings:", err)
		return failClosed(res, verif, tier, seed, start, findings, "known-findings file unreadable: "+err.Error())
	}
	defer func() {
		if r := recover(); r != nil {
			fmt.Printf("analysis panic (fail closed): %v\n%s\n", r, debug.Stack())
			code = failClosed(res, verif, tier, seed, start, findings, fmt.Sprintf("analysis panic: %v", r))
		}
	}()
	var overlay map[string][]byte
	if patch != "" {
		overlay, err = load.OverlayFromPatch(repo, patch)
		if err != nil {
			fmt.Println("WITNESS-RESULT status=patch-does-not-apply", err)
			return 3
		}
	}
	p, err := load.Load(load.Options{RepoDir: repo, WorkDir: work, StubDir: filepath.Join(verif, "checker", "stub", "gosensors"), Tags: tags, GOARCH: goarch, Overlay: overlay})
	if err != nil {
		fmt.Println("load failed (fail closed):", err)
		if variant {
			fmt.Println("WITNESS-RESULT status=load-failed")
			return 4
		}
		return failClosed(res, verif, tier, seed, start, findings, "load failed: "+err.Error())
	}
	fmt.Printf("[%s] loaded %d repository packages, %d repository functions (%d functions in total) in %.1fs\n",
		prop, len(p.Pkgs), len(p.Funcs), len(p.AllFuncs), time.Since(start).Seconds())
	ctx := rules.NewCtx(p, tier, res)
	ctx.UseCHA(cha)
	rule(ctx)
	if variant {
		// variant / witness run: print a machine-readable summary, write nothing
		out := res.Summarise(findings)
		if os.Getenv("F2G_DEBUG") != "" {
			for _, o := range res.Obligations {
				if o.Verdict == report.Violation || o.Verdict == report.Undecided {
					fmt.Printf("  %s %s @ %s: %s\n", o.Verdict, o.Key, o.Pos, o.Detail)
				}
			}
		}
		fmt.Printf("WITNESS-RESULT status=ok violations=%d known=%d obligations=%d rules=%s keys=%s\n", len(out.Violations), len(out.Known), len(res.Obligations), strings.Join(out.Rules, ","), strings.Join(out.Keys, ";;"))
		if len(out.Violations) > 0 {
			return 1
		}
		return 0
	}
	extra := map[string]interface{}{
		"packages_loaded":  len(p.Pkgs),
		"repo_functions":   len(p.Funcs),
		"total_functions":  len(p.AllFuncs),
		"repo_dir":         repo,
		"go_files_checked": countFiles(p),
	}
	if tier == "thorough" {
		exe, _ := os.Executable()
		th := rules.Thorough(ctx, prop, repo, verif, exe, res, findings)
		for k, v := range th {
			extra[k] = v
		}
	}
	if os.Getenv("F2G_EMIT_FINDINGS") != "" {
		// developer aid: print candidate finding lines for review (never written to the findings file)
		for _, o := range res.Obligations {
			if o.Verdict == report.Violation {
				fmt.Printf("CANDIDATE finding: property=%s key=%s :: %s\n", prop, o.Key, o.Detail)
			}
		}
	}
	out := res.Finish(verif, tier, seed, time.Since(start).Seconds(), findings, extra)
	fmt.Printf("[%s] %d obligations, %d known finding(s), %d violation(s), %.1fs\n", prop, len(res.Obligations), len(out.Known), len(out.Violations), time.Since(start).Seconds())
	return out.ExitCode
}

func countFiles(p *load.Program) int {
	n := 0
	for _, pk := range p.Pkgs {
		n += len(pk.CompiledGoFiles)
	}
	return n
}

func failClosed(res *report.Result, verif, tier string, seed int, start time.Time, findings []report.Finding, why string) int {
	res.Explanation = "the run failed before the rules could be decided: " + why
	res.Undecided("framework", "framework|load", "(framework)", "-", why)
	out := res.Finish(verif, tier, seed, time.Since(start).Seconds(), findings, nil)
	if out.ExitCode == 0 {
		return 1
	}
	return out.ExitCode
}
