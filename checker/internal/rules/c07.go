package rules

import (
	"go/token"
	"go/types"
	"strings"

	"f2gcheck/internal/ir"
	"f2gcheck/internal/mono"
	"f2gcheck/internal/ranges"

	"golang.org/x/tools/go/ssa"
)

func init() { Registry["C07"] = c07 }

// C07 - hotter never means slower. Decided with the monotonicity analysis (engine E8, package mono):
// a sign-of-dependence abstract interpretation that classifies every value as independent of /
// non-decreasing in / non-increasing in designated inputs.
func c07(c *Ctx) {
	c.R.Explanation = "C07 decided on the SSA of /repo by a monotonicity analysis (sign-of-dependence abstract interpretation, engine E8): every value is classified w.r.t. designated inputs as independent / non-decreasing / non-increasing / unknown. Arithmetic combines directions (a factor's sign comes from branch facts, the range analysis E4 or a recorded hypothesis); int/float conversions, float32 rounding, math.Round/Floor/Ceil/Min/Max keep the direction; loop-carried values by fixpoint when the trip count is input-independent; a definition chosen by an input-dependent branch is treated piecewise: each piece non-decreasing, pieces separated by opposing tests on one monotone quantity against an input-independent threshold, and sup(lower piece) <= inf(upper piece) shown by E4 (idioms: select-max/min, integer bump a/a+1). R-mono obligations: (1) linear curve: result non-decreasing in Sensor.GetMovingAvg() (min/max ramp proved piecewise; the step form through the wrapper int(math.Round(interpolate(steps, avg/1000)))); (2) inside util.CalculateInterpolatedCurveValue every input-dependent return is non-decreasing in `input` (under: keys sorted ascending, step values non-decreasing); (3) function curves sum, minimum, maximum, average non-decreasing in every member value (difference and delta are not claimed by the property); (4) DirectControlLoop.Cycle non-decreasing in target (util.Coerce analysed in place; needs maxPwmChangePerCycle >= 0); (5) the target computation: request non-decreasing in the curve value (clamp, rescale, stall bump); (6) the write routine: value handed to Fan.SetPwm non-decreasing in the request (FindClosest and the PWM-map lookup through stated premises). R-keys (shared with C12): every supported input reported by the extraction is a key of the PWM map (a phantom key would map to output 0 and break the monotone write path). NOT decided: ordering between different interpolation segments (relational loop invariant), the binary search of util.FindClosest (hypothesis), numeric agreement of values; PID algorithm and PID curves are outside the property. R-skip = the write routine skips the write only when a fresh successful read of the fan's PWM equals the value it would write (shared with C05): a write skipped on another condition leaves a stale, possibly higher value in the fan, so a rising request can lower the PWM."
	c.R.Assumptions = append(c.R.Assumptions,
		"IEEE-754 conversions and roundings are monotone; values stay far below 2^53 and the int range",
		"premises of the property itself: step sets and PWM maps are non-decreasing, linear curves have min < max",
		"hypotheses recorded per obligation (sorted keys, monotone nearest-value search, maxPwmChangePerCycle >= 0, fan max >= fan min)")
	tb := ir.NewTB(c.P.IsRepoFunc, c.P.FuncKey)
	tb.InlineMaxBlocks = 0
	tb.ParamCallers = c.StaticCallers
	tb.ParamCallersMulti = true
	c.monoCurves("R-mono", tb)
	c.monoInterpolation("R-mono", tb)
	c.monoDirectLoop("R-mono")
	c.monoRegulation("R-mono")
	c.R.Require("R-mono", 10)
	// the write routine is monotone only over real keys of the map: a reported "supported input" that is
	// not a key reads as output 0 (shared with C12 R-keys)
	c.ruleSupportedKeys("R-keys")
	// the written value is monotone in the request only if a write is never skipped while the fan holds a
	// different (stale) value: the skip condition is "fresh successful read == value to be written" (shared with C05)
	c.ruleSkip("R-skip", tb)
}

func (c *Ctx) newMono(fn *ssa.Function, tb *ir.TB) *mono.An {
	an := mono.New(fn)
	an.Name = func(v ssa.Value) string {
		s := tb.Of(v, nil).String()
		s = strings.ReplaceAll(s, M+"/internal/", "")
		if len(s) > 70 {
			s = s[:70] + "…"
		}
		return s
	}
	an.Inline = func(f *ssa.Function) bool {
		p := load_FuncPkgPath(f)
		return c.P.IsRepoFunc(f) && (p == PkgUtil || p == PkgCurves || p == PkgCtrl || p == PkgLoop) && len(f.Blocks) <= 14 &&
			!ir.FuncIs(f, PkgUtil, "FindClosest") && !ir.FuncIs(f, PkgUtil, "CalculateInterpolatedCurveValue")
	}
	an.CallSummary = func(call *ssa.Call, idx int, arg func(int) mono.Dir) (mono.Dir, bool) {
		st := ir.Callee(call).Static
		switch {
		case ir.FuncIs(st, PkgUtil, "CalculateInterpolatedCurveValue") && idx == 0:
			if arg(0) == mono.Indep && arg(1) == mono.Indep {
				an.Hyp("util.CalculateInterpolatedCurveValue is non-decreasing in its input for a non-decreasing step set (inside one segment: obligation R-mono|interpolation; between segments: not decided)")
				return arg(2), true
			}
		case ir.FuncIs(st, PkgUtil, "FindClosest") && idx == 0:
			if arg(1) == mono.Indep {
				an.Hyp("util.FindClosest(target, sorted list) is non-decreasing in target (nearest-value search; not decided here)")
				return arg(0), true
			}
		case ir.IsInvoke(call, PkgLoop, "ControlLoop", "Cycle") && idx == 0:
			if arg(0) == mono.Indep && arg(2) == mono.Indep {
				an.Hyp("ControlLoop.Cycle is non-decreasing in target (proved for the direct algorithm: obligation R-mono|DirectControlLoop.Cycle; the PID algorithm is outside the property)")
				return arg(1), true
			}
		}
		return mono.Unknown, false
	}
	an.RangesSetup = func(r *ranges.An) {
		r.Inline = func(f *ssa.Function) bool {
			p := load_FuncPkgPath(f)
			return (p == PkgUtil || p == PkgCurves) && len(f.Blocks) <= 12 && f.Name() != "Loop" && f.Name() != "CalculateInterpolatedCurveValue"
		}
		r.Assume = c.curveAssume(tb)
	}
	return an
}

// ---------------------------------------------------------------------------
// (1) + (3): curves

func (c *Ctx) monoCurves(rule string, tb *ir.TB) {
	for _, fn := range c.ImplMethods(PkgCurves, "SpeedCurve", "Evaluate") {
		fk := c.FK(fn)
		c.R.Note("functions", fk)
		ei := errResultIndex(fn)
		// what kind of curve is it? by the inputs it reads
		readsSensor, readsMembers := false, false
		Calls(fn, func(cc ssa.CallInstruction) {
			if ir.IsInvoke(cc, PkgSensors, "Sensor", "GetMovingAvg") {
				readsSensor = true
			}
			if ir.IsInvoke(cc, PkgCurves, "SpeedCurve", "Evaluate") {
				readsMembers = true
			}
			if cal := ir.Callee(cc).Static; cal != nil && load_FuncPkgPath(cal) == PkgCurves && yieldsCurveValue(cal, 2) {
				readsMembers = true
			}
		})
		usesPid := c.staticallyCalls(fn, func(f *ssa.Function) bool { return ir.FuncIs(f, PkgUtil, "*PidLoop.Loop") }, 3)
		switch {
		case usesPid:
			c.R.Excluded(rule, fk, fk, c.P.Pos(fn.Pos()), "PID curve: not claimed by the property (its output depends on history)")
		case readsSensor && !readsMembers:
			an := c.newMono(fn, tb)
			an.Source = func(v ssa.Value) (mono.Dir, bool) {
				if call, ok := v.(*ssa.Call); ok && ir.IsInvoke(call, PkgSensors, "Sensor", "GetMovingAvg") {
					return mono.Up, true
				}
				return mono.Indep, false
			}
			d := an.ResultWhere(0, func(r *ssa.Return, via *ssa.BasicBlock) bool {
				return ei < 0 || mayBeNilError(r.Results[ei], ranges.FactsAt(r.Block(), via))
			})
			if d == mono.Up || d == mono.Indep {
				c.R.Add(obOK(rule, fk, fk, c.P.Pos(fn.Pos()), "the curve value is "+d.String()+" in the smoothed temperature (ramp proved piecewise: saturation values ordered around the truncated ramp)", an.SortedHyps()))
			} else {
				c.R.Bad(rule, fk, fk, c.P.Pos(fn.Pos()), "cannot show that the curve value is non-decreasing in the smoothed temperature: "+an.Explain())
			}
		case readsMembers:
			c.monoFunctionCurve(rule, fn, tb)
		default:
			c.R.Undecided(rule, fk, fk, c.P.Pos(fn.Pos()), "curve implementation reads neither a sensor nor member curves: no summary for its inputs")
		}
	}
}

var monoClaimedFunctions = map[string]bool{"sum": true, "minimum": true, "maximum": true, "average": true}

func (c *Ctx) monoFunctionCurve(rule string, fn *ssa.Function, tb *ir.TB) {
	fk := c.FK(fn)
	ei := errResultIndex(fn)
	source := func(v ssa.Value) (mono.Dir, bool) {
		if ex, ok := v.(*ssa.Extract); ok && ex.Index == 0 {
			if call, ok := ex.Tuple.(*ssa.Call); ok && ir.IsInvoke(call, PkgCurves, "SpeedCurve", "Evaluate") {
				return mono.Up, true
			}
			// a curves-package helper that hands back a member's value (lookup + Evaluate in one place)
			if call, ok := ex.Tuple.(*ssa.Call); ok {
				if cal := ir.Callee(call).Static; cal != nil && load_FuncPkgPath(cal) == PkgCurves && yieldsCurveValue(cal, 2) {
					return mono.Up, true
				}
			}
		}
		if u, ok := v.(*ssa.UnOp); ok && u.Op == token.MUL {
			if ia, ok := u.X.(*ssa.IndexAddr); ok && sliceOfCurveValues(tb.Of(ia.X, nil)) {
				return mono.Up, true
			}
		}
		return mono.Indep, false
	}
	type edgeVal struct {
		val   ssa.Value
		facts []ir.Fact
		label string
		an    *mono.An
		pos   token.Pos
		phi   *ssa.Phi // when set: the value is this phi restricted to the edges in `edges`
		edges map[int]bool
	}
	var evs []edgeVal
	newAn := func(f *ssa.Function) *mono.An {
		an := c.newMono(f, tb)
		an.Source = source
		return an
	}
	var enum func(an *mono.An, f *ssa.Function, v ssa.Value, facts []ir.Fact, depth int, pos token.Pos)
	enum = func(an *mono.An, f *ssa.Function, v ssa.Value, facts []ir.Fact, depth int, pos token.Pos) {
		rv := ir.Resolve(v)
		if phi, ok := rv.(*ssa.Phi); ok && depth < 4 {
			// split by function type only when the choice is the input-independent type switch
			split := false
			for i := range phi.Edges {
				if l := c.curveFormLabel(ranges.FactsAt(phi.Block(), phi.Block().Preds[i]), phi.Edges[i], tb); monoClaimedFunctions[l] || l == "difference" || l == "delta" {
					split = true
				}
			}
			if split {
				// several edges of one form (the form's own if/else) stay together as one piecewise value
				groups := map[string][]int{}
				var order []string
				for i := range phi.Edges {
					l := c.curveFormLabel(ranges.FactsAt(phi.Block(), phi.Block().Preds[i]), phi.Edges[i], tb)
					if _, ok := groups[l]; !ok {
						order = append(order, l)
					}
					groups[l] = append(groups[l], i)
				}
				for _, l := range order {
					g := groups[l]
					if len(g) == 1 {
						i := g[0]
						enum(an, f, phi.Edges[i], ranges.FactsAt(phi.Block(), phi.Block().Preds[i]), depth+1, pos)
						continue
					}
					set := map[int]bool{}
					for _, i := range g {
						set[i] = true
					}
					evs = append(evs, edgeVal{val: phi, label: l, an: an, pos: pos, phi: phi, edges: set})
				}
				return
			}
		}
		// the type switch moved into a helper: enumerate its returns
		if call, ok := rv.(*ssa.Call); ok && depth < 4 {
			if cal := ir.Callee(call).Static; cal != nil && load_FuncPkgPath(cal) == PkgCurves && len(cal.Blocks) > 4 && cal.Name() != "SetValue" {
				if sub := an.Enter(call, facts); sub != nil {
					n0 := len(evs)
					for _, r2 := range ir.Returns(cal) {
						enum(sub, cal, r2.Results[0], ranges.FactsAt(r2.Block(), nil), depth+1, r2.Pos())
					}
					labelled := false
					for _, ev := range evs[n0:] {
						if monoClaimedFunctions[ev.label] {
							labelled = true
						}
					}
					if labelled {
						return
					}
					evs = evs[:n0]
				}
			}
		}
		evs = append(evs, edgeVal{val: rv, facts: facts, label: c.curveFormLabel(facts, rv, tb), an: an, pos: pos})
	}
	for _, ret := range ir.Returns(fn) {
		facts0 := ranges.FactsAt(ret.Block(), nil)
		if ei >= 0 && !mayBeNilError(ret.Results[ei], facts0) {
			continue
		}
		enum(newAn(fn), fn, ret.Results[0], facts0, 0, ret.Pos())
	}
	seen := map[string]bool{}
	for _, ev := range evs {
		key := fk + "|" + ev.label
		if !monoClaimedFunctions[ev.label] {
			if !seen[key] {
				c.R.Excluded(rule, key, fk, c.P.Pos(ev.pos), "function type '"+ev.label+"' is not claimed monotone by the property")
			}
			seen[key] = true
			continue
		}
		seen[key] = true
		var d mono.Dir
		if ev.phi != nil {
			d = ev.an.PhiWhere(ev.phi, func(i int) bool { return ev.edges[i] })
		} else {
			d = ev.an.Eval(ev.val, ev.facts)
		}
		if d == mono.Up {
			c.R.Add(obOK(rule, key, fk, c.P.Pos(ev.pos), "the '"+ev.label+"' value is non-decreasing in every member's value", ev.an.SortedHyps()))
		} else {
			c.R.Bad(rule, key, fk, c.P.Pos(ev.pos), "cannot show that the '"+ev.label+"' value is non-decreasing in the members' values (direction: "+d.String()+"): "+ev.an.Explain())
		}
	}
	for l := range monoClaimedFunctions {
		if !seen[fk+"|"+l] {
			c.R.Undecided(rule, fk+"|"+l, fk, c.P.Pos(fn.Pos()), "no result edge for function type '"+l+"' found (anchor unresolved)")
		}
	}
}

// ---------------------------------------------------------------------------
// (2) inside the interpolation

func (c *Ctx) monoInterpolation(rule string, tb *ir.TB) {
	fn := c.FuncOpt(PkgUtil, "CalculateInterpolatedCurveValue")
	key := "interpolation"
	if fn == nil {
		c.R.Undecided(rule, key, "util", "-", "util.CalculateInterpolatedCurveValue not found (anchor unresolved)")
		return
	}
	fk := c.FK(fn)
	c.R.Note("functions", fk)
	var input *ssa.Parameter
	for _, p := range fn.Params {
		if b, ok := p.Type().Underlying().(*types.Basic); ok && b.Kind() == types.Float64 {
			input = p
		}
	}
	if input == nil {
		c.R.Undecided(rule, key, fk, c.P.Pos(fn.Pos()), "no float64 input parameter (anchor unresolved)")
		return
	}
	an := c.newMono(fn, tb)
	an.SelectionIndep = true // which segment is selected (scan, binary search) is not decided here
	an.Source = func(v ssa.Value) (mono.Dir, bool) {
		if v == ssa.Value(input) {
			return mono.Up, true
		}
		// which segment is selected is the search's business (not decided): inside one segment the
		// loop index is a fixed number
		if phi, ok := v.(*ssa.Phi); ok && isIntType(phi.Type()) {
			return mono.Indep, true
		}
		return mono.Indep, false
	}
	// element i+k of the sorted key list / the step value at such a key
	keyIndex := func(v ssa.Value) (base ssa.Value, off int64, ok bool) {
		u, isLoad := ir.Resolve(v).(*ssa.UnOp)
		if !isLoad || u.Op != token.MUL {
			return nil, 0, false
		}
		ia, isIA := u.X.(*ssa.IndexAddr)
		if !isIA || !isIntType(u.Type()) {
			return nil, 0, false
		}
		idx := ir.Resolve(ia.Index)
		if bo, isBin := idx.(*ssa.BinOp); isBin && (bo.Op == token.ADD || bo.Op == token.SUB) {
			if k, isConst := ir.ConstInt(bo.Y); isConst {
				if bo.Op == token.SUB {
					k = -k
				}
				return ir.Resolve(bo.X), k, true
			}
		}
		return idx, 0, true
	}
	stepAt := func(v ssa.Value) (ssa.Value, bool) {
		switch x := ir.Resolve(v).(type) {
		case *ssa.Lookup:
			return x.Index, true
		case *ssa.Extract:
			if lk, ok := x.Tuple.(*ssa.Lookup); ok && x.Index == 0 {
				return lk.Index, true
			}
		}
		return nil, false
	}
	laterKey := func(hi, lo ssa.Value) bool { // hi is a later element of the sorted key list than lo
		b1, o1, ok1 := keyIndex(hi)
		b2, o2, ok2 := keyIndex(lo)
		return ok1 && ok2 && b1 == b2 && o1 > o2
	}
	an.LinSign = func(l ranges.Lin) (bool, bool, bool) {
		if l.C != 0 || len(l.Coef) != 2 {
			return false, false, false
		}
		var pos, neg ssa.Value
		for s, k := range l.Coef {
			if k == 1 {
				pos = s
			} else if k == -1 {
				neg = s
			}
		}
		if pos == nil || neg == nil {
			return false, false, false
		}
		if laterKey(pos, neg) {
			an.Hyp("the key list is sorted ascending (sort.Ints / slices.Sort precedes the loop): a later key is not smaller")
			return true, false, true
		}
		if laterKey(neg, pos) {
			return false, true, true
		}
		// step values at a later and an earlier key
		k1, ok1 := stepAt(pos)
		k2, ok2 := stepAt(neg)
		if ok1 && ok2 {
			if laterKey(k1, k2) {
				an.Hyp("premise: the step values do not decrease with the key (temperature)")
				return true, false, true
			}
			if laterKey(k2, k1) {
				an.Hyp("premise: the step values do not decrease with the key (temperature)")
				return false, true, true
			}
		}
		return false, false, false
	}
	an.Sign = func(v ssa.Value, _ []ir.Fact) (bool, bool, bool) {
		bo, ok := v.(*ssa.BinOp)
		if !ok || bo.Op != token.SUB {
			return false, false, false
		}
		// steps[later key] - steps[earlier key] >= 0: premise of the property (non-decreasing step set)
		k1, ok1 := stepAt(bo.X)
		k2, ok2 := stepAt(bo.Y)
		if ok1 && ok2 {
			if laterKey(k1, k2) {
				an.Hyp("premise: the step values do not decrease with the key (temperature)")
				return true, false, true
			}
			if laterKey(k2, k1) {
				an.Hyp("premise: the step values do not decrease with the key (temperature)")
				return false, true, true
			}
		}
		if laterKey(bo.X, bo.Y) {
			an.Hyp("the key list is sorted ascending: a later key is not smaller")
			return true, false, true
		}
		return false, false, false
	}
	// the sort call must be there for the hypothesis to make sense
	sorted := false
	Calls(fn, func(cc ssa.CallInstruction) {
		switch ir.CallName(cc) {
		case "sort.Ints", "slices.Sort", "sort.Sort", "sort.Slice", "slices.SortFunc":
			sorted = true
		}
		if st := ir.Callee(cc).Static; st != nil && st.Origin() != nil && st.Origin().Pkg != nil && st.Origin().Pkg.Pkg.Path() == "slices" && strings.HasPrefix(st.Origin().Name(), "Sort") {
			sorted = true
		}
	})
	n, bad := 0, 0
	for _, r := range ir.Returns(fn) {
		facts := ranges.FactsAt(r.Block(), nil)
		d := an.Eval(r.Results[0], facts)
		if d == mono.Indep {
			continue
		}
		n++
		if d != mono.Up {
			bad++
			c.R.Bad(rule, key, fk, c.P.Pos(r.Pos()), "the interpolated value is not shown non-decreasing in the input inside a segment (direction: "+d.String()+"): "+an.Explain())
		}
	}
	switch {
	case n == 0:
		c.R.Undecided(rule, key, fk, c.P.Pos(fn.Pos()), "no return depends on the input through data flow (anchor unresolved)")
	case !sorted:
		c.R.Bad(rule, key, fk, c.P.Pos(fn.Pos()), "the key list is not sorted before the segment search: 'a later key is not smaller' has no basis")
	case bad == 0:
		c.R.Add(obOK(rule, key, fk, c.P.Pos(fn.Pos()), sprintf("%d input-dependent return(s): y0 + ratio*(y1-y0) with ratio = (input-x0)/(x1-x0) is non-decreasing in the input", n), an.SortedHyps()))
	}
}

// ---------------------------------------------------------------------------
// (4) the direct control loop

func (c *Ctx) directLoops() []*ssa.Function {
	var out []*ssa.Function
	for _, fn := range c.ImplMethods(PkgLoop, "ControlLoop", "Cycle") {
		usesPid := c.staticallyCalls(fn, func(f *ssa.Function) bool { return ir.FuncIs(f, PkgUtil, "*PidLoop.Loop") }, 3)
		if !usesPid {
			out = append(out, fn)
		}
	}
	return out
}

func (c *Ctx) monoDirectLoop(rule string) {
	tb := ir.NewTB(c.P.IsRepoFunc, c.P.FuncKey)
	tb.ParamCallers = c.StaticCallers
	loops := c.directLoops()
	if len(loops) == 0 {
		c.R.Undecided(rule, "direct-loop", PkgLoop, "-", "no non-PID implementation of ControlLoop.Cycle found (anchor unresolved)")
		return
	}
	for _, fn := range loops {
		fk := c.FK(fn)
		c.R.Note("functions", fk)
		if len(fn.Params) < 3 {
			c.R.Undecided(rule, fk, fk, c.P.Pos(fn.Pos()), "unexpected signature")
			continue
		}
		target := fn.Params[1]
		an := c.newMono(fn, tb)
		an.Source = func(v ssa.Value) (mono.Dir, bool) {
			if v == ssa.Value(target) {
				return mono.Up, true
			}
			return mono.Indep, false
		}
		an.Sign = func(v ssa.Value, _ []ir.Fact) (bool, bool, bool) {
			// the configured step limit: an int loaded from a field of the loop
			if u, ok := v.(*ssa.UnOp); ok && u.Op == token.MUL && isIntType(u.Type()) {
				t := tb.Of(u, nil)
				if strings.HasPrefix(t.Op, "field:") || (t.Op == "load" && len(t.Args) == 1 && strings.HasPrefix(t.Args[0].Op, "field:")) {
					an.Hyp("the configured maxPwmChangePerCycle is not negative (the property quantifies over 1..255)")
					return true, false, true
				}
			}
			return false, false, false
		}
		d := an.Result(0)
		if d == mono.Up {
			c.R.Add(obOK(rule, fk, fk, c.P.Pos(fn.Pos()), "the loop output is non-decreasing in the target, with and without the per-cycle limit (clamp of the error and of the result analysed in place)", an.SortedHyps()))
		} else {
			c.R.Bad(rule, fk, fk, c.P.Pos(fn.Pos()), "cannot show that the loop output is non-decreasing in the target (direction: "+d.String()+"): "+an.Explain())
		}
	}
}

// ---------------------------------------------------------------------------
// (5) + (6): target computation and write routine

func (c *Ctx) monoRegulation(rule string) {
	r := c.analyseRegulation()
	tb := r.tb
	if len(r.cycles) == 0 {
		c.R.Undecided(rule, "regulation", PkgCtrl, "-", "no UpdateFanSpeed implementation (anchor unresolved)")
		return
	}
	for _, ci := range r.cycles {
		if ci.target == nil || ci.writeCall == nil || ci.writer == nil {
			c.R.Undecided(rule, c.FK(ci.ufs)+"|chain", c.FK(ci.ufs), c.P.Pos(ci.ufs.Pos()), "UpdateFanSpeed does not hand result #0 of a target computation to the write routine (anchor unresolved)")
			continue
		}
		// (5) request in the curve value
		T := ci.target
		fk := c.FK(T)
		c.R.Note("functions", fk)
		ei := errResultIndex(T)
		an := c.newMono(T, tb)
		nsrc := 0
		an.Source = func(v ssa.Value) (mono.Dir, bool) {
			if ex, ok := v.(*ssa.Extract); ok && ex.Index == 0 {
				if call, ok := ex.Tuple.(*ssa.Call); ok && ir.IsInvoke(call, PkgCurves, "SpeedCurve", "Evaluate") {
					nsrc++
					return mono.Up, true
				}
			}
			return mono.Indep, false
		}
		an.Sign = func(v ssa.Value, _ []ir.Fact) (bool, bool, bool) {
			bo, ok := v.(*ssa.BinOp)
			if !ok || bo.Op != token.SUB {
				return false, false, false
			}
			hasCall := func(t *ir.Term, m string) bool {
				return t.Has(func(x *ir.Term) bool { return strings.HasSuffix(x.Op, ".Fan."+m) })
			}
			if hasCall(tb.Of(bo.X, nil), "GetMaxPwm") && hasCall(tb.Of(bo.Y, nil), "GetMinPwm") && !hasCall(tb.Of(bo.X, nil), "GetMinPwm") {
				an.Hyp("the fan's maximum is not below its (raised) minimum")
				return true, false, true
			}
			return false, false, false
		}
		d := an.ResultWhere(0, func(rt *ssa.Return, via *ssa.BasicBlock) bool {
			return ei < 0 || mayBeNilError(rt.Results[ei], ranges.FactsAt(rt.Block(), via))
		})
		switch {
		case nsrc == 0:
			c.R.Undecided(rule, fk, fk, c.P.Pos(T.Pos()), "the request does not depend on a SpeedCurve.Evaluate result through data flow (anchor unresolved)")
		case d == mono.Up:
			c.R.Add(obOK(rule, fk, fk, c.P.Pos(T.Pos()), "the request is non-decreasing in the curve value (loop summary, clamp ordered piecewise, rescale by a non-negative span, stall bump a/a+1)", an.SortedHyps()))
		default:
			c.R.Bad(rule, fk, fk, c.P.Pos(T.Pos()), "cannot show that the request is non-decreasing in the curve value (direction: "+d.String()+"): "+an.Explain())
		}
		// the request reaches the writer unchanged or through a monotone expression
		ufk := c.FK(ci.ufs)
		an2 := c.newMono(ci.ufs, tb)
		an2.Source = func(v ssa.Value) (mono.Dir, bool) {
			if ex, ok := v.(*ssa.Extract); ok && ex.Index == 0 && ex.Tuple == ssa.Value(ci.targetCall) {
				return mono.Up, true
			}
			return mono.Indep, false
		}
		w := ci.writer
		argIdx := -1
		for i, p := range w.fn.Params {
			if p == w.reqParam {
				argIdx = i
			}
		}
		if argIdx < 0 || argIdx >= len(ci.writeCall.Call.Args) {
			c.R.Undecided(rule, ufk+"|handover", ufk, c.P.Pos(ci.writeCall.Pos()), "request parameter of the write routine not identified")
		} else if d2 := an2.Eval(ci.writeCall.Call.Args[argIdx], ranges.FactsAt(ci.writeCall.Block(), nil)); d2 == mono.Up {
			c.R.Add(obOK(rule, ufk+"|handover", ufk, c.P.Pos(ci.writeCall.Pos()), "the computed request is handed to the write routine through a non-decreasing expression", an2.SortedHyps()))
		} else {
			c.R.Bad(rule, ufk+"|handover", ufk, c.P.Pos(ci.writeCall.Pos()), "the value handed to the write routine is not shown non-decreasing in the computed request (direction: "+d2.String()+"): "+an2.Explain())
		}
		// (6) written value in the request
		wk := c.FK(w.fn)
		c.R.Note("functions", wk)
		an3 := c.newMono(w.fn, tb)
		an3.Source = func(v ssa.Value) (mono.Dir, bool) {
			if v == ssa.Value(w.reqParam) {
				return mono.Up, true
			}
			return mono.Indep, false
		}
		an3.LookupSummary = func(l *ssa.Lookup, key mono.Dir) (mono.Dir, bool) {
			if strings.HasPrefix(tb.Of(l.X, nil).Op, "field:") {
				an3.Hyp("premise: the PWM map is non-decreasing")
				return key, true
			}
			return mono.Unknown, false
		}
		d3 := an3.Eval(w.expected, ranges.FactsAt(w.setPwm.Block(), nil))
		if d3 == mono.Up {
			c.R.Add(obOK(rule, wk, wk, c.P.Pos(w.setPwm.Pos()), "the value handed to Fan.SetPwm is non-decreasing in the request", an3.SortedHyps()))
		} else {
			c.R.Bad(rule, wk, wk, c.P.Pos(w.setPwm.Pos()), "cannot show that the value handed to Fan.SetPwm is non-decreasing in the request (direction: "+d3.String()+"): "+an3.Explain())
		}
	}
}

// staticallyCalls: fn reaches a function satisfying pred through static calls only (no interface dispatch).
func (c *Ctx) staticallyCalls(fn *ssa.Function, pred func(*ssa.Function) bool, depth int) bool {
	found := false
	Calls(fn, func(cc ssa.CallInstruction) {
		st := ir.Callee(cc).Static
		if st == nil || found {
			return
		}
		if pred(st) {
			found = true
			return
		}
		if depth > 0 && c.P.IsRepoFunc(st) && st != fn && c.staticallyCalls(st, pred, depth-1) {
			found = true
		}
	})
	return found
}
