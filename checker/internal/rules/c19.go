package rules

import (
	"sort"
	"go/token"
	"go/types"
	"strings"

	"f2gcheck/internal/ir"

	"golang.org/x/tools/go/ssa"
)

func init() { Registry["C19"] = c19 }

// blockingOp classifies instructions that can block for an unbounded time.
func blockingOp(ins ssa.Instruction) string {
	switch x := ins.(type) {
	case *ssa.Send:
		return "channel send"
	case *ssa.UnOp:
		if x.Op == token.ARROW {
			return "channel receive"
		}
	case *ssa.Select:
		if x.Blocking {
			return "blocking select"
		}
	case *ssa.Call:
		switch ir.CallName(x) {
		case "(*sync.Mutex).Lock", "(*sync.RWMutex).Lock", "(*sync.RWMutex).RLock", "(*sync.WaitGroup).Wait", "(*sync.Cond).Wait", "time.Sleep",
			"(*golang.org/x/sync/semaphore.Weighted).Acquire", "(*sync.Once).Do":
			return ir.CallName(x)
		case "(*os/exec.Cmd).StdoutPipe", "(*os/exec.Cmd).StderrPipe":
			// reading a command pipe in our own code ends only when every holder of the pipe has closed it;
			// WaitDelay bounds os/exec's own copying, not such a read
			return "read of a command pipe (" + ir.CallName(x) + ")"
		}
	}
	return ""
}

func c19(c *Ctx) {
	c.R.Explanation = "C19: the structural preconditions of the time bound and of crash-freedom of util.SafeCmdExecution are decided on the SSA of /repo: R-deadline = the *exec.Cmd that is run comes from exec.CommandContext with a context from context.WithTimeout(_, timeout parameter), and every caller passes a constant timeout in (0, 2s]; R-waitdelay = Cmd.WaitDelay is stored with a non-zero value on every path before Output/Run/Wait (with captured output only WaitDelay bounds the wait for pipe holders); R-noblock = no unbounded blocking operation (channel send/receive, blocking select, mutex/WaitGroup/Cond wait, Sleep) in the call tree of SafeCmdExecution outside the logging package (anything waited for outside the context deadline is not covered by the timeout); R-noassert = no comma-less type assertion on an error value in that call tree; R-errpair = as in C09, over the call tree of SafeCmdExecution (os.Stat result used only after the documented tests); R-procstate = cmd.ProcessState (nil when the command could not be started) is dereferenced or used as a method receiver (other than the nil-tolerant ExitCode/String) only under a nil test; R-err = in SafeCmdExecution every return reachable from a failure edge (check error, Output error, deadline) carries a non-nil error or an error-typed value from the failing call; R-parse / R-cmderr = command fan/sensor methods return parse errors and command errors (never ignored). R-iodata = in SafeCmdExecution, its consumers and their call trees every index / slice / integer division on data that comes from a standard-library call is proved in bounds (shared with C09). R-errnil = as in C09, over SafeCmdExecution, its consumers and their call trees (cmd.Output() can return a nil error although the deadline fired). R-unlock = every function in the call tree of the command consumers (and every method of their receiver types) that acquires a mutex releases it on every path to a return (two-state typestate per mutex, deferred unlocks included). Not decided: the wall-clock bound itself."
	c.R.Assumptions = append(c.R.Assumptions,
		"os/exec semantics: CommandContext kills the process at the deadline; WaitDelay (Go >= 1.20) force-closes the pipes after the kill/exit",
		"ui logging (package internal/ui) holds its mutex only while printing and is treated as non-blocking")

	safe := c.Func(PkgUtil, "SafeCmdExecution")
	if safe == nil {
		return
	}
	fk := c.FK(safe)
	tb := ir.NewTB(c.P.IsRepoFunc, c.P.FuncKey)
	tb.ParamCallers = c.StaticCallers // the command may be created in a helper that receives the context

	// the call tree of the checked entry point (logging excluded)
	tree := c.Closure([]*ssa.Function{safe}, true, func(f *ssa.Function) bool {
		pk := load_FuncPkgPath(f)
		return pk == PkgUI
	})
	isRun := func(n string) bool {
		switch n {
		case "(*os/exec.Cmd).Output", "(*os/exec.Cmd).Run", "(*os/exec.Cmd).CombinedOutput", "(*os/exec.Cmd).Wait", "(*os/exec.Cmd).Start":
			return true
		}
		return false
	}
	// locate the command creation(s) and the run call(s) anywhere in that tree
	var cmdCalls, runCalls []*ssa.Call
	for _, fn := range c.SortedFuncs(tree) {
		Calls(fn, func(cc ssa.CallInstruction) {
			call, ok := cc.(*ssa.Call)
			if !ok {
				return
			}
			n := ir.CallName(call)
			if _, isPC := processCreators[n]; isPC {
				cmdCalls = append(cmdCalls, call)
			}
			if isRun(n) {
				runCalls = append(runCalls, call)
			}
		})
	}
	if len(cmdCalls) == 0 || len(runCalls) == 0 {
		c.R.Undecided("R-deadline", fk, fk, c.P.Pos(safe.Pos()), "no exec.Command*/run call found in the call tree of SafeCmdExecution (anchor unresolved)")
		return
	}

	// ---- R-deadline -----------------------------------------------------------
	for _, cmdc := range cmdCalls {
		key := c.FK(cmdc.Parent()) + "|" + ir.CallName(cmdc)
		t := tb.Of(cmdc, nil)
		ok := t.Op == "call:os/exec.CommandContext" && len(t.Args) >= 2
		detail := t.String()
		if ok {
			ctx := t.Args[0]
			wt := ctx.Find(func(x *ir.Term) bool {
				return x.Op == "call:context.WithTimeout" || x.Op == "call:context.WithDeadline"
			})
			ok = wt != nil && ctx.Op == "res0" && len(wt.Args) == 2 && strings.HasPrefix(wt.Args[1].Op, "param:")
			if ok {
				detail = "cmd = exec.CommandContext(ctx, ...), ctx = " + ctx.String()
			}
		}
		if ok {
			c.R.Ok("R-deadline", key, c.FK(cmdc.Parent()), c.P.Pos(cmdc.Pos()), detail)
		} else {
			c.R.Bad("R-deadline", key, c.FK(cmdc.Parent()), c.P.Pos(cmdc.Pos()), "the command is not created by exec.CommandContext with a context from context.WithTimeout(_, timeout parameter): "+detail)
		}
	}
	c.R.Require("R-deadline", 1)

	// every caller passes a constant timeout in (0, 2s]
	ncallers := 0
	for _, fn := range c.P.Funcs {
		Calls(fn, func(cc ssa.CallInstruction) {
			if ir.Callee(cc).Static != safe {
				return
			}
			ncallers++
			key := c.FK(fn) + "|timeout"
			args := cc.Common().Args
			if len(args) < 3 {
				c.R.Undecided("R-timeout", key, c.FK(fn), c.P.Pos(cc.Pos()), "unexpected signature")
				return
			}
			if ns, ok := ir.ConstInt(ir.Resolve(args[2])); ok && ns > 0 && ns <= 2_000_000_000 {
				c.R.Ok("R-timeout", key, c.FK(fn), c.P.Pos(cc.Pos()), sprintf("constant timeout %dms", ns/1_000_000))
			} else {
				c.R.Bad("R-timeout", key, c.FK(fn), c.P.Pos(cc.Pos()), "timeout passed to SafeCmdExecution is not a constant in (0, 2s]: "+tb.Of(args[2], nil).String())
			}
		})
	}
	c.R.Require("R-timeout", 1)
	c.R.Stats["SafeCmdExecution_call_sites"] = ncallers

	// ---- R-waitdelay (typestate over the call tree) -------------------------------
	{
		const unset, set = 0, 1
		spec := ir.TSpec{
			N: 2,
			Instr: func(ins ssa.Instruction) []ir.Mask {
				switch x := ins.(type) {
				case *ssa.Store:
					if fa, ok := x.Addr.(*ssa.FieldAddr); ok {
						if o, name, _ := ir.FieldName(fa); name == "WaitDelay" && o != nil && o.Obj().Name() == "Cmd" {
							if k, isConst := ir.ConstInt(x.Val); isConst && k <= 0 {
								return ir.AllTo(2, unset)
							}
							return ir.AllTo(2, set)
						}
					}
				case *ssa.Call:
					if _, isPC := processCreators[ir.CallName(x)]; isPC {
						return ir.AllTo(2, unset)
					}
				}
				return nil
			},
			Callees: func(call ssa.CallInstruction) []*ssa.Function {
				var out []*ssa.Function
				for _, f := range c.Callees(call) {
					if tree[f] {
						out = append(out, f)
					}
				}
				return out
			},
			NoReturn: func(ins ssa.Instruction) bool { return c.noReturnCall(ins) },
		}
		ts := ir.NewTS(spec)
		bad := map[*ssa.Call]bool{}
		seen := map[*ssa.Call]bool{}
		ts.Run(safe, ir.Bit(unset), func(fn *ssa.Function, ins ssa.Instruction, m ir.Mask) {
			call, ok := ins.(*ssa.Call)
			if !ok || m == 0 || !isRun(ir.CallName(call)) {
				return
			}
			seen[call] = true
			if m.Has(unset) {
				bad[call] = true
			}
		})
		for _, rc := range runCalls {
			key := c.FK(rc.Parent()) + "|" + ir.CallName(rc)
			switch {
			case bad[rc]:
				c.R.Bad("R-waitdelay", key, c.FK(rc.Parent()), c.P.Pos(rc.Pos()), ir.CallName(rc)+" is reachable without a preceding non-zero store to Cmd.WaitDelay: a process holding the output pipe open blocks the call beyond the timeout")
			case seen[rc]:
				c.R.Ok("R-waitdelay", key, c.FK(rc.Parent()), c.P.Pos(rc.Pos()), "Cmd.WaitDelay is set to a non-zero value on every path before "+ir.CallName(rc))
			default:
				c.R.Undecided("R-waitdelay", key, c.FK(rc.Parent()), c.P.Pos(rc.Pos()), "run call not reached by the typestate pass")
			}
		}
	}
	c.R.Require("R-waitdelay", 1)

	// ---- R-noblock / R-noassert over the call tree ---------------------------
	nb, na := 0, 0
	for _, fn := range c.SortedFuncs(tree) {
		c.R.Note("functions", c.FK(fn))
		Instrs(fn, func(ins ssa.Instruction) {
			if what := blockingOp(ins); what != "" {
				c.R.Bad("R-noblock", c.FK(fn)+"|"+what, c.FK(fn), c.P.Pos(ins.Pos()), "unbounded blocking operation ("+what+") in the call tree of SafeCmdExecution: time spent here is not covered by the command timeout")
				nb++
			}
			if ta, ok := ins.(*ssa.TypeAssert); ok && !ta.CommaOk && isErrorType(ta.X.Type()) {
				c.R.Bad("R-noassert", c.FK(fn)+"|"+ta.AssertedType.String(), c.FK(fn), c.P.Pos(ta.Pos()), "comma-less type assertion on an error value: a command that cannot be started yields *fs.PathError/*exec.Error and the assertion panics")
				na++
			}
		})
	}
	if nb == 0 {
		c.R.Ok("R-noblock", fk, fk, c.P.Pos(safe.Pos()), sprintf("no unbounded blocking operation in %d function(s) of the call tree (logging excluded)", len(tree)))
	}
	if na == 0 {
		c.R.Ok("R-noassert", fk, fk, c.P.Pos(safe.Pos()), "no comma-less type assertion on an error value in the call tree")
	}

	// ---- R-procstate: (*exec.Cmd).ProcessState is nil until the process has been waited for ----------
	// (a command that cannot be started leaves it nil); only ExitCode and String tolerate a nil receiver.
	nilSafe := map[string]bool{"ExitCode": true, "String": true}
	nps := 0
	for _, fn := range c.SortedFuncs(tree) {
		Instrs(fn, func(ins ssa.Instruction) {
			u, ok := ins.(*ssa.UnOp)
			if !ok || u.Op != token.MUL {
				return
			}
			fa, ok := u.X.(*ssa.FieldAddr)
			if !ok {
				return
			}
			owner, name, ok := ir.FieldName(fa)
			if !ok || name != "ProcessState" || owner == nil || owner.Obj().Pkg() == nil || owner.Obj().Pkg().Path() != "os/exec" {
				return
			}
			refs := u.Referrers()
			if refs == nil {
				return
			}
			for _, r := range *refs {
				use := ""
				switch x := r.(type) {
				case ssa.CallInstruction:
					com := x.Common()
					if st := ir.Callee(x).Static; st != nil && len(com.Args) > 0 && com.Args[0] == ssa.Value(u) && !nilSafe[st.Name()] {
						use = "(*os.ProcessState)." + st.Name()
					}
				case *ssa.FieldAddr:
					if x.X == ssa.Value(u) {
						use = "field access"
					}
				case *ssa.UnOp:
					if x.Op == token.MUL && x.X == ssa.Value(u) {
						use = "dereference"
					}
				}
				if use == "" {
					continue
				}
				nps++
				key := c.FK(fn) + "|" + use
				if ir.HasFact(ir.BlockFacts(r.Block()), token.NEQ, func(a, b ssa.Value) bool { return ir.Resolve(a) == ssa.Value(u) && ir.IsNilConst(b) }) {
					c.R.Ok("R-procstate", key, c.FK(fn), c.P.Pos(r.Pos()), use+" on cmd.ProcessState under ProcessState != nil")
				} else {
					c.R.Bad("R-procstate", key, c.FK(fn), c.P.Pos(r.Pos()), use+" on cmd.ProcessState without a nil test: the field is nil when the command could not be started (no exec permission, bad format, missing interpreter), so the failure path panics")
				}
			}
		})
	}
	if nps == 0 {
		c.R.Ok("R-procstate", fk, fk, c.P.Pos(safe.Pos()), "the call tree never dereferences cmd.ProcessState")
	}

	// ---- R-errpair within the call tree (shared with C09): value results of fallible library calls are used
	// only where their error is nil (a path that cannot be resolved must come back as an error, not as a panic)
	c.ruleErrPair(tree)

	// ---- R-err: failure edges of SafeCmdExecution lead to error returns --------
	c.checkErrorPropagation("R-err", safe, func(call *ssa.Call) bool {
		n := ir.CallName(call)
		if strings.HasPrefix(n, "(*os/exec.Cmd).") || ir.Callee(call).Static == c.FuncOpt(PkgUtil, "CheckFilePermissionsForExecution") {
			return true
		}
		// a wrapper around the permission check
		st := ir.Callee(call).Static
		chk := c.FuncOpt(PkgUtil, "CheckFilePermissionsForExecution")
		return st != nil && chk != nil && c.P.IsRepoFunc(st) && errResultIndex(st) >= 0 && c.staticallyCalls(st, func(f *ssa.Function) bool { return f == chk }, 2)
	})
	c.R.Require("R-err", 2)
	// success return carries the trimmed output of the command: result #0 on the nil-error return derives from Output's result
	ei := errResultIndex(safe)
	for _, r := range ir.Returns(safe) {
		if ei == 1 && ir.IsNilConst(ir.Resolve(r.Results[1])) {
			t := tb.Of(r.Results[0], nil)
			if termHasCall(t, "(*os/exec.Cmd).Output") || termHasCall(t, "(*os/exec.Cmd).CombinedOutput") {
				c.R.Ok("R-output", fk, fk, c.P.Pos(r.Pos()), "the nil-error return yields a value derived from the command output: "+t.String())
			} else {
				c.R.Bad("R-output", fk, fk, c.P.Pos(r.Pos()), "the nil-error return does not yield the command output: "+t.String())
			}
		}
	}
	c.R.Require("R-output", 1)

	// ---- R-parse / R-cmderr in the command fan / sensor methods ---------------
	var consumers []*ssa.Function
	for _, fn := range c.P.Funcs {
		callsSafe := false
		Calls(fn, func(cc ssa.CallInstruction) {
			if ir.Callee(cc).Static == safe {
				callsSafe = true
			}
		})
		if !callsSafe {
			continue
		}
		consumers = append(consumers, fn)
		if errResultIndex(fn) < 0 {
			continue
		}
		c.checkErrorPropagation("R-cmderr", fn, func(call *ssa.Call) bool { return ir.Callee(call).Static == safe })
		c.checkErrorPropagation("R-parse", fn, func(call *ssa.Call) bool {
			n := ir.CallName(call)
			return n == "strconv.ParseFloat" || n == "strconv.Atoi" || n == "strconv.ParseInt" || n == "strconv.ParseUint"
		})
	}
	c.R.Require("R-cmderr", 1)
	c.R.Require("R-parse", 1)
	// ---- R-iodata: the output of a command is indexed / sliced only under a length guard ----
	scope := c.Closure(append(consumers, safe), true, func(f *ssa.Function) bool { return load_FuncPkgPath(f) == PkgUI })
	c.ruleIOBounds("R-iodata", scope, 1)
	c.ruleErrNil("R-errnil", scope)
	// R-unlock: a mutex taken around / near a command run is released on every path out of the function. A lock
	// left held on the error path blocks the next poll (and every reader of the same object) for ever - beyond
	// any timeout. The functions that run commands and the other methods of their receiver types are inspected.
	lockScope := map[*ssa.Function]bool{}
	for f := range scope {
		lockScope[f] = true
	}
	for _, f := range consumers {
		if f.Signature.Recv() == nil {
			continue
		}
		if n := ir.NamedOf(f.Signature.Recv().Type()); n != nil {
			for _, g := range c.P.Funcs {
				if g.Signature.Recv() != nil && ir.NamedOf(g.Signature.Recv().Type()) == n {
					lockScope[g] = true
				}
			}
		}
	}
	c.ruleUnlock("R-unlock", lockScope)
	_ = types.Typ
}

func load_FuncPkgPath(f *ssa.Function) string {
	for f.Parent() != nil {
		f = f.Parent()
	}
	if f.Pkg != nil {
		return f.Pkg.Pkg.Path()
	}
	if f.Object() != nil && f.Object().Pkg() != nil {
		return f.Object().Pkg().Path()
	}
	return ""
}

// ruleUnlock: every function of scope that acquires a sync.Mutex / RWMutex releases it on every path to a return
// (explicitly or by a deferred Unlock): a two-state typestate per acquired mutex, callees followed.
func (c *Ctx) ruleUnlock(rule string, scope map[*ssa.Function]bool) {
	tb := ir.NewTB(c.P.IsRepoFunc, c.P.FuncKey)
	lockOf := func(cc ssa.CallInstruction) (string, int) {
		switch ir.CallName(cc) {
		case "(*sync.Mutex).Lock", "(*sync.RWMutex).Lock", "(*sync.RWMutex).RLock":
			return tb.Of(cc.Common().Args[0], nil).String(), +1
		case "(*sync.Mutex).Unlock", "(*sync.RWMutex).Unlock", "(*sync.RWMutex).RUnlock":
			return tb.Of(cc.Common().Args[0], nil).String(), -1
		}
		return "", 0
	}
	n := 0
	for _, fn := range c.SortedFuncs(scope) {
		if len(fn.Blocks) == 0 || load_FuncPkgPath(fn) == PkgUI {
			continue
		}
		locks := map[string]ssa.Instruction{}
		Calls(fn, func(cc ssa.CallInstruction) {
			if _, isDefer := cc.(*ssa.Defer); isDefer {
				return
			}
			if name, d := lockOf(cc); d > 0 {
				if _, seen := locks[name]; !seen {
					locks[name] = cc
				}
			}
		})
		var names []string
		for name := range locks {
			names = append(names, name)
		}
		sort.Strings(names)
		for _, name := range names {
			name := name
			n++
			spec := ir.TSpec{
				N: 2,
				Instr: func(ins ssa.Instruction) []ir.Mask {
					cc, ok := ins.(ssa.CallInstruction)
					if !ok {
						return nil
					}
					nm, d := lockOf(cc)
					if d == 0 || nm != name {
						return nil
					}
					if d > 0 {
						return ir.AllTo(2, 1)
					}
					return ir.AllTo(2, 0)
				},
				Callees:  func(call ssa.CallInstruction) []*ssa.Function { return nil },
				NoReturn: func(ins ssa.Instruction) bool { return c.noReturnCall(ins) },
			}
			ts := ir.NewTS(spec)
			exit := ts.Summary(fn, 0)
			key := c.FK(fn) + "|" + name
			if exit.Has(1) {
				c.R.Bad(rule, key, c.FK(fn), c.P.Pos(locks[name].Pos()), "the mutex "+name+" acquired here is still held on some path to a return of "+c.FK(fn)+": the next caller (the following poll, a reader of the same object) blocks for ever")
			} else {
				c.R.Ok(rule, key, c.FK(fn), c.P.Pos(locks[name].Pos()), "released on every path to a return")
			}
		}
	}
	c.R.Ok(rule, "summary", "(call graph)", "-", sprintf("%d (function, mutex) pairs inspected in %d functions", n, len(scope)))
}
