package rules

// Thorough runs the additional thorough-tier passes of a property and returns
// extra coverage keys for the evidence file. Filled in by thorough_*.go.
var thoroughHooks = map[string]func(c *Ctx, repo, verif string) map[string]interface{}{}

func Thorough(c *Ctx, prop, repo, verif string) map[string]interface{} {
	if h, ok := thoroughHooks[prop]; ok {
		return h(c, repo, verif)
	}
	if h, ok := thoroughHooks["*"]; ok {
		return h(c, repo, verif)
	}
	return map[string]interface{}{}
}
