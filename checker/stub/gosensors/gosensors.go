package gosensors

type SubFeatureType int32
type FeatureType int32

const (
	SubFeatureTypeTempInput SubFeatureType = 0x200
	SubFeatureTypeTempMax   SubFeatureType = 0x201
	SubFeatureTypeTempMin   SubFeatureType = 0x203
	SubFeatureTypeFanInput  SubFeatureType = 0x100
	SubFeatureTypeFanMin    SubFeatureType = 0x101
	SubFeatureTypeFanMax    SubFeatureType = 0x102
	FeatureTypeFan          FeatureType    = 1
	FeatureTypeTemp         FeatureType    = 2
)

type SubFeature struct {
	Name    string
	Number  int32
	Type    SubFeatureType
	Mapping int32
	Flags   uint32
}

func (s SubFeature) GetValue() float64 { return 0 }

type Feature struct {
	Name   string
	Number int32
	Type   FeatureType
}

func (f Feature) GetSubFeatures() []SubFeature { return nil }
func (f Feature) GetLabel() string             { return "" }
func (f Feature) GetValue() float64            { return 0 }

type Bus struct {
	Type int16
	Nr   int16
}
type Chip struct {
	Prefix string
	Bus    Bus
	Addr   int32
	Path   string
}

func (c Chip) GetFeatures() []Feature { return nil }
func Init()                           {}
func Cleanup()                        {}
func GetDetectedChips() []Chip        { return nil }
