package ir

import (
	"go/token"
	"go/types"
	"golang.org/x/tools/go/ssa"
)

// Mask is a set of DFA states.
type Mask uint64

func (m Mask) Has(s int) bool { return m&(1<<uint(s)) != 0 }

// Bit returns the singleton set {s}.
func Bit(s int) Mask { return 1 << uint(s) }

// TSpec describes a typestate rule: a small DFA driven by instruction and
// branch-edge events, with repository callees summarised as relations on states.
type TSpec struct {
	N        int
	Instr    func(ins ssa.Instruction) []Mask       // nil: not an event
	Edge     func(b *ssa.BasicBlock, si int) []Mask // nil: identity
	Callees  func(call ssa.CallInstruction) []*ssa.Function
	NoReturn func(ins ssa.Instruction) bool
	// GoAsCall: treat this go statement as a synchronous call (the spawner provably waits for it).
	// Default (nil): JoinedOnAllPaths(g) == nil.
	GoAsCall func(g *ssa.Go) bool
}

// AllTo builds the transition "every state -> s".
func AllTo(n, s int) []Mask {
	t := make([]Mask, n)
	for i := range t {
		t[i] = Bit(s)
	}
	return t
}

// Ident builds the identity transition.
func Ident(n int) []Mask {
	t := make([]Mask, n)
	for i := range t {
		t[i] = Bit(i)
	}
	return t
}

// Move builds identity except from -> to.
func Move(n, from, to int) []Mask {
	t := Ident(n)
	t[from] = Bit(to)
	return t
}

func apply(tr []Mask, cur Mask) Mask {
	if tr == nil {
		return cur
	}
	var out Mask
	for s := 0; s < len(tr); s++ {
		if cur.Has(s) {
			out |= tr[s]
		}
	}
	return out
}

type tsKey struct {
	fn *ssa.Function
	s  int
}

// TS is a typestate analysis instance.
type TS struct {
	Spec TSpec

	summ    map[tsKey]Mask
	summB   [2]map[tsKey]Mask // exit states at returns whose single boolean result is false / true (non-constant: both)
	final   map[tsKey]bool
	visited map[tsKey]bool
	active  map[tsKey]bool
	changed bool
	// exit states of the last intra run, partitioned by the constant boolean result (see summB)
	lastExitB [2]Mask
}

func NewTS(spec TSpec) *TS {
	return &TS{Spec: spec, summ: map[tsKey]Mask{}, summB: [2]map[tsKey]Mask{{}, {}}, final: map[tsKey]bool{}}
}

// Summary returns the set of states possible at the returns of fn when it is
// entered in state s (0 when no path returns).
func (ts *TS) Summary(fn *ssa.Function, s int) Mask {
	if ts.final[tsKey{fn, s}] {
		return ts.summ[tsKey{fn, s}]
	}
	for iter := 0; iter < 50; iter++ {
		ts.changed = false
		ts.visited = map[tsKey]bool{}
		ts.active = map[tsKey]bool{}
		ts.compute(fn, s)
		if !ts.changed {
			break
		}
	}
	for k := range ts.visited {
		ts.final[k] = true
	}
	return ts.summ[tsKey{fn, s}]
}

func (ts *TS) compute(fn *ssa.Function, s int) Mask {
	k := tsKey{fn, s}
	if ts.final[k] || ts.visited[k] || ts.active[k] {
		return ts.summ[k]
	}
	ts.active[k] = true
	exit := ts.intra(fn, Bit(s), nil, func(callee *ssa.Function, st int) Mask { return ts.compute(callee, st) }, nil)
	delete(ts.active, k)
	ts.visited[k] = true
	if exit|ts.summ[k] != ts.summ[k] {
		ts.summ[k] |= exit
		ts.changed = true
	}
	for i := 0; i < 2; i++ {
		if e := ts.lastExitB[i]; e|ts.summB[i][k] != ts.summB[i][k] {
			ts.summB[i][k] |= e
			ts.changed = true
		}
	}
	return ts.summ[k]
}

// boolResult: fn has exactly one result, of boolean type.
func boolResult(fn *ssa.Function) bool {
	r := fn.Signature.Results()
	if r.Len() != 1 {
		return false
	}
	b, ok := r.At(0).Type().Underlying().(*types.Basic)
	return ok && b.Kind() == types.Bool
}

// intra runs the forward analysis of one function from entry mask `in`.
// check (optional) is called once per instruction with the final state set before it.
// enter (optional) is called for each followed callee with the states at the call.
func (ts *TS) intra(fn *ssa.Function, in Mask, check func(ins ssa.Instruction, m Mask), summary func(*ssa.Function, int) Mask, enter func(*ssa.Function, Mask)) Mask {
	if len(fn.Blocks) == 0 {
		return in
	}
	inb := make([]Mask, len(fn.Blocks))
	inb[0] = in
	var defers []*ssa.Defer
	for _, b := range fn.Blocks {
		for _, ins := range b.Instrs {
			if d, ok := ins.(*ssa.Defer); ok {
				defers = append(defers, d)
			}
		}
	}
	isBool := boolResult(fn)
	var exitB [2]Mask
	// split: when the block ends in a branch on the boolean result of a call (and nothing after the call
	// changes the state), the two successors get the callee's exit states for that result only
	type splitInfo struct {
		ok  bool
		out [2]Mask // [false, true]
		neg bool
	}
	splits := map[*ssa.BasicBlock]splitInfo{}
	step := func(b *ssa.BasicBlock, cur Mask, final bool) (Mask, Mask) {
		var exit Mask
		var brCall *ssa.Call
		neg := false
		if len(b.Instrs) > 0 {
			if iff, ok := b.Instrs[len(b.Instrs)-1].(*ssa.If); ok {
				cond := iff.Cond
				for {
					if u, ok := cond.(*ssa.UnOp); ok && u.Op == token.NOT {
						cond, neg = u.X, !neg
						continue
					}
					break
				}
				if c, ok := cond.(*ssa.Call); ok && c.Block() == b {
					brCall = c
				}
			}
		}
		var split splitInfo
		for _, ins := range b.Instrs {
			if final && check != nil {
				check(ins, cur)
			}
			if cur == 0 {
				continue
			}
			switch g := ins.(type) {
			case *ssa.Defer:
				// deferred calls take effect at RunDefers
				continue
			case *ssa.Go:
				// a go statement runs elsewhere, unless the spawner is known to wait for it
				if (ts.Spec.GoAsCall != nil && ts.Spec.GoAsCall(g)) || (ts.Spec.GoAsCall == nil && JoinedOnAllPaths(g) == nil) {
					cur = ts.callEffect(g, cur, summary, enter, final)
				}
				continue
			}
			if ts.Spec.NoReturn != nil && ts.Spec.NoReturn(ins) {
				cur = 0
				continue
			}
			if ts.Spec.Instr != nil {
				if tr := ts.Spec.Instr(ins); tr != nil {
					cur = apply(tr, cur)
					split.ok = false
					continue
				}
			}
			switch x := ins.(type) {
			case *ssa.Call:
				pre := cur
				cur = ts.callEffect(x, cur, summary, enter, final)
				if split.ok {
					split.ok = false // a later call: the partition no longer describes the state at the branch
				}
				if x == brCall && ts.Spec.Callees != nil {
					if cs := ts.Spec.Callees(x); len(cs) > 0 {
						allBool := true
						for _, cal := range cs {
							if !boolResult(cal) {
								allBool = false
							}
						}
						if allBool {
							split = splitInfo{ok: true, neg: neg}
							for _, cal := range cs {
								for st := 0; st < ts.Spec.N; st++ {
									if pre.Has(st) {
										summary(cal, st) // make sure the partitions are computed
										split.out[0] |= ts.summB[0][tsKey{cal, st}]
										split.out[1] |= ts.summB[1][tsKey{cal, st}]
									}
								}
							}
						}
					}
				}
			case *ssa.RunDefers:
				for i := len(defers) - 1; i >= 0; i-- {
					d := defers[i]
					var after Mask
					if ts.Spec.Instr != nil {
						if tr := ts.Spec.Instr(d); tr != nil {
							after = apply(tr, cur)
						} else {
							after = ts.callEffect(d, cur, summary, enter, final)
						}
					} else {
						after = ts.callEffect(d, cur, summary, enter, final)
					}
					if d.Block().Dominates(b) {
						cur = after
					} else {
						cur |= after
					}
				}
			case *ssa.Return:
				exit |= cur
				if isBool && len(x.Results) == 1 {
					if k, isConst := ConstBool(x.Results[0]); isConst {
						if k {
							exitB[1] |= cur
						} else {
							exitB[0] |= cur
						}
					} else {
						exitB[0] |= cur
						exitB[1] |= cur
					}
				}
			case *ssa.Panic:
				cur = 0
			}
		}
		splits[b] = split
		return cur, exit
	}
	work := []int{0}
	inq := map[int]bool{0: true}
	for len(work) > 0 {
		bi := work[0]
		work = work[1:]
		delete(inq, bi)
		b := fn.Blocks[bi]
		cur, _ := step(b, inb[bi], false)
		for si, succ := range b.Succs {
			out := cur
			if sp := splits[b]; sp.ok && len(b.Succs) == 2 {
				// Succs[0] is taken when the condition is true
				truth := si == 0
				if sp.neg {
					truth = !truth
				}
				if truth {
					out = sp.out[1]
				} else {
					out = sp.out[0]
				}
			}
			if ts.Spec.Edge != nil {
				out = apply(ts.Spec.Edge(b, si), out)
			}
			if out|inb[succ.Index] != inb[succ.Index] {
				inb[succ.Index] |= out
				if !inq[succ.Index] {
					inq[succ.Index] = true
					work = append(work, succ.Index)
				}
			}
		}
	}
	var exit Mask
	exitB = [2]Mask{}
	for _, b := range fn.Blocks {
		_, e := step(b, inb[b.Index], true)
		exit |= e
	}
	ts.lastExitB = exitB
	return exit
}

func (ts *TS) callEffect(call ssa.CallInstruction, cur Mask, summary func(*ssa.Function, int) Mask, enter func(*ssa.Function, Mask), final bool) Mask {
	if ts.Spec.Callees == nil {
		return cur
	}
	callees := ts.Spec.Callees(call)
	if len(callees) == 0 {
		return cur
	}
	var out Mask
	for _, cal := range callees {
		if final && enter != nil {
			enter(cal, cur)
		}
		for s := 0; s < ts.Spec.N; s++ {
			if cur.Has(s) {
				out |= summary(cal, s)
			}
		}
	}
	return out
}

// Run analyses entry from state set init and calls check for every instruction
// of every function reached (with the union of states over all calling contexts).
// It returns the exit state set of entry.
func (ts *TS) Run(entry *ssa.Function, init Mask, check func(fn *ssa.Function, ins ssa.Instruction, m Mask)) Mask {
	// make sure summaries are complete
	for s := 0; s < ts.Spec.N; s++ {
		if init.Has(s) {
			ts.Summary(entry, s)
		}
	}
	entryStates := map[*ssa.Function]Mask{entry: init}
	work := []*ssa.Function{entry}
	done := map[*ssa.Function]Mask{}
	for len(work) > 0 {
		fn := work[len(work)-1]
		work = work[:len(work)-1]
		m := entryStates[fn]
		if done[fn] == m {
			continue
		}
		done[fn] = m
		ts.intra(fn, m, nil, func(callee *ssa.Function, st int) Mask { return ts.Summary(callee, st) },
			func(callee *ssa.Function, at Mask) {
				if entryStates[callee]|at != entryStates[callee] {
					entryStates[callee] |= at
					work = append(work, callee)
				}
			})
	}
	var exit Mask
	for fn, m := range entryStates {
		f := fn
		e := ts.intra(fn, m, func(ins ssa.Instruction, mm Mask) {
			if check != nil {
				check(f, ins, mm)
			}
		}, func(callee *ssa.Function, st int) Mask { return ts.Summary(callee, st) }, nil)
		if fn == entry {
			exit = e
		}
	}
	return exit
}

// JoinedOnAllPaths returns a return instruction the spawner can reach from the go statement without an
// unconditional channel receive or WaitGroup.Wait (nil: joined on every path).
func JoinedOnAllPaths(g *ssa.Go) *ssa.Return {
	isJoin := func(ins ssa.Instruction) bool {
		switch x := ins.(type) {
		case *ssa.UnOp:
			return x.Op == token.ARROW
		case *ssa.Call:
			return CallName(x) == "(*sync.WaitGroup).Wait"
		}
		return false
	}
	var escaped *ssa.Return
	Search{StopInstr: isJoin}.Reach([]Point{After(g)}, func(ins ssa.Instruction, _ *ssa.BasicBlock) {
		if r, ok := ins.(*ssa.Return); ok && escaped == nil {
			escaped = r
		}
	})
	return escaped
}
