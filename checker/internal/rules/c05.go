package rules

import (
	"go/token"
	"go/types"
	"strings"

	"f2gcheck/internal/ir"

	"golang.org/x/tools/go/ssa"
)

func init() { Registry["C05"] = c05 }

// writerInfo describes the routine that performs the regulation write.
type writerInfo struct {
	fn        *ssa.Function
	setPwm    *ssa.Call // the Fan.SetPwm invoke
	expected  ssa.Value // its argument
	term      *ir.Term  // normalised term of the argument
	reqParam  *ssa.Parameter
	lastField string // controller field that records the last request (address of a cell holding the request parameter)
}

// findWriters locates, in the call tree of UpdateFanSpeed, the functions that invoke Fan.SetPwm.
func (c *Ctx) findWriters(tb *ir.TB) []*writerInfo {
	var out []*writerInfo
	for _, ufs := range c.ImplMethods(PkgCtrl, "FanController", "UpdateFanSpeed") {
		for _, fn := range c.SortedFuncs(c.Closure([]*ssa.Function{ufs}, false, nil)) {
			if load_FuncPkgPath(fn) != PkgCtrl {
				continue
			}
			Calls(fn, func(cc ssa.CallInstruction) {
				call, ok := cc.(*ssa.Call)
				if !ok || !isFanInvoke(cc, "SetPwm") {
					return
				}
				w := &writerInfo{fn: fn, setPwm: call, expected: call.Call.Args[0]}
				w.term = tb.Of(w.expected, nil)
				// the request parameter: the int parameter appearing in the term
				for _, p := range fn.Params {
					ps := tb.Of(p, nil).String()
					if strings.HasPrefix(ps, "param:") && w.term.Has(func(t *ir.Term) bool { return t.String() == ps }) {
						w.reqParam = p
					}
				}
				// last-request field: Store(&recv.F, cell) where cell holds the request parameter
				Instrs(fn, func(ins ssa.Instruction) {
					st, ok := ins.(*ssa.Store)
					if !ok {
						return
					}
					fa, ok := st.Addr.(*ssa.FieldAddr)
					if !ok {
						return
					}
					al, ok := st.Val.(*ssa.Alloc)
					if !ok {
						return
					}
					_, name, _ := ir.FieldName(fa)
					holds := false
					for _, s2 := range ir.StoresTo(al) {
						if w.reqParam != nil && ir.Resolve(s2.Val) == ssa.Value(w.reqParam) {
							holds = true
						} else {
							holds = false
							break
						}
					}
					if holds {
						w.lastField = name
					} else if w.lastField == "" {
						w.lastField = "!" + name // records something else than the request
					}
				})
				out = append(out, w)
			})
		}
	}
	return out
}

func c05(c *Ctx) {
	c.R.Explanation = "C05: three structural conditions decided on the SSA of /repo. R-manual = interprocedural typestate over every FanController.UpdateFanSpeed implementation: every return that may carry a nil error is in state 'manual mode asserted', reached by an invoke Fan.SetPwmEnabled(ControlModePWM) or by crossing the edge Supports(FeatureControlMode) == false (the only admissible guard). R-skip = in the write routine (the function in UpdateFanSpeed's call tree that invokes Fan.SetPwm(e)) every path that returns without that invoke crossed both an edge establishing e == cur, cur = result #0 of a call that reads the fan's PWM on that path, and the err == nil edge of that read. R-count = every store to the third-party counter is control-dependent on cur != e' with cur a fresh successful Fan.GetPwm, on 'a request was made' (last-request field != nil) and e' the same normalised term as the writer's e with the request parameter replaced by the last-request field; the writer records exactly its request parameter in that field (writer and checker agree on map∘closest∘last-request). R-write = (shared with C03) every Fan.SetPwm implementation writes to the device on every path that reports success. Not decided: that the fan reads back what was written (assumed by the quantifier); 'within one cycle' beyond 'every cycle re-asserts and re-compares'."
	tb := ir.NewTB(c.P.IsRepoFunc, c.P.FuncKey)
	tb.NoInline = func(f *ssa.Function) bool { return load_FuncPkgPath(f) != PkgCtrl }

	// ---- R-manual -------------------------------------------------------------
	const stNo, stYes = 0, 1
	spec := ir.TSpec{
		N: 2,
		Instr: func(ins ssa.Instruction) []ir.Mask {
			cc, ok := ins.(ssa.CallInstruction)
			if !ok {
				return nil
			}
			// a helper that always sets the mode it is given, called with the manual mode
			if h := ir.Callee(cc).Static; h != nil && !cc.Common().IsInvoke() && load_FuncPkgPath(h) == PkgCtrl && len(h.Blocks) > 0 && len(h.Blocks) <= 12 {
				for i, a := range cc.Common().Args {
					k, isConst := ir.ConstInt(a)
					if !isConst || k != 1 || i >= len(h.Params) {
						continue
					}
					p := h.Params[i]
					missed := false
					ir.Search{StopInstr: func(i2 ssa.Instruction) bool {
						c2, ok := i2.(ssa.CallInstruction)
						return ok && isFanInvoke(c2, "SetPwmEnabled") && ir.Resolve(c2.Common().Args[0]) == ssa.Value(p)
					}}.Reach([]ir.Point{{Block: h.Blocks[0], Idx: 0}}, func(i2 ssa.Instruction, _ *ssa.BasicBlock) {
						if _, isRet := i2.(*ssa.Return); isRet {
							missed = true
						}
					})
					if !missed {
						return ir.AllTo(2, stYes)
					}
				}
			}
			if !isFanInvoke(cc, "SetPwmEnabled") {
				return nil
			}
			if k, isConst := ir.ConstInt(cc.Common().Args[0]); isConst && k == 1 {
				return ir.AllTo(2, stYes)
			}
			return ir.Ident(2)
		},
		Edge: func(b *ssa.BasicBlock, si int) []ir.Mask {
			if ir.HasBool(ir.EdgeFacts(b, si), false, func(v ssa.Value) bool {
				call, ok := v.(*ssa.Call)
				if !ok || !isFanInvoke(call, "Supports") {
					return false
				}
				k, isConst := ir.ConstInt(call.Call.Args[0])
				return isConst && k == 2 // FeatureControlMode
			}) {
				return ir.AllTo(2, stYes)
			}
			return nil
		},
		Callees:  func(call ssa.CallInstruction) []*ssa.Function { return c.Callees(call) },
		NoReturn: func(ins ssa.Instruction) bool { return c.noReturnCall(ins) },
	}
	for _, ufs := range c.ImplMethods(PkgCtrl, "FanController", "UpdateFanSpeed") {
		key := c.FK(ufs)
		ei := errResultIndex(ufs)
		ts := ir.NewTS(spec)
		bad := ""
		ts.Run(ufs, ir.Bit(stNo), func(fn *ssa.Function, ins ssa.Instruction, m ir.Mask) {
			r, ok := ins.(*ssa.Return)
			if !ok || fn != ufs || !m.Has(stNo) {
				return
			}
			if ei >= 0 && !mayBeNilError(r.Results[ei], ir.BlockFacts(r.Block())) {
				return
			}
			bad = c.P.Pos(r.Pos())
		})
		if bad != "" {
			c.R.Bad("R-manual", key, key, bad, "a control cycle can complete successfully without re-asserting manual mode (SetPwmEnabled(ControlModePWM)); the only admissible guard is Supports(FeatureControlMode) == false")
		} else {
			c.R.Ok("R-manual", key, key, c.P.Pos(ufs.Pos()), "every nil-error return of the cycle passed SetPwmEnabled(ControlModePWM) or the edge Supports(FeatureControlMode) == false")
		}
	}
	c.R.Require("R-manual", 1)

	// ---- R-skip -----------------------------------------------------------------
	writers := c.ruleSkip("R-skip", tb)
	// ... and the write itself reaches the device in every Fan.SetPwm implementation (shared with C03)
	c.ruleFanWrites("R-write")

	// ---- R-count ------------------------------------------------------------------
	for _, w := range writers {
		key := c.FK(w.fn)
		if w.reqParam == nil {
			c.R.Undecided("R-lastreq", key, key, c.P.Pos(w.fn.Pos()), "request parameter of the write routine not identified")
			continue
		}
		if w.lastField == "" || strings.HasPrefix(w.lastField, "!") {
			c.R.Bad("R-lastreq", key, key, c.P.Pos(w.fn.Pos()), "the write routine does not record its unmodified request parameter in a last-request field ("+w.lastField+"): the stall test and the third-party check compare against a different value than the request")
		} else {
			c.R.Ok("R-lastreq", key, key, c.P.Pos(w.fn.Pos()), "the write routine records its request parameter in field "+w.lastField)
		}
	}
	c.R.Require("R-lastreq", 1)
	ncount := 0
	for _, fn := range c.P.Funcs {
		Instrs(fn, func(ins ssa.Instruction) {
			st, ok := ins.(*ssa.Store)
			if !ok {
				return
			}
			fa, ok := st.Addr.(*ssa.FieldAddr)
			if !ok {
				return
			}
			if _, name, _ := ir.FieldName(fa); name != "UnexpectedPwmValueCount" {
				return
			}
			if load_FuncPkgPath(fn) != PkgCtrl {
				c.R.Bad("R-count", c.FK(fn)+"|foreign-store", c.FK(fn), c.P.Pos(st.Pos()), "the third-party counter is written outside the controller package")
				return
			}
			ncount++
			key := c.FK(fn)
			facts := ir.BlockFacts(st.Block())
			fn := fn
			// the increment extracted into a method of its own (f.countUnexpectedPwmValue()): the guards are
			// those of its call site
			if len(facts) == 0 {
				if sites := c.StaticCallers(fn); len(sites) == 1 && load_FuncPkgPath(sites[0].Parent()) == PkgCtrl {
					if len(ir.Returns(fn)) == 1 && len(fn.Blocks) <= 2 {
						facts = ir.BlockFacts(sites[0].Block())
						fn = sites[0].Parent()
					}
				}
			}
			var w *writerInfo
			for _, x := range writers {
				if x.lastField != "" && !strings.HasPrefix(x.lastField, "!") {
					w = x
				}
			}
			if w == nil {
				c.R.Undecided("R-count", key, key, c.P.Pos(st.Pos()), "no writer with a last-request field to compare with")
				return
			}
			recvT := "recv:" + recvTypeName(w.fn)
			lastTerm := "load(field:" + w.lastField + "(" + recvT + "))"
			want := w.term.Subst(tb.Of(w.reqParam, nil).String(), &ir.Term{Op: "load", Args: []*ir.Term{{Op: "field:" + w.lastField, Args: []*ir.Term{{Op: recvT}}}}})
			var cur ssa.Value
			agree := ir.HasFact(facts, token.NEQ, func(x, y ssa.Value) bool {
				for _, p := range [][2]ssa.Value{{x, y}, {y, x}} {
					ex, ok := p[0].(*ssa.Extract)
					if !ok || ex.Index != 0 {
						continue
					}
					call, ok := ex.Tuple.(*ssa.Call)
					if !ok || !isFanInvoke(call, "GetPwm") {
						continue
					}
					if tb.Of(p[1], nil).String() == want.String() {
						cur = ex
						return true
					}
				}
				return false
			})
			fresh := false
			if cur != nil {
				call := cur.(*ssa.Extract).Tuple.(*ssa.Call)
				errv := ir.Resolve(resultOfCall(call, 1))
				fresh = call.Parent() == fn && ir.HasFact(facts, token.EQL, func(x, y ssa.Value) bool { return x == errv && ir.IsNilConst(y) })
			}
			requested := ir.HasFact(facts, token.NEQ, func(x, y ssa.Value) bool {
				return ir.IsNilConst(y) && tb.Of(x, nil).String() == "field:"+w.lastField+"("+recvT+")"
			})
			incr := false
			if b, ok := ir.Resolve(st.Val).(*ssa.BinOp); ok && b.Op == token.ADD {
				if k, isConst := ir.ConstInt(b.Y); isConst && k > 0 {
					incr = true
				}
			}
			switch {
			case !agree:
				c.R.Bad("R-count", key, key, c.P.Pos(st.Pos()), "the third-party counter is not guarded by  Fan.GetPwm() != "+want.String()+"  (the writer's expected value applied to the last request "+lastTerm+"): a change is missed or a false one counted")
			case !fresh:
				c.R.Bad("R-count", key, key, c.P.Pos(st.Pos()), "the compared PWM is not a fresh, successful read in the same routine")
			case !requested:
				c.R.Bad("R-count", key, key, c.P.Pos(st.Pos()), "the third-party check is not skipped while no request was made yet (last-request field may be nil)")
			case !incr:
				c.R.Bad("R-count", key, key, c.P.Pos(st.Pos()), "the counter is not incremented by a positive constant")
			default:
				c.R.Ok("R-count", key, key, c.P.Pos(st.Pos()), "counter++ only under: request made, fresh successful GetPwm, current != "+want.String())
			}
		})
	}
	if ncount == 0 {
		c.R.Undecided("R-count", "no-store", "controller", "-", "no store to the third-party counter found (anchor unresolved)")
	}
	// the count is never lost: a store of the whole statistics struct must carry the current count over
	for _, fn := range c.P.Funcs {
		if !c.P.IsRepoFunc(fn) {
			continue
		}
		Instrs(fn, func(ins ssa.Instruction) {
			st, ok := ins.(*ssa.Store)
			if !ok {
				return
			}
			stt, ok := st.Val.Type().Underlying().(*types.Struct)
			if !ok {
				return
			}
			ci := -1
			for i := 0; i < stt.NumFields(); i++ {
				if stt.Field(i).Name() == "UnexpectedPwmValueCount" {
					ci = i
				}
			}
			if ci < 0 {
				return
			}
			if _, isField := st.Addr.(*ssa.FieldAddr); !isField {
				return // a local copy being built, not the controller's state
			}
			key := c.FK(fn) + "|whole-struct"
			// the value: a load of a local struct; that local must have received the old count
			kept := false
			if u, ok := st.Val.(*ssa.UnOp); ok && u.Op == token.MUL {
				if al, ok := u.X.(*ssa.Alloc); ok && al.Referrers() != nil {
					for _, r := range *al.Referrers() {
						fa, ok := r.(*ssa.FieldAddr)
						if !ok || fa.Field != ci || fa.Referrers() == nil {
							continue
						}
						for _, r2 := range *fa.Referrers() {
							if s2, ok := r2.(*ssa.Store); ok {
								if t := tb.Of(s2.Val, nil); strings.Contains(t.String(), "field:UnexpectedPwmValueCount") && !strings.Contains(t.String(), "bin:") {
									kept = true
								}
							}
						}
					}
				}
			}
			if kept {
				c.R.Ok("R-count", key, c.FK(fn), c.P.Pos(st.Pos()), "the statistics are replaced as a whole and the third-party count is carried over")
			} else {
				c.R.Bad("R-count", key, c.FK(fn), c.P.Pos(st.Pos()), "the statistics struct is overwritten as a whole without carrying the third-party count over: changes already counted are lost (the counter drops to zero)")
			}
		})
	}
	// the check must be executed in every cycle: UpdateFanSpeed's call tree reaches the counter store
	for _, ufs := range c.ImplMethods(PkgCtrl, "FanController", "UpdateFanSpeed") {
		reachesCount := false
		for fn := range c.Closure([]*ssa.Function{ufs}, false, nil) {
			Instrs(fn, func(ins ssa.Instruction) {
				if st, ok := ins.(*ssa.Store); ok {
					if fa, ok := st.Addr.(*ssa.FieldAddr); ok {
						if _, name, _ := ir.FieldName(fa); name == "UnexpectedPwmValueCount" {
							reachesCount = true
						}
					}
				}
			})
		}
		if reachesCount {
			c.R.Ok("R-count-cycle", c.FK(ufs), c.FK(ufs), c.P.Pos(ufs.Pos()), "the third-party check is part of the control cycle's call tree")
		} else {
			c.R.Bad("R-count-cycle", c.FK(ufs), c.FK(ufs), c.P.Pos(ufs.Pos()), "the control cycle never performs the third-party check")
		}
	}
}

// recvTypeName returns the name of the receiver's named type of a method ("" for functions).
func recvTypeName(fn *ssa.Function) string {
	if fn == nil || fn.Signature.Recv() == nil {
		return ""
	}
	if n := ir.NamedOf(fn.Signature.Recv().Type()); n != nil {
		return n.Obj().Name()
	}
	return ""
}

// ruleSkip: the write routine skips the write only when a fresh, successful read of the fan's PWM equals the
// value it would write (shared by C05 and C07: a write skipped on any other condition leaves a stale value).
func (c *Ctx) ruleSkip(rule string, tb *ir.TB) []*writerInfo {
	writers := c.findWriters(tb)
	if len(writers) == 0 {
		c.R.Undecided(rule, "no-writer", "UpdateFanSpeed", "-", "no Fan.SetPwm invoke in the call tree of UpdateFanSpeed (anchor unresolved)")
	}
	readsPwm := func(call *ssa.Call) bool {
		if isFanInvoke(call, "GetPwm") {
			return true
		}
		for _, cal := range c.Callees(call) {
			if c.reaches(cal, func(cc ssa.CallInstruction) bool { return isFanInvoke(cc, "GetPwm") }) {
				return true
			}
		}
		return false
	}
	for _, w := range writers {
		key := c.FK(w.fn)
		c.R.Note("write routine", key+": SetPwm("+w.term.String()+")")
		exp := ir.Resolve(w.expected)
		eqEdge := func(b *ssa.BasicBlock, si int) bool {
			return ir.HasFact(ir.EdgeFacts(b, si), token.EQL, func(x, y ssa.Value) bool {
				var other ssa.Value
				if x == exp {
					other = y
				} else if y == exp {
					other = x
				} else {
					return false
				}
				ex, ok := other.(*ssa.Extract)
				if !ok || ex.Index != 0 {
					return false
				}
				call, ok := ex.Tuple.(*ssa.Call)
				return ok && readsPwm(call)
			})
		}
		okEdge := func(b *ssa.BasicBlock, si int) bool {
			return ir.HasFact(ir.EdgeFacts(b, si), token.EQL, func(x, y ssa.Value) bool {
				if !ir.IsNilConst(y) {
					return false
				}
				ex, ok := x.(*ssa.Extract)
				if !ok {
					return false
				}
				call, ok := ex.Tuple.(*ssa.Call)
				return ok && readsPwm(call)
			})
		}
		isWrite := func(ins ssa.Instruction) bool { return ins == ssa.Instruction(w.setPwm) }
		start := []ir.Point{{Block: w.fn.Blocks[0]}}
		noEq := returnsFrom(start, ir.Search{StopInstr: isWrite, StopEdge: eqEdge})
		noOk := returnsFrom(start, ir.Search{StopInstr: isWrite, StopEdge: okEdge})
		if len(noEq) > 0 {
			c.R.Bad(rule, key, key, c.P.Pos(noEq[0].ret.Pos()), "the write routine can return without writing on a path that did not establish expected == current PWM")
		} else if len(noOk) > 0 {
			c.R.Bad(rule, key, key, c.P.Pos(noOk[0].ret.Pos()), "the write routine can skip the write on a path where the PWM read-back was not established successful (err == nil)")
		} else {
			c.R.Ok(rule, key, key, c.P.Pos(w.setPwm.Pos()), "the write is skipped only across edges establishing a successful PWM read and expected == current")
		}
	}
	c.R.Require(rule, 1)
	return writers
}
