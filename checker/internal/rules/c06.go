package rules

import (
	"go/token"
	"strings"

	"f2gcheck/internal/ir"
	"f2gcheck/internal/ranges"

	"golang.org/x/tools/go/ssa"
)

func init() { Registry["C06"] = c06 }

func c06(c *Ctx) {
	c.R.Explanation = "C06: only the range clause (every curve evaluates to an integer in 0..255) is decided, by the symbolic range analysis (E4) with assume/guarantee on the interface SpeedCurve.Evaluate: at call sites (members of a function curve) result #0 is *assumed* in [0,255]; for every implementation each nil-error return is *proved* in [0,255] per incoming edge of the result (one obligation per curve form), which makes arbitrarily nested function curves an induction instead of an unrolling. Proved forms: linear min/max (saturation edges, n/(X-Y) rule, *255, truncation), PID (util.Coerce(.,0,1) evaluated in place, *255), function types sum (monotone loop-carried sum, math.Min(255,.)), difference (non-increasing after the first member, math.Max(0,.)), minimum, maximum, and the unknown-type default. R-members = every member evaluation of a function curve is performed on the object looked up, in that evaluation, for an element of Config.Function.Curves (the aggregate covers exactly the configured members). R-current = every successful return of every Evaluate implementation is preceded on all paths by SetValue of the returned value (CurrentValue, read by the API, metrics and parent curves, agrees with Evaluate). Not decided, by design, and listed as such: agreement with the documented function (numerical); delta and average (need the relational facts dmax >= dmin and total <= 255*n); the steps form (convexity of a loop-carried interpolation needs a relational loop invariant)."
	c.R.Assumptions = append(c.R.Assumptions,
		"sensor values are finite, non-NaN (the property excludes the rest: C08) so negated float comparisons behave as on reals",
		"linear curves have min < max (hypothesis of the n/(X-Y) rule)",
		"util.PidLoop.Loop returns a non-NaN value (elapsed time > 0)",
		"members of a function curve are SpeedCurves that satisfy this same range guarantee (induction hypothesis)")
	tb := ir.NewTB(c.P.IsRepoFunc, c.P.FuncKey)
	tb.InlineMaxBlocks = 0
	tb.ParamCallers = c.StaticCallers
	tb.ParamCallersMulti = true

	notDecided := map[string]string{
		"delta":   "needs the relational fact dmax >= dmin",
		"average": "needs the relational fact total <= 255 * len(curves) (and len > 0: C11)",
		"steps":   "step interpolation: convexity of a loop-carried interpolation needs a relational loop invariant (xValues[i] <= input < xValues[i+1])",
	}
	for _, fn := range c.ImplMethods(PkgCurves, "SpeedCurve", "Evaluate") {
		fk := c.FK(fn)
		c.R.Note("functions", fk)
		ei := errResultIndex(fn)
		n := 0
		for _, ret := range ir.Returns(fn) {
			facts0 := ranges.FactsAt(ret.Block(), nil)
			if ei >= 0 && !mayBeNilError(ret.Results[ei], facts0) {
				continue
			}
			// enumerate the incoming edges of the returned value (one per curve form)
			type edgeVal struct {
				val   ssa.Value
				facts []ir.Fact
				label string
				an    *ranges.An
			}
			var evs []edgeVal
			newAn := func(f *ssa.Function) *ranges.An {
				an := ranges.New(f)
				an.Name = func(v ssa.Value) string {
					s := tb.Of(v, nil).String()
					if len(s) > 60 {
						s = s[:60] + "…"
					}
					return s
				}
				an.Inline = func(f *ssa.Function) bool {
					// small pure helpers of the curves / util packages are evaluated in place (Coerce, sumOf, ...)
					p := load_FuncPkgPath(f)
					return (p == PkgUtil || p == PkgCurves) && len(f.Blocks) <= 12 && f.Name() != "Loop" && f.Name() != "CalculateInterpolatedCurveValue"
				}
				an.Assume = c.curveAssume(tb)
				return an
			}
			// ctx: the form label established further out (a type switch whose arms call one helper per form)
			specific := func(l string) bool { return l != "" && l != "value" && l != "default-unknown-type" }
			var enum func(an *ranges.An, v ssa.Value, facts []ir.Fact, depth int, ctx string)
			enum = func(an *ranges.An, v ssa.Value, facts []ir.Fact, depth int, ctx string) {
				rv := ir.Resolve(v)
				if phi, ok := rv.(*ssa.Phi); ok && depth < 4 {
					for i, e := range phi.Edges {
						pred := phi.Block().Preds[i]
						enum(an, e, ranges.FactsAt(phi.Block(), pred), depth+1, ctx)
					}
					return
				}
				if ctx == "" {
					if l := c.curveFormLabel(facts, rv, tb); specific(l) {
						ctx = l
					}
				}
				// the form switch moved into a helper of the curves package: enumerate its returns
				if call, ok := rv.(*ssa.Call); ok && depth < 4 {
					if cal := ir.Callee(call).Static; cal != nil && load_FuncPkgPath(cal) == PkgCurves && len(cal.Blocks) > 0 && cal.Name() != "SetValue" {
						if sub := an.Enter(call, facts); sub != nil {
							for _, r2 := range ir.Returns(cal) {
								enum(sub, r2.Results[0], ranges.FactsAt(r2.Block(), nil), depth+1, ctx)
							}
							return
						}
					}
				}
				label := c.curveFormLabel(facts, rv, tb)
				if ctx != "" {
					label = ctx
				}
				evs = append(evs, edgeVal{rv, facts, label, an})
			}
			enum(newAn(fn), ret.Results[0], facts0, 0, "")
			for _, ev := range evs {
				n++
				key := fk + "|" + ev.label
				if why, skip := notDecided[ev.label]; skip {
					c.R.Excluded("R-range", key, fk, c.P.Pos(ret.Pos()), why)
					continue
				}
				an := ev.an
				av := an.Eval(ev.val, ev.facts)
				lo, hi, okLo, okHi := av.ConstBounds()
				desc := an.AVString(av)
				if okLo && okHi && lo >= 0 && hi <= 255 && !av.NaN {
					c.R.Add(obOK("R-range", key, fk, c.P.Pos(ret.Pos()), "proved 0 <= value <= 255 for the "+ev.label+" form: "+desc, an.Hyps))
				} else {
					c.R.Bad("R-range", key, fk, c.P.Pos(ret.Pos()), "cannot prove 0 <= value <= 255 for the "+ev.label+" form: "+desc)
				}
			}
		}
		if n == 0 {
			c.R.Undecided("R-range", fk, fk, c.P.Pos(fn.Pos()), "no nil-error return found")
		}
	}
	c.R.Require("R-range", 7)
	// R-members: a function curve aggregates exactly its configured members: every member evaluation in
	// Evaluate is performed on an object looked up (in this activation) for an element of Config.Function.Curves
	for _, fn := range c.ImplMethods(PkgCurves, "SpeedCurve", "Evaluate") {
		fk := c.FK(fn)
		tbm := ir.NewTB(c.P.IsRepoFunc, c.P.FuncKey)
		tbm.ParamCallers = c.StaticCallers // the lookup may sit in a helper that receives the member id
		n, bad := 0, ""
		// the evaluation itself and the curves-package helpers it calls that hand back a member's value
		scope := []*ssa.Function{fn}
		Calls(fn, func(cc ssa.CallInstruction) {
			if cal := ir.Callee(cc).Static; cal != nil && load_FuncPkgPath(cal) == PkgCurves && yieldsCurveValue(cal, 2) {
				scope = append(scope, cal)
			}
		})
		for _, sf := range scope {
			Calls(sf, func(cc ssa.CallInstruction) {
				if !ir.IsInvoke(cc, PkgCurves, "SpeedCurve", "Evaluate") {
					return
				}
				n++
				t := tbm.Of(cc.Common().Value, nil)
				if !strings.Contains(t.String(), "field:Curves(field:Function") {
					bad = "a member is evaluated that is not looked up from Config.Function.Curves in this evaluation (" + t.String() + ") at " + c.P.Pos(cc.Pos())
				}
			})
		}
		if n == 0 {
			continue
		}
		if bad != "" {
			c.R.Bad("R-members", fk, fk, c.P.Pos(fn.Pos()), bad+": the aggregate may cover only a subset (or a stale set) of the configured members")
		} else {
			c.R.Ok("R-members", fk, fk, c.P.Pos(fn.Pos()), "every evaluated member is the registry object of an element of Config.Function.Curves, looked up in this evaluation")
		}
	}
	c.R.Require("R-members", 1)
	// the value stored for API/metrics (CurrentValue) is the returned one, on every successful path
	for _, fn := range c.ImplMethods(PkgCurves, "SpeedCurve", "Evaluate") {
		fk := c.FK(fn)
		ei := errResultIndex(fn)
		if ei < 0 || len(fn.Blocks) == 0 {
			continue
		}
		isSet := func(ins ssa.Instruction) bool {
			cc, ok := ins.(ssa.CallInstruction)
			if !ok {
				return false
			}
			if _, isDefer := ins.(*ssa.Defer); isDefer {
				return false
			}
			return setValueArg(cc) != nil
		}
		succeeds := func(rv retVia) bool {
			facts := factsAt(rv.ret.Block(), rv.via)
			return mayBeNilError(rv.ret.Results[ei], facts) && mayBeNilError(ir.ResultVia(rv.ret, ei, rv.via), facts)
		}
		bad := ""
		for _, rv := range returnsFrom([]ir.Point{{Block: fn.Blocks[0]}}, ir.Search{StopInstr: isSet}) {
			if succeeds(rv) {
				bad = "a successful return at " + c.P.Pos(rv.ret.Pos()) + " is reachable without publishing the value via SetValue: CurrentValue (API, metrics, parent curves reading it) disagrees with what Evaluate returned"
			}
		}
		nSet := 0
		Instrs(fn, func(ins ssa.Instruction) {
			if !isSet(ins) {
				return
			}
			nSet++
			arg := ir.Resolve(setValueArg(ins.(ssa.CallInstruction)))
			for _, rv := range returnsFrom([]ir.Point{ir.After(ins)}, ir.Search{StopInstr: isSet}) {
				if !succeeds(rv) {
					continue
				}
				if ir.Resolve(ir.ResultVia(rv.ret, 0, rv.via)) != arg && ir.Resolve(rv.ret.Results[0]) != arg && bad == "" {
					bad = "the value published via SetValue at " + c.P.Pos(ins.Pos()) + " differs from the value returned at " + c.P.Pos(rv.ret.Pos())
				}
			}
		})
		if nSet == 0 {
			bad = "Evaluate never publishes its value via SetValue"
		}
		if bad == "" {
			c.R.Ok("R-current", fk, fk, c.P.Pos(fn.Pos()), "every successful return is preceded by SetValue of the returned value")
		} else {
			c.R.Bad("R-current", fk, fk, c.P.Pos(fn.Pos()), bad)
		}
	}
}

// curveFormLabel names the curve form an edge of the result belongs to.
func (c *Ctx) curveFormLabel(facts []ir.Fact, val ssa.Value, tb *ir.TB) string {
	// function curve: the dominating comparison Function.Type == "<const>"
	label := ""
	for _, f := range facts {
		if f.Op == token.EQL {
			if s, ok := ir.ConstString(f.Y); ok && tb.Of(f.X, nil).Op == "field:Type" {
				label = s
			}
			if s, ok := ir.ConstString(f.X); ok && tb.Of(f.Y, nil).Op == "field:Type" {
				label = s
			}
		}
	}
	if label != "" {
		return label
	}
	isSteps := false
	isMinMax := false
	for _, f := range facts {
		for _, v := range []ssa.Value{f.X, f.Y} {
			if v != nil && tb.Of(v, nil).Op == "field:Steps" {
				if f.Op == token.NEQ {
					isSteps = true
				} else if f.Op == token.EQL {
					isMinMax = true
				}
			}
		}
	}
	switch {
	case isSteps:
		return "steps"
	case isMinMax:
		t := tb.Of(val, nil).String()
		switch {
		case t == "const:255":
			return "linear-at-or-above-max"
		case t == "const:0":
			return "linear-at-or-below-min"
		}
		return "linear-interpolated"
	}
	t := tb.Of(val, nil).String()
	if strings.Contains(t, "Coerce") || strings.Contains(t, "PidLoop") {
		return "pid"
	}
	if t == "const:0" {
		return "default-unknown-type"
	}
	return "value"
}

// sliceOfCurveValues: the slice is built only by appending result #0 of SpeedCurve.Evaluate invokes.
func sliceOfCurveValues(t *ir.Term) bool {
	isElem := func(e *ir.Term) bool {
		if e.Op != "res0" || len(e.Args) != 1 {
			return false
		}
		if e.Args[0].Op == "invoke:"+PkgCurves+".SpeedCurve.Evaluate" {
			return true
		}
		// a helper of the curves package that hands back a member's Evaluate result (looked up and evaluated in one place)
		if call, ok := e.Args[0].Val.(*ssa.Call); ok {
			if cal := ir.Callee(call).Static; cal != nil && load_FuncPkgPath(cal) == PkgCurves {
				return yieldsCurveValue(cal, 2)
			}
		}
		return false
	}
	var ok func(t *ir.Term) bool
	n := 0
	ok = func(t *ir.Term) bool {
		switch {
		case t.Op == "nil" || t.Op == "loop" || strings.HasPrefix(t.Op, "makeslice:") || strings.HasPrefix(t.Op, "zero:"):
			return true
		case t.Op == "phi":
			for _, a := range t.Args {
				if !ok(a) {
					return false
				}
			}
			return true
		case t.Op == "builtin:append" && len(t.Args) == 2 && t.Args[1].Op == "list":
			if !ok(t.Args[0]) {
				return false
			}
			for _, e := range t.Args[1].Args {
				if !isElem(e) {
					return false
				}
				n++
			}
			return true
		}
		return false
	}
	return ok(t) && n > 0
}

// yieldsCurveValue: result #0 of every return of fn is result #0 of an interface call SpeedCurve.Evaluate
// (possibly through another such helper) or an integer constant in 0..255.
func yieldsCurveValue(fn *ssa.Function, depth int) bool {
	if len(fn.Blocks) == 0 || fn.Signature.Results().Len() < 1 {
		return false
	}
	rets := ir.Returns(fn)
	for _, r := range rets {
		v := ir.Resolve(r.Results[0])
		if k, isConst := ir.ConstInt(v); isConst && k >= 0 && k <= 255 {
			continue
		}
		ex, ok := v.(*ssa.Extract)
		if !ok || ex.Index != 0 {
			return false
		}
		call, ok := ex.Tuple.(*ssa.Call)
		if !ok {
			return false
		}
		if ir.IsInvoke(call, PkgCurves, "SpeedCurve", "Evaluate") {
			continue
		}
		if cal := ir.Callee(call).Static; cal != nil && depth > 0 && load_FuncPkgPath(cal) == PkgCurves && yieldsCurveValue(cal, depth-1) {
			continue
		}
		return false
	}
	return len(rets) > 0
}

// curveAssume is the assume side of the SpeedCurve.Evaluate contract.
func (c *Ctx) curveAssume(tb *ir.TB) func(v ssa.Value) (ranges.AV, bool) {
	return func(v ssa.Value) (ranges.AV, bool) {
		// result #0 of an interface call SpeedCurve.Evaluate
		if ex, ok := v.(*ssa.Extract); ok && ex.Index == 0 {
			if call, ok := ex.Tuple.(*ssa.Call); ok && ir.IsInvoke(call, PkgCurves, "SpeedCurve", "Evaluate") {
				return ranges.AV{Lo: []ranges.Lin{ranges.Konst(0)}, Hi: []ranges.Lin{ranges.Konst(255)}}, true
			}
			if call, ok := ex.Tuple.(*ssa.Call); ok {
				if cal := ir.Callee(call).Static; cal != nil && load_FuncPkgPath(cal) == PkgCurves && yieldsCurveValue(cal, 2) {
					return ranges.AV{Lo: []ranges.Lin{ranges.Konst(0)}, Hi: []ranges.Lin{ranges.Konst(255)}}, true
				}
			}
		}
		// element of a slice built only from such results
		if u, ok := v.(*ssa.UnOp); ok && u.Op == token.MUL {
			if ia, ok := u.X.(*ssa.IndexAddr); ok {
				if sliceOfCurveValues(tb.Of(ia.X, nil)) {
					return ranges.AV{Lo: []ranges.Lin{ranges.Konst(0)}, Hi: []ranges.Lin{ranges.Konst(255)}}, true
				}
			}
		}
		return ranges.AV{}, false
	}
}

// setValueArg: the value a call publishes as the curve's current value: the argument of SetValue itself, or the
// argument handed to a curves-package helper that passes that parameter to SetValue on every path (publish(v)).
func setValueArg(cc ssa.CallInstruction) ssa.Value {
	st := ir.Callee(cc).Static
	if st == nil {
		return nil
	}
	args := cc.Common().Args
	if st.Name() == "SetValue" && len(args) == 2 {
		return args[1]
	}
	if load_FuncPkgPath(st) != PkgCurves || len(st.Blocks) == 0 || len(st.Blocks) > 8 {
		return nil
	}
	// the helper must pass SetValue(param) on every path to a return
	var prm *ssa.Parameter
	isInner := func(ins ssa.Instruction) bool {
		c2, ok := ins.(ssa.CallInstruction)
		if !ok {
			return false
		}
		if _, isDefer := ins.(*ssa.Defer); isDefer {
			return false
		}
		s2 := ir.Callee(c2).Static
		if s2 == nil || s2.Name() != "SetValue" || len(c2.Common().Args) != 2 {
			return false
		}
		p, ok := ir.Resolve(c2.Common().Args[1]).(*ssa.Parameter)
		if !ok {
			return false
		}
		if prm != nil && prm != p {
			return false
		}
		prm = p
		return true
	}
	if len(returnsFrom([]ir.Point{{Block: st.Blocks[0]}}, ir.Search{StopInstr: isInner})) > 0 || prm == nil {
		return nil
	}
	for i, q := range st.Params {
		if q == prm && i < len(args) {
			return args[i]
		}
	}
	return nil
}
