package rules

import (
	"go/token"
	"go/types"
	"strings"

	"f2gcheck/internal/ir"

	"golang.org/x/tools/go/ssa"
)

func init() { Registry["C19"] = c19 }

// blockingOp classifies instructions that can block for an unbounded time.
func blockingOp(ins ssa.Instruction) string {
	switch x := ins.(type) {
	case *ssa.Send:
		return "channel send"
	case *ssa.UnOp:
		if x.Op == token.ARROW {
			return "channel receive"
		}
	case *ssa.Select:
		if x.Blocking {
			return "blocking select"
		}
	case *ssa.Call:
		switch ir.CallName(x) {
		case "(*sync.Mutex).Lock", "(*sync.RWMutex).Lock", "(*sync.RWMutex).RLock", "(*sync.WaitGroup).Wait", "(*sync.Cond).Wait", "time.Sleep",
			"(*golang.org/x/sync/semaphore.Weighted).Acquire", "(*sync.Once).Do":
			return ir.CallName(x)
		}
	}
	return ""
}

func c19(c *Ctx) {
	c.R.Explanation = "C19: the structural preconditions of the time bound and of crash-freedom of util.SafeCmdExecution are decided on the SSA of /repo: R-deadline = the *exec.Cmd that is run comes from exec.CommandContext with a context from context.WithTimeout(_, timeout parameter), and every caller passes a constant timeout in (0, 2s]; R-waitdelay = Cmd.WaitDelay is stored with a non-zero value on every path before Output/Run/Wait (with captured output only WaitDelay bounds the wait for pipe holders); R-noblock = no unbounded blocking operation (channel send/receive, blocking select, mutex/WaitGroup/Cond wait, Sleep) in the call tree of SafeCmdExecution outside the logging package (anything waited for outside the context deadline is not covered by the timeout); R-noassert = no comma-less type assertion on an error value in that call tree; R-err = in SafeCmdExecution every return reachable from a failure edge (check error, Output error, deadline) carries a non-nil error or an error-typed value from the failing call; R-parse / R-cmderr = command fan/sensor methods return parse errors and command errors (never ignored). Not decided: the wall-clock bound itself."
	c.R.Assumptions = append(c.R.Assumptions,
		"os/exec semantics: CommandContext kills the process at the deadline; WaitDelay (Go >= 1.20) force-closes the pipes after the kill/exit",
		"ui logging (package internal/ui) holds its mutex only while printing and is treated as non-blocking")

	safe := c.Func(PkgUtil, "SafeCmdExecution")
	if safe == nil {
		return
	}
	fk := c.FK(safe)
	tb := ir.NewTB(c.P.IsRepoFunc, c.P.FuncKey)

	// locate the command creation and the run call
	var cmdCalls, runCalls []*ssa.Call
	Calls(safe, func(cc ssa.CallInstruction) {
		call, ok := cc.(*ssa.Call)
		if !ok {
			return
		}
		n := ir.CallName(call)
		if _, isPC := processCreators[n]; isPC {
			cmdCalls = append(cmdCalls, call)
		}
		switch n {
		case "(*os/exec.Cmd).Output", "(*os/exec.Cmd).Run", "(*os/exec.Cmd).CombinedOutput", "(*os/exec.Cmd).Wait", "(*os/exec.Cmd).Start":
			runCalls = append(runCalls, call)
		}
	})
	if len(cmdCalls) == 0 || len(runCalls) == 0 {
		c.R.Undecided("R-deadline", fk, fk, c.P.Pos(safe.Pos()), "no exec.Command*/run call found in SafeCmdExecution (anchor unresolved)")
		return
	}

	// ---- R-deadline -----------------------------------------------------------
	for _, rc := range runCalls {
		key := fk + "|" + ir.CallName(rc)
		recv := tb.Of(rc.Call.Args[0], nil)
		ok := recv.Op == "call:os/exec.CommandContext" && len(recv.Args) >= 2
		detail := recv.String()
		if ok {
			ctx := recv.Args[0]
			// ctx must be res0(call:context.WithTimeout(_, param timeout)) or WithDeadline
			wt := ctx.Find(func(t *ir.Term) bool {
				return t.Op == "call:context.WithTimeout" || t.Op == "call:context.WithDeadline"
			})
			ok = wt != nil && ctx.Op == "res0" && len(wt.Args) == 2 && strings.HasPrefix(wt.Args[1].Op, "param:")
			if ok {
				// the parent context must not be something that never expires *and* the timeout is the function's parameter
				detail = "cmd = exec.CommandContext(ctx, ...), ctx = " + ctx.String()
			}
		}
		if ok {
			c.R.Ok("R-deadline", key, fk, c.P.Pos(rc.Pos()), detail)
		} else {
			c.R.Bad("R-deadline", key, fk, c.P.Pos(rc.Pos()), "the command that is run is not created by exec.CommandContext with a context from context.WithTimeout(_, timeout): "+detail)
		}
	}
	c.R.Require("R-deadline", 1)

	// every caller passes a constant timeout in (0, 2s]
	ncallers := 0
	for _, fn := range c.P.Funcs {
		Calls(fn, func(cc ssa.CallInstruction) {
			if ir.Callee(cc).Static != safe {
				return
			}
			ncallers++
			key := c.FK(fn) + "|timeout"
			args := cc.Common().Args
			if len(args) < 3 {
				c.R.Undecided("R-timeout", key, c.FK(fn), c.P.Pos(cc.Pos()), "unexpected signature")
				return
			}
			if ns, ok := ir.ConstInt(ir.Resolve(args[2])); ok && ns > 0 && ns <= 2_000_000_000 {
				c.R.Ok("R-timeout", key, c.FK(fn), c.P.Pos(cc.Pos()), sprintf("constant timeout %dms", ns/1_000_000))
			} else {
				c.R.Bad("R-timeout", key, c.FK(fn), c.P.Pos(cc.Pos()), "timeout passed to SafeCmdExecution is not a constant in (0, 2s]: "+tb.Of(args[2], nil).String())
			}
		})
	}
	c.R.Require("R-timeout", 1)
	c.R.Stats["SafeCmdExecution_call_sites"] = ncallers

	// ---- R-waitdelay ----------------------------------------------------------
	for _, rc := range runCalls {
		key := fk + "|" + ir.CallName(rc)
		cmdv := ir.Resolve(rc.Call.Args[0])
		isWD := func(ins ssa.Instruction) bool {
			st, ok := ins.(*ssa.Store)
			if !ok {
				return false
			}
			fa, ok := st.Addr.(*ssa.FieldAddr)
			if !ok || ir.Resolve(fa.X) != cmdv {
				return false
			}
			if _, name, _ := ir.FieldName(fa); name != "WaitDelay" {
				return false
			}
			if k, isConst := ir.ConstInt(st.Val); isConst && k <= 0 {
				return false
			}
			return true
		}
		var starts []ir.Point
		if def, ok := cmdv.(ssa.Instruction); ok {
			starts = []ir.Point{ir.After(def)}
		} else {
			starts = []ir.Point{{Block: safe.Blocks[0]}}
		}
		reached := false
		ir.Search{StopInstr: isWD}.Reach(starts, func(ins ssa.Instruction, _ *ssa.BasicBlock) {
			if ins == ssa.Instruction(rc) {
				reached = true
			}
		})
		if reached {
			c.R.Bad("R-waitdelay", key, fk, c.P.Pos(rc.Pos()), ir.CallName(rc)+" is reachable without a preceding non-zero store to Cmd.WaitDelay: a process holding the output pipe open blocks the call beyond the timeout")
		} else {
			c.R.Ok("R-waitdelay", key, fk, c.P.Pos(rc.Pos()), "Cmd.WaitDelay is set to a non-zero value on every path before "+ir.CallName(rc))
		}
	}
	c.R.Require("R-waitdelay", 1)

	// ---- R-noblock / R-noassert over the call tree ---------------------------
	tree := c.Closure([]*ssa.Function{safe}, true, func(f *ssa.Function) bool {
		pk := load_FuncPkgPath(f)
		return pk == PkgUI
	})
	nb, na := 0, 0
	for _, fn := range c.SortedFuncs(tree) {
		c.R.Note("functions", c.FK(fn))
		Instrs(fn, func(ins ssa.Instruction) {
			if what := blockingOp(ins); what != "" {
				c.R.Bad("R-noblock", c.FK(fn)+"|"+what, c.FK(fn), c.P.Pos(ins.Pos()), "unbounded blocking operation ("+what+") in the call tree of SafeCmdExecution: time spent here is not covered by the command timeout")
				nb++
			}
			if ta, ok := ins.(*ssa.TypeAssert); ok && !ta.CommaOk && isErrorType(ta.X.Type()) {
				c.R.Bad("R-noassert", c.FK(fn)+"|"+ta.AssertedType.String(), c.FK(fn), c.P.Pos(ta.Pos()), "comma-less type assertion on an error value: a command that cannot be started yields *fs.PathError/*exec.Error and the assertion panics")
				na++
			}
		})
	}
	if nb == 0 {
		c.R.Ok("R-noblock", fk, fk, c.P.Pos(safe.Pos()), sprintf("no unbounded blocking operation in %d function(s) of the call tree (logging excluded)", len(tree)))
	}
	if na == 0 {
		c.R.Ok("R-noassert", fk, fk, c.P.Pos(safe.Pos()), "no comma-less type assertion on an error value in the call tree")
	}

	// ---- R-err: failure edges of SafeCmdExecution lead to error returns --------
	c.checkErrorPropagation("R-err", safe, func(call *ssa.Call) bool {
		n := ir.CallName(call)
		return strings.HasPrefix(n, "(*os/exec.Cmd).") || ir.Callee(call).Static == c.FuncOpt(PkgUtil, "CheckFilePermissionsForExecution")
	})
	c.R.Require("R-err", 2)
	// success return carries the trimmed output of the command: result #0 on the nil-error return derives from Output's result
	ei := errResultIndex(safe)
	for _, r := range ir.Returns(safe) {
		if ei == 1 && ir.IsNilConst(ir.Resolve(r.Results[1])) {
			t := tb.Of(r.Results[0], nil)
			if termHasCall(t, "(*os/exec.Cmd).Output") || termHasCall(t, "(*os/exec.Cmd).CombinedOutput") {
				c.R.Ok("R-output", fk, fk, c.P.Pos(r.Pos()), "the nil-error return yields a value derived from the command output: "+t.String())
			} else {
				c.R.Bad("R-output", fk, fk, c.P.Pos(r.Pos()), "the nil-error return does not yield the command output: "+t.String())
			}
		}
	}
	c.R.Require("R-output", 1)

	// ---- R-parse / R-cmderr in the command fan / sensor methods ---------------
	for _, fn := range c.P.Funcs {
		callsSafe := false
		Calls(fn, func(cc ssa.CallInstruction) {
			if ir.Callee(cc).Static == safe {
				callsSafe = true
			}
		})
		if !callsSafe || errResultIndex(fn) < 0 {
			continue
		}
		c.checkErrorPropagation("R-cmderr", fn, func(call *ssa.Call) bool { return ir.Callee(call).Static == safe })
		c.checkErrorPropagation("R-parse", fn, func(call *ssa.Call) bool {
			n := ir.CallName(call)
			return n == "strconv.ParseFloat" || n == "strconv.Atoi" || n == "strconv.ParseInt" || n == "strconv.ParseUint"
		})
	}
	c.R.Require("R-cmderr", 1)
	c.R.Require("R-parse", 1)
	_ = types.Typ
}

func load_FuncPkgPath(f *ssa.Function) string {
	for f.Parent() != nil {
		f = f.Parent()
	}
	if f.Pkg != nil {
		return f.Pkg.Pkg.Path()
	}
	if f.Object() != nil && f.Object().Pkg() != nil {
		return f.Object().Pkg().Path()
	}
	return ""
}
