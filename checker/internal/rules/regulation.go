package rules

import (
	"go/token"
	"go/types"
	"strings"

	"f2gcheck/internal/ir"
	"f2gcheck/internal/ranges"
	"f2gcheck/internal/report"

	"golang.org/x/tools/go/ssa"
)

// regulation gathers what C01, C02, C10 and C12 share: the write routine(s),
// the target computation, the symbolic envelope of every non-error return.
type regulation struct {
	c       *Ctx
	tb      *ir.TB
	writers []*writerInfo
	// per UpdateFanSpeed implementation
	cycles []*cycleInfo
}

type retEdge struct {
	ret   *ssa.Return
	via   *ssa.BasicBlock
	val   ssa.Value
	av    ranges.AV
	an    *ranges.An
	raise bool          // the path performed the stall raise (offset increment)
	chain []*ssa.Return // tail-call returns of the outer functions through which this return is reached
}

type cycleInfo struct {
	ufs        *ssa.Function
	target     *ssa.Function   // the target computation
	body       []*ssa.Function // target plus the functions it tail-calls for its result (return helper(...))
	targetCall *ssa.Call
	writeCall  *ssa.Call
	writer     *writerInfo
	rets       []*retEdge
	hyps       []string
	maxSym     ssa.Value            // invoke Fan.GetMaxPwm
	minSym     ssa.Value            // invoke Fan.GetMinPwm
	offFields  map[string]ssa.Value // offset field name -> load symbol
	incrCalls  []ssa.Instruction    // instructions in target that (transitively) increment an offset field
}

func (c *Ctx) isLoadOfRecvIntField(v ssa.Value, tb *ir.TB) (string, bool) {
	u, ok := v.(*ssa.UnOp)
	if !ok || u.Op != token.MUL {
		return "", false
	}
	fa, ok := u.X.(*ssa.FieldAddr)
	if !ok {
		return "", false
	}
	if b, ok := u.Type().Underlying().(*types.Basic); !ok || b.Info()&types.IsInteger == 0 {
		return "", false
	}
	t := tb.Of(fa.X, nil)
	if !strings.HasPrefix(t.Op, "recv:") {
		return "", false
	}
	_, name, _ := ir.FieldName(fa)
	return name, true
}

// storesToField lists all stores to field `name` of named type owner in the repository.
func (c *Ctx) storesToField(ownerPkg, owner, name string) []*ssa.Store {
	var out []*ssa.Store
	for _, fn := range c.P.Funcs {
		Instrs(fn, func(ins ssa.Instruction) {
			st, ok := ins.(*ssa.Store)
			if !ok {
				return
			}
			fa, ok := st.Addr.(*ssa.FieldAddr)
			if !ok {
				return
			}
			o, n, _ := ir.FieldName(fa)
			if o != nil && o.Obj().Name() == owner && o.Obj().Pkg() != nil && o.Obj().Pkg().Path() == ownerPkg && n == name {
				out = append(out, st)
			}
		})
	}
	return out
}

// mayIncrement reports whether fn (transitively) stores to the given controller field.
func (c *Ctx) mayStoreField(fn *ssa.Function, owner, name string) bool {
	for f := range c.Closure([]*ssa.Function{fn}, false, nil) {
		found := false
		Instrs(f, func(ins ssa.Instruction) {
			if st, ok := ins.(*ssa.Store); ok {
				if fa, ok := st.Addr.(*ssa.FieldAddr); ok {
					if o, n, _ := ir.FieldName(fa); o != nil && o.Obj().Name() == owner && n == name {
						found = true
					}
				}
			}
		})
		if found {
			return true
		}
	}
	return false
}

func (c *Ctx) analyseRegulation() *regulation {
	tb := ir.NewTB(c.P.IsRepoFunc, c.P.FuncKey)
	tb.NoInline = func(f *ssa.Function) bool { return load_FuncPkgPath(f) != PkgCtrl }
	tb.ParamCallers = c.StaticCallers
	r := &regulation{c: c, tb: tb}
	r.writers = c.findWriters(tb)
	for _, ufs := range c.ImplMethods(PkgCtrl, "FanController", "UpdateFanSpeed") {
		ci := &cycleInfo{ufs: ufs, offFields: map[string]ssa.Value{}}
		r.cycles = append(r.cycles, ci)
		// the write call in UpdateFanSpeed and the origin of its request argument
		Calls(ufs, func(cc ssa.CallInstruction) {
			call, ok := cc.(*ssa.Call)
			if !ok {
				return
			}
			for _, w := range r.writers {
				if ir.Callee(cc).Static == w.fn && w.reqParam != nil {
					ci.writeCall, ci.writer = call, w
					for i, p := range w.fn.Params {
						if p == w.reqParam && i < len(call.Call.Args) {
							if ex, ok := ir.Resolve(call.Call.Args[i]).(*ssa.Extract); ok && ex.Index == 0 {
								if tc, ok := ex.Tuple.(*ssa.Call); ok && ir.Callee(tc).Static != nil && c.P.IsRepoFunc(ir.Callee(tc).Static) {
									ci.targetCall = tc
									ci.target = ir.Callee(tc).Static
								}
							}
						}
					}
				}
			}
		})
		if ci.target == nil {
			continue
		}
		T := ci.target
		ci.body = []*ssa.Function{T}
		newAn := func(fn *ssa.Function) *ranges.An {
			an := ranges.New(fn)
			an.Name = func(v ssa.Value) string { return r.symName(v) }
			an.Inline = func(f *ssa.Function) bool { return c.P.IsRepoFunc(f) && len(f.Blocks) <= 12 }
			return an
		}
		var enumRets func(fn *ssa.Function, mk func() *ranges.An, chain []*ssa.Return, depth int)
		enumRets = func(fn *ssa.Function, mk func() *ranges.An, chain []*ssa.Return, depth int) {
			ei := errResultIndex(fn)
			for _, ret := range ir.Returns(fn) {
				vias := []*ssa.BasicBlock{nil}
				if phi, ok := ir.Resolve(ret.Results[0]).(*ssa.Phi); ok && phi.Block() == ret.Block() {
					vias = ret.Block().Preds
				}
				for _, via := range vias {
					facts := ranges.FactsAt(ret.Block(), via)
					if ei >= 0 && !mayBeNilError(ret.Results[ei], facts) {
						continue
					}
					an := mk()
					val := ir.ResultVia(ret, 0, via)
					// `return helper(...)`: the result is computed by a continuation in the same package
					if tc := tailCallOf(ret, ei); tc != nil && depth < 2 {
						if cal := ir.Callee(tc).Static; cal != nil && load_FuncPkgPath(cal) == PkgCtrl && len(cal.Blocks) > 0 && errResultIndex(cal) == ei {
							if probe := an.Enter(tc, facts); probe != nil {
								seen := false
								for _, b := range ci.body {
									if b == cal {
										seen = true
									}
								}
								if !seen {
									ci.body = append(ci.body, cal)
								}
								tcc, fcts, outer := tc, facts, mk
								enumRets(cal, func() *ranges.An { return outer().Enter(tcc, fcts) }, append(append([]*ssa.Return{}, chain...), ret), depth+1)
								continue
							}
						}
					}
					re := &retEdge{ret: ret, via: via, val: val, an: an, chain: chain}
					re.av = an.Eval(val, facts)
					ci.rets = append(ci.rets, re)
					for a := an; a != nil; a = a.Parent() {
						for _, h := range a.Hyps {
							dup := false
							for _, x := range ci.hyps {
								if x == h {
									dup = true
								}
							}
							if !dup {
								ci.hyps = append(ci.hyps, h)
							}
						}
					}
				}
			}
		}
		enumRets(T, func() *ranges.An { return newAn(T) }, nil, 0)
		// identify the symbols of the envelope from the bounds of the first return
		for _, re := range ci.rets {
			for _, h := range re.av.Hi {
				for s := range h.Coef {
					if call, ok := s.(*ssa.Call); ok && isFanInvoke(call, "GetMaxPwm") {
						ci.maxSym = s
					}
				}
			}
			for _, l := range re.av.Lo {
				for s := range l.Coef {
					if call, ok := s.(*ssa.Call); ok && isFanInvoke(call, "GetMinPwm") {
						ci.minSym = s
					}
					if n, ok := c.isLoadOfRecvIntField(s, tb); ok {
						ci.offFields[n] = s
					}
				}
			}
		}
		// instructions of T that increment an offset field (directly or through a callee)
		for name := range ci.offFields {
			for _, bf := range ci.body {
				Instrs(bf, func(ins ssa.Instruction) {
					if st, ok := ins.(*ssa.Store); ok {
						if fa, ok := st.Addr.(*ssa.FieldAddr); ok {
							if _, n, _ := ir.FieldName(fa); n == name {
								ci.incrCalls = append(ci.incrCalls, ins)
							}
						}
					}
					if cc, ok := ins.(ssa.CallInstruction); ok {
						for _, cal := range c.Callees(cc) {
							inBody := false
							for _, b := range ci.body {
								if b == cal {
									inBody = true
								}
							}
							if !inBody && c.mayStoreField(cal, recvTypeName(T), name) {
								ci.incrCalls = append(ci.incrCalls, ins)
							}
						}
					}
				})
			}
		}
		for _, re := range ci.rets {
			for _, inc := range ci.incrCalls {
				reach := false
				ir.Search{}.Reach([]ir.Point{ir.After(inc)}, func(ins ssa.Instruction, via *ssa.BasicBlock) {
					if ins == ssa.Instruction(re.ret) && (re.via == nil || via == re.via || via == nil && inc.Block() == re.via) {
						reach = true
					}
					// the increment happened before the result was handed to a continuation
					for _, cr := range re.chain {
						if ins == ssa.Instruction(cr) {
							reach = true
						}
					}
				})
				// the increment's own block may be the predecessor
				if inc.Block() == re.via && inc.Parent() == re.ret.Parent() {
					reach = true
				}
				if reach {
					re.raise = true
				}
			}
		}
	}
	return r
}

func (r *regulation) symName(v ssa.Value) string {
	t := r.tb.Of(v, nil)
	s := t.String()
	s = strings.ReplaceAll(s, "invoke:"+PkgFans+".", "")
	for _, ci := range r.cycles {
		if ci.target != nil {
			rn := recvTypeName(ci.target)
			s = strings.ReplaceAll(s, "(field:fan(recv:"+rn+"))", "()")
			s = strings.ReplaceAll(s, "(recv:"+rn+")", "")
		}
	}
	if len(s) > 70 {
		s = s[:70] + "…"
	}
	return s
}

// floor returns GetMinPwm() + sum(offset fields) as a linear expression.
func (ci *cycleInfo) floor() (ranges.Lin, bool) {
	if ci.minSym == nil {
		return ranges.Lin{}, false
	}
	l := ranges.Sym(ci.minSym)
	for _, s := range ci.offFields {
		l = l.Add(ranges.Sym(s), 1)
	}
	return l, true
}

// ---------------------------------------------------------------------------
// O1 / R-args (C01, C12): what is written

func (r *regulation) ruleFlow(rule string) {
	c := r.c
	if len(r.writers) == 0 {
		c.R.Undecided(rule, "no-writer", "UpdateFanSpeed", "-", "no Fan.SetPwm invoke in the call tree of UpdateFanSpeed (anchor unresolved)")
		return
	}
	for _, w := range r.writers {
		key := c.FK(w.fn)
		t := w.term
		ok := t.Op == "lookup" && len(t.Args) == 2 && strings.HasPrefix(t.Args[0].Op, "field:") &&
			t.Args[1].Op == "call:"+PkgUtil+".FindClosest" && len(t.Args[1].Args) == 2 &&
			strings.HasPrefix(t.Args[1].Args[0].Op, "param:") && strings.HasPrefix(t.Args[1].Args[1].Op, "field:") &&
			w.reqParam != nil
		if ok {
			c.R.Ok(rule, key, key, c.P.Pos(w.setPwm.Pos()), "Fan.SetPwm("+t.String()+"): map output of the nearest supported input of the request; the chosen key (not the request) indexes the map; FindClosest(request, key list)")
		} else {
			c.R.Bad(rule, key, key, c.P.Pos(w.setPwm.Pos()), "the value written on the regulation path is not pwmMap[FindClosest(request, keys)] but "+t.String())
		}
	}
	for _, ci := range r.cycles {
		key := c.FK(ci.ufs)
		if ci.target == nil || ci.writeCall == nil {
			c.R.Bad(rule, key+"|request-origin", key, c.P.Pos(ci.ufs.Pos()), "UpdateFanSpeed does not hand result #0 of a target computation to the write routine")
			continue
		}
		// the write call is reachable only across the err == nil edge of the target computation
		ev := errValueOfCall(ci.targetCall)
		okEdges := nilEdges(ci.ufs, ev, false)
		bad := ev == nil
		if !bad {
			reached := false
			badE := nilEdges(ci.ufs, ev, true)
			// reachable from the error edge?
			ir.Search{}.Reach(edgeStarts(badE), func(ins ssa.Instruction, _ *ssa.BasicBlock) {
				if ins == ssa.Instruction(ci.writeCall) {
					reached = true
				}
			})
			_ = okEdges
			bad = reached || len(badE) == 0
		}
		if bad {
			c.R.Bad(rule, key+"|request-origin", key, c.P.Pos(ci.writeCall.Pos()), "the request can be written although the target computation reported an error (its value is then meaningless)")
		} else {
			c.R.Ok(rule, key+"|request-origin", key, c.P.Pos(ci.writeCall.Pos()), "request = result #0 of "+c.FK(ci.target)+" on its nil-error path")
		}
	}
}

// ---------------------------------------------------------------------------
// O4 (C01, C12): key list is recomputed after every map change

func (r *regulation) ruleFreshness(rule string) {
	c := r.c
	var mapField, keyField string
	for _, w := range r.writers {
		if w.term.Op == "lookup" && len(w.term.Args) == 2 {
			mapField = strings.TrimPrefix(w.term.Args[0].Op, "field:")
			if fc := w.term.Args[1]; len(fc.Args) == 2 {
				keyField = strings.TrimPrefix(fc.Args[1].Op, "field:")
			}
		}
	}
	if mapField == "" || keyField == "" {
		c.R.Undecided(rule, "fields", "controller", "-", "map / key-list fields not identified (O1 failed)")
		return
	}
	c.R.Note("fields", "map field "+mapField+", key-list field "+keyField)
	const clean, dirty = 0, 1
	isFieldStore := func(ins ssa.Instruction, name string) *ssa.Store {
		st, ok := ins.(*ssa.Store)
		if !ok {
			return nil
		}
		fa, ok := st.Addr.(*ssa.FieldAddr)
		if !ok {
			return nil
		}
		o, n, _ := ir.FieldName(fa)
		if o == nil || o.Obj().Pkg() == nil || o.Obj().Pkg().Path() != PkgCtrl || n != name {
			return nil
		}
		return st
	}
	goodKeyStore := func(st *ssa.Store) bool {
		t := r.tb.Of(st.Val, nil)
		if !(t.Op == "call:"+PkgUtil+".ExtractKeysWithDistinctValues" && len(t.Args) == 1 && t.Args[0].Op == "field:"+mapField) {
			return false
		}
		// sorted before the store
		sorted := false
		val := ir.Resolve(st.Val)
		Calls(st.Parent(), func(cc ssa.CallInstruction) {
			n := ir.CallName(cc)
			if (n == "sort.Ints" || strings.HasPrefix(n, "slices.Sort")) && ir.Resolve(cc.Common().Args[0]) == val && cc.Block().Dominates(st.Block()) {
				sorted = true
			}
		})
		return sorted
	}
	spec := ir.TSpec{
		N: 2,
		Instr: func(ins ssa.Instruction) []ir.Mask {
			if st := isFieldStore(ins, mapField); st != nil {
				return ir.AllTo(2, dirty)
			}
			// an in-place update of the map held in the field changes its outputs (and with them the runs of
			// equal outputs the supported inputs are derived from) just as a new map does
			if mu, ok := ins.(*ssa.MapUpdate); ok {
				if t := r.tb.Of(mu.Map, nil); t.Op == "field:"+mapField && load_FuncPkgPath(ins.Parent()) == PkgCtrl {
					return ir.AllTo(2, dirty)
				}
			}
			if st := isFieldStore(ins, keyField); st != nil {
				if _, lit := st.Addr.(*ssa.FieldAddr).X.(*ssa.Alloc); lit {
					return nil
				}
				if goodKeyStore(st) {
					return ir.AllTo(2, clean)
				}
				return ir.AllTo(2, dirty)
			}
			return nil
		},
		Callees:  func(call ssa.CallInstruction) []*ssa.Function { return c.Callees(call) },
		NoReturn: func(ins ssa.Instruction) bool { return c.noReturnCall(ins) },
	}
	var entries []*ssa.Function
	entries = append(entries, c.ImplMethods(PkgCtrl, "FanController", "Run")...)
	entries = append(entries, c.ImplMethods(PkgCtrl, "FanController", "RunInitializationSequence")...)
	entries = append(entries, c.ImplMethods(PkgCtrl, "FanController", "UpdateFanSpeed")...)
	nstores := 0
	for _, e := range entries {
		ts := ir.NewTS(spec)
		var bad []string
		uses := 0
		ts.Run(e, ir.Bit(clean), func(fn *ssa.Function, ins ssa.Instruction, m ir.Mask) {
			if isFieldStore(ins, mapField) != nil {
				nstores++
			}
			cc, ok := ins.(ssa.CallInstruction)
			if !ok || m == 0 {
				return
			}
			n := ir.CallName(cc)
			isUse := n == PkgUtil+".FindClosest" || n == "(*github.com/oklog/run.Group).Run"
			if !isUse {
				return
			}
			uses++
			if m.Has(dirty) {
				bad = append(bad, c.FK(fn)+" at "+c.P.Pos(ins.Pos())+" ("+n+")")
			}
		})
		key := c.FK(e)
		if len(bad) > 0 {
			c.R.Bad(rule, key, key, "-", "the key list "+keyField+" can be stale: after a store to "+mapField+" it is used (FindClosest) or handed to the control goroutines (run.Group.Run) before being recomputed as sort(ExtractKeysWithDistinctValues("+mapField+"))", bad...)
		} else {
			c.R.Ok(rule, key, key, c.P.Pos(e.Pos()), sprintf("%d use site(s) of the key list reached only in state 'recomputed after the last map change'", uses))
		}
	}
	if nstores == 0 {
		c.R.Undecided(rule, "no-map-store", "controller", "-", "no store to the map field reachable from the entries (anchor unresolved)")
	}
	c.R.Require(rule, 3)
}

// ---------------------------------------------------------------------------
// O5 (C01): sinks write the parameter unmodified

func (r *regulation) ruleSinks(rule string) {
	c := r.c
	var analyse func(fn *ssa.Function, param *ssa.Parameter, depth int) (string, string)
	check := func(fn *ssa.Function, param *ssa.Parameter, what string) {
		key := c.FK(fn)
		arith, sink := analyse(fn, param, 0)
		switch {
		case arith != "":
			c.R.Bad(rule, key, key, arith, what+": the value to write is modified arithmetically before it reaches the sink")
		case sink == "":
			c.R.Bad(rule, key, key, c.P.Pos(fn.Pos()), what+": the parameter does not reach a write sink (WriteIntToFile*/Itoa/Sprintf)")
		default:
			c.R.Ok(rule, key, key, c.P.Pos(fn.Pos()), what+": parameter passed unmodified to "+strings.TrimPrefix(sink, M+"/"))
		}
	}
	analyse = func(fn *ssa.Function, param *ssa.Parameter, depth int) (string, string) {
		// no arithmetic on the parameter
		arith := ""
		seen := map[ssa.Value]bool{}
		var walk func(v ssa.Value)
		walk = func(v ssa.Value) {
			if seen[v] {
				return
			}
			seen[v] = true
			refs := v.Referrers()
			if refs == nil {
				return
			}
			for _, ref := range *refs {
				switch x := ref.(type) {
				case *ssa.BinOp:
					switch x.Op {
					case token.ADD, token.SUB, token.MUL, token.QUO, token.REM, token.AND, token.OR, token.XOR, token.SHL, token.SHR, token.AND_NOT:
						arith = c.P.Pos(x.Pos())
					}
				case *ssa.UnOp:
					if x.Op == token.SUB || x.Op == token.XOR {
						arith = c.P.Pos(x.Pos())
					}
				case *ssa.Convert:
					walk(x)
				case *ssa.ChangeType:
					walk(x)
				case *ssa.MakeInterface:
					walk(x)
				case *ssa.Phi:
					walk(x)
				case *ssa.Store:
					if al, ok := x.Addr.(*ssa.Alloc); ok {
						if lrefs := al.Referrers(); lrefs != nil {
							for _, lr := range *lrefs {
								if u, ok := lr.(*ssa.UnOp); ok && u.Op == token.MUL {
									walk(u)
								}
							}
						}
					}
				}
			}
		}
		walk(param)
		// a sink receives it
		sink := ""
		pterm := r.tb.Of(param, nil).String()
		Calls(fn, func(cc ssa.CallInstruction) {
			n := ir.CallName(cc)
			switch n {
			case PkgUtil + ".WriteIntToFile", PkgUtil + ".WriteIntToFileAtomic", "strconv.Itoa", "fmt.Sprintf", "strconv.FormatInt", "os.WriteFile":
				for _, a := range cc.Common().Args {
					if r.tb.Of(a, nil).Has(func(t *ir.Term) bool { return t.String() == pterm }) {
						sink = n
					}
				}
			}
		})
		// handed on to a helper of the repository: the helper's parameter takes over
		if depth < 2 {
			Calls(fn, func(cc ssa.CallInstruction) {
				cal := ir.Callee(cc).Static
				if cal == nil || !c.P.IsRepoFunc(cal) || len(cal.Blocks) == 0 || cc.Common().IsInvoke() {
					return
				}
				p := load_FuncPkgPath(cal)
				if p != PkgFans && p != PkgUtil {
					return
				}
				for i, a := range cc.Common().Args {
					if i < len(cal.Params) && r.tb.Of(a, nil).String() == pterm {
						a2, s2 := analyse(cal, cal.Params[i], depth+1)
						if a2 != "" && arith == "" {
							arith = a2
						}
						if s2 != "" && sink == "" {
							sink = s2
						}
					}
				}
			})
		}
		return arith, sink
	}
	for _, fn := range c.ImplMethods(PkgFans, "Fan", "SetPwm") {
		if len(fn.Params) >= 2 {
			check(fn, fn.Params[1], "Fan.SetPwm implementation")
		}
	}
	for _, n := range []string{"WriteIntToFile", "WriteIntToFileAtomic"} {
		if fn := c.FuncOpt(PkgUtil, n); fn != nil && len(fn.Params) >= 1 {
			check(fn, fn.Params[0], "util."+n)
		}
	}
	c.R.Require(rule, 4)
}

// ---------------------------------------------------------------------------
// O2 / O3 (C01), (a)-(c) (C02), R-step (C10): the envelope

func (r *regulation) ruleEnvelope(rule string, wantUpper, wantLower, wantRaise bool) {
	c := r.c
	for _, ci := range r.cycles {
		if ci.target == nil {
			c.R.Undecided(rule, c.FK(ci.ufs), c.FK(ci.ufs), c.P.Pos(ci.ufs.Pos()), "target computation not identified (O1 failed)")
			continue
		}
		T := ci.target
		fk := c.FK(T)
		c.R.Note("functions", fk)
		if len(ci.rets) == 0 {
			c.R.Undecided(rule, fk, fk, c.P.Pos(T.Pos()), "no nil-error return found in the target computation")
			continue
		}
		floor, haveFloor := ci.floor()
		nraise := 0
		for i, re := range ci.rets {
			which := "regular path"
			if re.raise {
				which = "stall-raise path"
				nraise++
			}
			via := "-"
			if re.via != nil {
				via = sprintf("via block %d", re.via.Index)
			}
			key := sprintf("%s|return#%d %s", fk, i, which)
			desc := re.an.AVString(re.av)
			if wantUpper {
				if ci.maxSym != nil && ranges.ProvesLE(re.av, ranges.Sym(ci.maxSym)) {
					c.R.Add(obOK(rule+"-upper", key, fk, c.P.Pos(re.ret.Pos()), "request <= Fan.GetMaxPwm() on the "+which+" ("+via+"): "+desc, ci.hyps))
				} else {
					c.R.Bad(rule+"-upper", key, fk, c.P.Pos(re.ret.Pos()), "cannot prove request <= Fan.GetMaxPwm() on the "+which+" ("+via+"): "+desc)
				}
			}
			if wantLower {
				if haveFloor && ranges.ProvesGE(re.av, floor) {
					c.R.Add(obOK(rule+"-lower", key, fk, c.P.Pos(re.ret.Pos()), "request >= "+re.an.LinString(floor)+" on the "+which+" ("+via+"): "+desc, ci.hyps))
				} else {
					c.R.Bad(rule+"-lower", key, fk, c.P.Pos(re.ret.Pos()), "cannot prove request >= Fan.GetMinPwm() + offset on the "+which+" ("+via+"): "+desc)
				}
			}
			if wantRaise && re.raise {
				// >= floor+1 (keeps min<=max after the offset increment, and the new floor) and >= stalled request + 1
				okFloor := haveFloor && ranges.ProvesGE(re.av, floor.Shift(1))
				var last ssa.Value
				for _, l := range re.av.Lo {
					for s := range l.Coef {
						t := r.tb.Of(s, nil)
						if t.Op == "load" && len(t.Args) == 1 && strings.HasPrefix(t.Args[0].Op, "field:") && ci.writer != nil && t.Args[0].Op == "field:"+ci.writer.lastField {
							last = s
						}
					}
				}
				okLast := last != nil && ranges.ProvesGE(re.av, ranges.Sym(last).Shift(1))
				if okFloor && okLast {
					c.R.Ok(rule+"-raise", key, fk, c.P.Pos(re.ret.Pos()), "on the raise path request >= old floor + 1 and >= stalled request (*"+ci.writer.lastField+") + 1: "+desc)
				} else {
					c.R.Bad(rule+"-raise", key, fk, c.P.Pos(re.ret.Pos()), sprintf("on the path that raises the minimum the request is not proved strictly higher (>= old floor+1: %v; >= stalled request+1: %v): %s", okFloor, okLast, desc))
				}
			}
		}
		if wantRaise && nraise == 0 {
			c.R.Bad(rule+"-raise", fk+"|no-raise-path", fk, c.P.Pos(T.Pos()), "no return path of the target computation raises the minimum (offset increment): a stalled never-stop fan is never pushed")
		}
	}
}

func obOK(rule, key, where, pos, detail string, hyps []string) report.Obligation {
	return report.Obligation{Rule: rule, Key: key, Where: where, Pos: pos, Verdict: report.OK, Detail: detail, Hyps: hyps}
}

// ---------------------------------------------------------------------------
// O3 / (b): offset discipline

func (r *regulation) ruleOffsets(rule string) {
	c := r.c
	n := 0
	for _, ci := range r.cycles {
		for name := range ci.offFields {
			for _, st := range c.storesToField(PkgCtrl, recvTypeName(ci.target), name) {
				n++
				fn := st.Parent()
				key := c.FK(fn) + "|" + name
				fa := st.Addr.(*ssa.FieldAddr)
				if _, lit := fa.X.(*ssa.Alloc); lit {
					if k, isConst := ir.ConstInt(st.Val); isConst && k >= 0 {
						c.R.Ok(rule, key, c.FK(fn), c.P.Pos(st.Pos()), sprintf("initialised to the constant %d", k))
					} else {
						c.R.Bad(rule, key, c.FK(fn), c.P.Pos(st.Pos()), "offset initialised to a non-constant or negative value")
					}
					continue
				}
				okInc := false
				if b, ok := ir.Resolve(st.Val).(*ssa.BinOp); ok && b.Op == token.ADD {
					if k, isConst := ir.ConstInt(b.Y); isConst && k > 0 {
						if t := r.tb.Of(b.X, nil); t.Op == "field:"+name {
							okInc = true
						}
					}
				}
				if okInc {
					c.R.Ok(rule, key, c.FK(fn), c.P.Pos(st.Pos()), "store is an increment by a positive constant (the raise is permanent)")
				} else {
					c.R.Bad(rule, key, c.FK(fn), c.P.Pos(st.Pos()), "the run-time offset of the minimum is overwritten by something other than an increment: the raised minimum can drop")
				}
			}
		}
		if len(ci.offFields) == 0 && ci.target != nil {
			c.R.Bad(rule, c.FK(ci.target)+"|no-offset", c.FK(ci.target), c.P.Pos(ci.target.Pos()), "the lower bound of the request contains no run-time offset field: stall raises are not reflected in later requests")
		}
	}
	if n == 0 {
		c.R.Undecided(rule, "no-stores", "controller", "-", "no store to an offset field found (anchor unresolved)")
	}
}

// forced SetMinPwm on the regulation path (C02 b)
func (r *regulation) ruleNoForcedMin(rule string) { r.ruleNoForcedLimit(rule, "SetMinPwm") }

// ruleNoForcedLimit: no forced setter of a fan limit is called on the regulation path. The envelope proof treats
// GetMinPwm()/GetMaxPwm() as the fan's limits for the whole run; a limit overwritten while regulating (the raised
// floor "published" on the fan while the offset is kept as well) is counted twice / moves under the proof.
func (r *regulation) ruleNoForcedLimit(rule string, setters ...string) {
	c := r.c
	n := 0
	for _, ci := range r.cycles {
		for _, fn := range c.SortedFuncs(c.Closure([]*ssa.Function{ci.ufs}, false, nil)) {
			Calls(fn, func(cc ssa.CallInstruction) {
				name := ""
				for _, sname := range setters {
					if isFanInvoke(cc, sname) {
						name = sname
					}
				}
				if name == "" {
					return
				}
				n++
				args := cc.Common().Args
				if b, isConst := ir.ConstBool(args[len(args)-1]); isConst && !b {
					c.R.Ok(rule, c.FK(fn)+"|"+name, c.FK(fn), c.P.Pos(cc.Pos()), name+" with force=false on the regulation path")
					return
				}
				c.R.Bad(rule, c.FK(fn)+"|"+name, c.FK(fn), c.P.Pos(cc.Pos()), "the regulation path overwrites a limit of the fan with force ("+name+", value "+r.tb.Of(args[0], nil).String()+"): the limits the envelope is proved against change while regulating (a raised floor stored on the fan and kept in the offset is counted twice; the minimum can drop or pass the maximum)")
			})
		}
	}
	if n == 0 {
		c.R.Ok(rule, "none", "UpdateFanSpeed call tree", "-", "no "+strings.Join(setters, "/")+" call on the regulation path: the fan's limits are only changed by attaching measured data (force=false)")
	}
}

// tailCallOf: the return hands on the results of one call (return f(...)): result #0 and the error
// result are extracts of the same call.
func tailCallOf(ret *ssa.Return, ei int) *ssa.Call {
	if ei < 1 || len(ret.Results) != ei+1 {
		return nil
	}
	var call *ssa.Call
	for i, rv := range ret.Results {
		ex, ok := rv.(*ssa.Extract)
		if !ok || ex.Index != i {
			return nil
		}
		c, ok := ex.Tuple.(*ssa.Call)
		if !ok || (call != nil && c != call) {
			return nil
		}
		call = c
	}
	return call
}

// stallEdgesOf returns the CFG edges of the target computation's body on which the stall test
// (Fan.GetRpmAvg() <= / < constant) is established.
func (r *regulation) stallEdgesOf(ci *cycleInfo) []edge {
	var stallEdges []edge
	body := ci.body
	if len(body) == 0 && ci.target != nil {
		body = []*ssa.Function{ci.target}
	}
	var bodyBlocks []*ssa.BasicBlock
	for _, bf := range body {
		bodyBlocks = append(bodyBlocks, bf.Blocks...)
	}
	for _, b := range bodyBlocks {
		for si := range b.Succs {
			if ir.HasFact(ir.EdgeFacts(b, si), token.LEQ, func(x, y ssa.Value) bool {
				call, ok := x.(*ssa.Call)
				_, isConst := ir.ConstFloat(y)
				return ok && isFanInvoke(call, "GetRpmAvg") && isConst
			}) || ir.HasFact(ir.EdgeFacts(b, si), token.LSS, func(x, y ssa.Value) bool {
				call, ok := x.(*ssa.Call)
				_, isConst := ir.ConstFloat(y)
				return ok && isFanInvoke(call, "GetRpmAvg") && isConst
			}) {
				stallEdges = append(stallEdges, edge{b, si})
			}
		}
	}
	return stallEdges
}

// ruleFloorCap (C02): the floor is raised only where request < Fan.GetMaxPwm() is established. The request is
// >= the floor (envelope), so the raised floor stays <= the maximum; a floor above the maximum makes the
// rescale's range negative and later requests fall below the raised minimum.
func (r *regulation) ruleFloorCap(rule string) {
	c := r.c
	n := 0
	for _, ci := range r.cycles {
		if ci.target == nil || ci.maxSym == nil {
			continue
		}
		isMax := func(v ssa.Value) bool { return v == ci.maxSym || ir.RootP(v, c.StaticCallers) == ci.maxSym }
		below := func(b *ssa.BasicBlock, si int) bool {
			fs := ir.EdgeFacts(b, si)
			return ir.HasFact(fs, token.LSS, func(x, y ssa.Value) bool { return isMax(y) }) ||
				ir.HasFact(fs, token.GTR, func(x, y ssa.Value) bool { return isMax(x) })
		}
		starts := edgeStarts(r.stallEdgesOf(ci))
		if len(starts) == 0 {
			continue
		}
		var reached ssa.Instruction
		ir.Search{StopEdge: below}.Reach(starts, func(ins ssa.Instruction, _ *ssa.BasicBlock) {
			for _, x := range ci.incrCalls {
				if x == ins && reached == nil {
					reached = ins
				}
			}
		})
		n++
		key := c.FK(ci.target)
		if reached != nil {
			c.R.Bad(rule, key, key, c.P.Pos(reached.Pos()), "the floor of a stalled fan can be raised on a path that did not establish request < Fan.GetMaxPwm(): the floor (GetMinPwm() + offset) can pass the fan's maximum, the rescale range turns negative and later requests fall below the raised minimum")
		} else {
			c.R.Ok(rule, key, key, c.P.Pos(ci.target.Pos()), "every path from the stall edge to a floor raise crosses an edge establishing request < Fan.GetMaxPwm() (the raised floor stays <= the maximum)")
		}
	}
	if n == 0 {
		c.R.Undecided(rule, "none", "target computation", "-", "no stall edge / maximum symbol found (anchor unresolved)")
	}
}
