package rules

import (
	"go/token"
	"go/types"
	"strings"

	"f2gcheck/internal/ir"

	"golang.org/x/tools/go/ssa"
)

func init() { Registry["C17"] = c17 }

// flattenString turns a string-building term into a sequence of pieces:
// constants are concatenated, other values appear as {term}.
func flattenString(t *ir.Term) []string {
	var out []string
	push := func(s string, isConst bool) {
		if isConst && len(out) > 0 && strings.HasPrefix(out[len(out)-1], "\"") {
			out[len(out)-1] = out[len(out)-1][:len(out[len(out)-1])-1] + s + "\""
			return
		}
		if isConst {
			out = append(out, "\""+s+"\"")
		} else {
			out = append(out, s)
		}
	}
	var rec func(t *ir.Term)
	constStr := func(t *ir.Term) (string, bool) {
		if strings.HasPrefix(t.Op, "const:\"") {
			s := strings.TrimPrefix(t.Op, "const:")
			return strings.Trim(s, "\""), true
		}
		return "", false
	}
	rec = func(t *ir.Term) {
		if s, ok := constStr(t); ok {
			push(s, true)
			return
		}
		switch {
		case t.Op == "bin:+" && len(t.Args) == 2:
			rec(t.Args[0])
			rec(t.Args[1])
		case (t.Op == "call:path.Join" || t.Op == "call:path/filepath.Join") && len(t.Args) == 1 && t.Args[0].Op == "list":
			for i, a := range t.Args[0].Args {
				if i > 0 {
					push("/", true)
				}
				rec(a)
			}
		case t.Op == "call:fmt.Sprintf" && len(t.Args) == 2 && t.Args[1].Op == "list":
			f, ok := constStr(t.Args[0])
			if !ok {
				push("{"+t.String()+"}", false)
				return
			}
			args := t.Args[1].Args
			ai := 0
			for len(f) > 0 {
				i := strings.Index(f, "%")
				if i < 0 || i+1 >= len(f) {
					push(f, true)
					break
				}
				push(f[:i], true)
				verb := f[i+1]
				f = f[i+2:]
				if verb == '%' {
					push("%", true)
					continue
				}
				if ai < len(args) && (verb == 'd' || verb == 'v' || verb == 's') {
					rec(args[ai])
					ai++
				} else {
					push("{?}", false)
				}
			}
		case t.Op == "call:strconv.Itoa" && len(t.Args) == 1:
			rec(t.Args[0])
		case strings.HasPrefix(t.Op, "conv:"):
			rec(t.Args[0])
		default:
			push("{"+t.String()+"}", false)
		}
	}
	rec(t)
	return out
}

func c17(c *Ctx) {
	c.R.Explanation = "C17 decided on the SSA of /repo. R-paths = the values stored into HwMonFanConfig.{RpmInputPath,PwmPath,PwmEnablePath} normalise (through path.Join / fmt.Sprintf / Itoa / +) to SysfsPath/fan<RpmChannel>_input, SysfsPath/pwm<PwmChannel>, SysfsPath/pwm<PwmChannel>_enable of the same config object, and every I/O call of every HwMonFan method uses exactly the designated path field (GetRpm: RpmInputPath; GetPwm/SetPwm: PwmPath; Get/SetPwmEnabled: PwmEnablePath). R-match = in the fan binding function a candidate device is accepted (its sysfs path copied into the entry) only on paths that crossed: platform regexp matched, (entry.Index <= 0 or candidate.Index == entry.Index) and (entry.RpmChannel <= 0 or candidate.RpmChannel == entry.RpmChannel); the copied values come from that candidate. R-default = the entry's PwmChannel is overwritten only under PwmChannel == 0 and with the candidate's channel; the paths are (re)computed after the acceptance on every path to the nil return. R-fail = every return that avoids the acceptance carries a non-nil error. R-bind-sensor = in start-up sensor binding, a hwmon sensor object is created only on paths (tracked through the boolean 'found' flag) on which TempInput was stored, that store being dominated by platform-matched and by the comma-ok of the index lookup; otherwise an error is returned. R-position = the discovery function keys the per-chip sensor map, and fills HwmonSensor.Index, with a counter incremented once per accepted temperature input (position), not with a number taken from the device name. R-nocrash = no map-lookup dereference with ignored ok, non-comma-ok type assertion or panic in the binding code. R-holes = a list of pointers created with make([]*T, n), n != 0, in the discovery/binding packages stores its slot in every iteration of the filling loop (the binders dereference every element without a nil test). R-alias = no append in the discovery / instantiation packages targets a re-slice of a parameter list (in-place filtering rearranges the caller's device list). R-match follows the acceptance and the comparisons into helpers of the binding function (parameters resolved to the caller's arguments; a boolean predicate helper establishes a clause when it can return true only across an edge or with a result that establishes it; short-circuit values kept in locals are followed path-sensitively). R-paths|complete = every device-path field of HwMonFanConfig (string field named *Path other than SysfsPath) is stored by the function that recomputes the three known paths from SysfsPath and the channels. Not decided: regexp semantics; enumeration-order independence beyond 'first match among chips matching the pattern'."
	tb := ir.NewTB(c.P.IsRepoFunc, c.P.FuncKey)

	// ---- R-paths: construction ------------------------------------------------------
	want := map[string][]string{
		"RpmInputPath":  {"SysfsPath", "\"/fan\"", "RpmChannel", "\"_input\""},
		"PwmPath":       {"SysfsPath", "\"/pwm\"", "PwmChannel"},
		"PwmEnablePath": {"SysfsPath", "\"/pwm\"", "PwmChannel", "\"_enable\""},
	}
	seenStore := map[string]int{}
	for _, fn := range c.P.Funcs {
		Instrs(fn, func(ins ssa.Instruction) {
			st, ok := ins.(*ssa.Store)
			if !ok {
				return
			}
			fa, ok := st.Addr.(*ssa.FieldAddr)
			if !ok {
				return
			}
			owner, name, _ := ir.FieldName(fa)
			w, isPath := want[name]
			if !isPath || owner == nil || owner.Obj().Name() != "HwMonFanConfig" {
				return
			}
			if _, isLit := fa.X.(*ssa.Alloc); isLit {
				if s, isConst := ir.ConstString(st.Val); isConst && s == "" {
					return
				}
			}
			seenStore[name]++
			key := c.FK(fn) + "|" + name
			base := tb.Of(fa.X, nil).String()
			pieces := flattenString(tb.Of(st.Val, nil))
			okAll := len(pieces) == len(w)
			for i := 0; okAll && i < len(w); i++ {
				if strings.HasPrefix(w[i], "\"") {
					okAll = pieces[i] == w[i]
				} else {
					okAll = pieces[i] == "{field:"+w[i]+"("+base+")}"
				}
			}
			if okAll {
				c.R.Ok("R-paths", key, c.FK(fn), c.P.Pos(st.Pos()), name+" = "+strings.Join(pieces, " + "))
			} else {
				c.R.Bad("R-paths", key, c.FK(fn), c.P.Pos(st.Pos()), name+" is built as "+strings.Join(pieces, " + ")+", expected "+strings.Join(w, " + ")+" of the same config object")
			}
		})
	}
	for name := range want {
		if seenStore[name] == 0 {
			c.R.Undecided("R-paths", "no-store|"+name, "HwMonFanConfig."+name, "-", "no store to this path field found (anchor unresolved)")
		}
	}
	// ---- R-paths: use -------------------------------------------------------------------
	hw := c.Named(PkgFans, "HwMonFan")
	useTable := map[string]string{"GetRpm": "RpmInputPath", "GetPwm": "PwmPath", "SetPwm": "PwmPath", "GetPwmEnabled": "PwmEnablePath", "SetPwmEnabled": "PwmEnablePath"}
	if hw != nil {
		for m, field := range useTable {
			fn := c.Method(hw, m)
			if fn == nil {
				c.R.Undecided("R-paths-use", "HwMonFan."+m, "HwMonFan."+m, "-", "method not found")
				continue
			}
			n := 0
			// the file accesses of the method, including those made by helpers of the fans package it calls with
			// the path as an argument (writePwm(path, pwm)): each as (I/O call, term of the path in the method)
			type access struct {
				name string
				pos  token.Pos
				term string
			}
			ioArg := func(name string) int {
				switch name {
				case PkgUtil + ".ReadIntFromFile", "os.ReadFile", "os.Stat":
					return 0
				case PkgUtil + ".WriteIntToFile", PkgUtil + ".WriteIntToFileAtomic":
					return 1
				case "os.WriteFile":
					return 0
				}
				return -1
			}
			var collect func(f *ssa.Function, depth int) (direct []access, viaParam map[int][]access)
			collect = func(f *ssa.Function, depth int) ([]access, map[int][]access) {
				var direct []access
				viaParam := map[int][]access{}
				Calls(f, func(cc ssa.CallInstruction) {
					call, ok := cc.(*ssa.Call)
					if !ok {
						return
					}
					name := ir.CallName(call)
					if argi := ioArg(name); argi >= 0 && argi < len(call.Call.Args) {
						a := ir.Resolve(call.Call.Args[argi])
						if prm, isParam := a.(*ssa.Parameter); isParam && f != fn {
							for k, q := range f.Params {
								if q == prm {
									viaParam[k] = append(viaParam[k], access{name, call.Pos(), ""})
								}
							}
							return
						}
						direct = append(direct, access{name, call.Pos(), tb.Of(call.Call.Args[argi], nil).String()})
						return
					}
					if h := ir.Callee(call).Static; h != nil && depth < 2 && load_FuncPkgPath(h) == PkgFans && h != f && len(h.Blocks) > 0 {
						hd, hp := collect(h, depth+1)
						direct = append(direct, hd...)
						for k, as := range hp {
							if k >= len(call.Call.Args) {
								continue
							}
							a := ir.Resolve(call.Call.Args[k])
							if prm, isParam := a.(*ssa.Parameter); isParam && f != fn {
								for k2, q := range f.Params {
									if q == prm {
										viaParam[k2] = append(viaParam[k2], as...)
									}
								}
								continue
							}
							t := tb.Of(call.Call.Args[k], nil).String()
							for _, x := range as {
								direct = append(direct, access{x.name, call.Pos(), t})
							}
						}
					}
				})
				return direct, viaParam
			}
			accs, _ := collect(fn, 0)
			for _, a := range accs {
				n++
				wantT := "field:" + field + "(field:HwMon(field:Config(recv:HwMonFan)))"
				key := c.FK(fn) + "|" + a.name
				if a.term == wantT {
					c.R.Ok("R-paths-use", key, c.FK(fn), c.P.Pos(a.pos), m+" uses Config.HwMon."+field)
				} else {
					c.R.Bad("R-paths-use", key, c.FK(fn), c.P.Pos(a.pos), m+" accesses "+a.term+" instead of Config.HwMon."+field)
				}
			}
			if n == 0 {
				// delegation to another method of the same type is fine (e.g. IsPwmAuto -> GetPwmEnabled)
				c.R.Undecided("R-paths-use", c.FK(fn), c.FK(fn), c.P.Pos(fn.Pos()), "no file access found in this I/O method (anchor unresolved)")
			}
		}
	}
	c.R.Require("R-paths", 3)
	c.R.Require("R-paths-use", 5)
	// R-paths|complete: every device path kept in the entry (a string field of HwMonFanConfig named *Path other
	// than the chip's SysfsPath) is recomputed by the function that derives the paths from SysfsPath and the
	// channels (the one that stores the three known paths). A path that is only copied from the discovery
	// record belongs to the discovered channel, not to the pwm channel the entry names.
	if cfgT := c.Named(PkgConf, "HwMonFanConfig"); cfgT != nil {
		if st, ok := cfgT.Underlying().(*types.Struct); ok {
			var recompute *ssa.Function
			for _, fn := range c.P.Funcs {
				found := map[string]bool{}
				Instrs(fn, func(ins ssa.Instruction) {
					if s2, ok := ins.(*ssa.Store); ok {
						if fa, ok := s2.Addr.(*ssa.FieldAddr); ok {
							if o, n, _ := ir.FieldName(fa); o != nil && o.Obj().Name() == "HwMonFanConfig" && want[n] != nil {
								if _, lit := fa.X.(*ssa.Alloc); !lit {
									found[n] = true
								}
							}
						}
					}
				})
				if len(found) >= 3 && (recompute == nil || c.FK(fn) < c.FK(recompute)) {
					recompute = fn
				}
			}
			for i := 0; i < st.NumFields(); i++ {
				f := st.Field(i)
				b, isStr := f.Type().Underlying().(*types.Basic)
				if !isStr || b.Kind() != types.String || !strings.HasSuffix(f.Name(), "Path") || f.Name() == "SysfsPath" {
					continue
				}
				key := "HwMonFanConfig." + f.Name()
				if recompute == nil {
					c.R.Undecided("R-paths", key+"|complete", key, "-", "no function recomputes the entry's device paths (anchor unresolved)")
					continue
				}
				stored := false
				Instrs(recompute, func(ins ssa.Instruction) {
					if s2, ok := ins.(*ssa.Store); ok {
						if fa, ok := s2.Addr.(*ssa.FieldAddr); ok {
							if o, n, _ := ir.FieldName(fa); o != nil && o.Obj().Name() == "HwMonFanConfig" && n == f.Name() {
								stored = true
							}
						}
					}
				})
				if stored {
					c.R.Ok("R-paths", key+"|complete", key, c.P.Pos(recompute.Pos()), "recomputed by "+c.FK(recompute)+" together with the other device paths")
				} else {
					c.R.Bad("R-paths", key+"|complete", key, c.P.Pos(recompute.Pos()), "the entry keeps a device path "+f.Name()+" that "+c.FK(recompute)+" does not recompute from SysfsPath and the entry's channels: it stays whatever the discovery record held (the discovered channel), so with an explicit pwmChannel it names a different header")
				}
			}
		}
	}

	// ---- fan binding --------------------------------------------------------------------
	if fn := c.Func(PkgHwmon, "UpdateFanConfigFromHwMonControllers"); fn != nil {
		fk := c.FK(fn)
		isCfg := func(t *ir.Term, field string) bool {
			return t.Op == "field:"+field && !t.Has(func(x *ir.Term) bool { return x.Op == "field:Fans" }) && t.Has(func(x *ir.Term) bool { return strings.HasPrefix(x.Op, "param:") && strings.HasSuffix(x.Op, "#config") })
		}
		isCand := func(t *ir.Term, field string) bool {
			return t.Op == "field:"+field && t.Has(func(x *ir.Term) bool { return x.Op == "field:Fans" })
		}
		// terms are built with parameters resolved to the (unique) caller's arguments, so that the entry and
		// the candidate keep their identity inside helpers of the binding function (matchesChannel(entry, cand),
		// adoptDetectedFanConfig(entry, cand))
		tb := ir.NewTB(c.P.IsRepoFunc, c.P.FuncKey)
		tb.ParamCallers = c.StaticCallers
		// the binding function and the helpers of its package it calls (two levels)
		scope := []*ssa.Function{fn}
		inScope := map[*ssa.Function]bool{fn: true}
		for depth := 0; depth < 2; depth++ {
			for _, f := range append([]*ssa.Function{}, scope...) {
				Calls(f, func(cc ssa.CallInstruction) {
					if st := ir.Callee(cc).Static; st != nil && load_FuncPkgPath(st) == PkgHwmon && len(st.Blocks) > 0 && !inScope[st] && len(c.StaticCallers(st)) == 1 {
						inScope[st] = true
						scope = append(scope, st)
					}
				})
			}
		}
		// acceptance = store into the entry's SysfsPath (in the binding function or in such a helper)
		var acceptStores []*ssa.Store
		stores := map[string]*ssa.Store{}
		for _, sf := range scope {
			Instrs(sf, func(ins ssa.Instruction) {
				if st, ok := ins.(*ssa.Store); ok {
					if fa, ok := st.Addr.(*ssa.FieldAddr); ok {
						_, name, _ := ir.FieldName(fa)
						at := tb.Of(fa, nil)
						if len(at.Args) == 1 && isCfg(at.Args[0], name) {
							stores[name] = st
							if name == "SysfsPath" {
								acceptStores = append(acceptStores, st)
							}
						}
					}
				}
			})
		}
		// the acceptance as seen in the binding function's own control flow: the store, or the call of the helper holding it
		var accept []ssa.Instruction
		for _, st := range acceptStores {
			if st.Parent() == fn {
				accept = append(accept, st)
				continue
			}
			Calls(fn, func(cc ssa.CallInstruction) {
				if cal := ir.Callee(cc).Static; cal != nil && inScope[cal] {
					if cal == st.Parent() || c.staticallyCalls(cal, func(f *ssa.Function) bool { return f == st.Parent() }, 2) {
						accept = append(accept, cc)
					}
				}
			})
		}
		if len(accept) == 0 {
			c.R.Undecided("R-match", fk, fk, c.P.Pos(fn.Pos()), "no store to the entry's SysfsPath found (anchor unresolved)")
		} else {
			isAccept := func(ins ssa.Instruction) bool {
				for _, a := range accept {
					if ins == a {
						return true
					}
				}
				return false
			}
			clauses := map[string]func(fs []ir.Fact) bool{
				"platform pattern matched": func(fs []ir.Fact) bool {
					return ir.HasBool(fs, true, func(v ssa.Value) bool {
						return platformMatch(tb.Of(v, nil), func(x *ir.Term) bool { return isCfg(x, "Platform") })
					})
				},
			}
			for _, f := range []string{"Index", "RpmChannel"} {
				f := f
				clauses["entry."+f+" <= 0 or candidate."+f+" == entry."+f] = func(fs []ir.Fact) bool {
					return ir.HasFact(fs, token.LEQ, func(x, y ssa.Value) bool {
						k, isConst := ir.ConstInt(y)
						return isConst && k == 0 && isCfg(tb.Of(x, nil), f)
					}) || ir.HasFact(fs, token.EQL, func(x, y ssa.Value) bool {
						tx, ty := tb.Of(x, nil), tb.Of(y, nil)
						return (isCand(tx, f) && isCfg(ty, f)) || (isCand(ty, f) && isCfg(tx, f))
					})
				}
			}
			for name, est := range clauses {
				est := est
				// a boolean predicate helper establishes the clause when it can return true only across an
				// edge (or with a result) that establishes it
				helperOK := map[*ssa.Function]bool{}
				var helperEstablishes func(h *ssa.Function) bool
				var estEdge func(b *ssa.BasicBlock, si int, pf []ir.Fact) bool
				helperEstablishes = func(h *ssa.Function) bool {
					if v, done := helperOK[h]; done {
						return v
					}
					helperOK[h] = false
					if len(h.Blocks) == 0 || h.Signature.Results().Len() != 1 {
						return false
					}
					okAll := true
					ir.Search{TrackBools: true, StopEdgeF: estEdge}.Reach([]ir.Point{{Block: h.Blocks[0]}}, func(ins ssa.Instruction, via *ssa.BasicBlock) {
						rt, isRet := ins.(*ssa.Return)
						if !isRet {
							return
						}
						rv := ir.ResultVia(rt, 0, via)
						if k, isConst := ir.ConstBool(rv); isConst {
							if k {
								okAll = false
							}
							return
						}
						if !est(ir.CondFacts(rv, true)) {
							okAll = false
						}
					})
					helperOK[h] = okAll
					return okAll
				}
				estEdge = func(b *ssa.BasicBlock, si int, pf []ir.Fact) bool {
					fs := append(append([]ir.Fact{}, ir.EdgeFacts(b, si)...), pf...)
					if est(fs) {
						return true
					}
					for _, f := range fs {
						if f.Bool == nil || !f.Truth {
							continue
						}
						if call, isCall := f.Bool.(*ssa.Call); isCall {
							if h := ir.Callee(call).Static; h != nil && inScope[h] && helperEstablishes(h) {
								return true
							}
						}
					}
					return false
				}
				reached := false
				ir.Search{TrackBools: true, StopEdgeF: estEdge}.Reach([]ir.Point{{Block: fn.Blocks[0]}}, func(ins ssa.Instruction, _ *ssa.BasicBlock) {
					if isAccept(ins) {
						reached = true
					}
				})
				if reached {
					c.R.Bad("R-match", fk+"|"+name, fk, c.P.Pos(accept[0].Pos()), "a device can be accepted for the entry on a path that did not establish: "+name)
				} else {
					c.R.Ok("R-match", fk+"|"+name, fk, c.P.Pos(accept[0].Pos()), "acceptance reachable only across: "+name)
				}
			}
			// copied values come from the candidate
			for _, f := range []string{"Index", "RpmChannel", "SysfsPath"} {
				st := stores[f]
				if st == nil {
					c.R.Bad("R-copy", fk+"|"+f, fk, c.P.Pos(fn.Pos()), "the entry's "+f+" is not taken over from the matched device")
					continue
				}
				if isCand(tb.Of(st.Val, nil), f) {
					c.R.Ok("R-copy", fk+"|"+f, fk, c.P.Pos(st.Pos()), "entry."+f+" = candidate."+f)
				} else {
					c.R.Bad("R-copy", fk+"|"+f, fk, c.P.Pos(st.Pos()), "entry."+f+" is set from "+tb.Of(st.Val, nil).String()+" instead of the matched device's "+f)
				}
			}
			// R-default
			if st := stores["PwmChannel"]; st != nil {
				facts := ir.BlockFacts(st.Block())
				guarded := ir.HasFact(facts, token.EQL, func(x, y ssa.Value) bool {
					k, isConst := ir.ConstInt(y)
					return isConst && k == 0 && isCfg(tb.Of(x, nil), "PwmChannel")
				})
				fromCand := isCand(tb.Of(st.Val, nil), "PwmChannel")
				if guarded && fromCand {
					c.R.Ok("R-default", fk, fk, c.P.Pos(st.Pos()), "the configured pwmChannel is replaced only when it is 0, by the matched device's channel")
				} else {
					c.R.Bad("R-default", fk, fk, c.P.Pos(st.Pos()), sprintf("the entry's pwmChannel is overwritten (guarded by ==0: %v, from the matched device: %v)", guarded, fromCand))
				}
			} else {
				c.R.Bad("R-default", fk, fk, c.P.Pos(fn.Pos()), "pwmChannel is never defaulted to the matched device's channel")
			}
			// paths recomputed after acceptance on every path to a nil return
			ei := errResultIndex(fn)
			setsPaths := func(ins ssa.Instruction) bool {
				cc, ok := ins.(ssa.CallInstruction)
				if !ok {
					return false
				}
				for _, cal := range c.Callees(cc) {
					found := 0
					Instrs(cal, func(i2 ssa.Instruction) {
						if st, ok := i2.(*ssa.Store); ok {
							if fa, ok := st.Addr.(*ssa.FieldAddr); ok {
								if _, n, _ := ir.FieldName(fa); want[n] != nil {
									found++
								}
							}
						}
					})
					if found >= 3 {
						return true
					}
				}
				return false
			}
			var starts []ir.Point
			for _, a := range accept {
				starts = append(starts, ir.After(a))
			}
			var rets []retVia
			for _, st := range acceptStores {
				inner := returnsFrom([]ir.Point{ir.After(st)}, ir.Search{StopInstr: setsPaths})
				if st.Parent() == fn {
					rets = append(rets, inner...)
				} else if len(inner) > 0 {
					// the helper returns without recomputing: the caller must do it after the call
					rets = append(rets, returnsFrom(starts, ir.Search{StopInstr: setsPaths})...)
				}
			}
			if len(rets) > 0 {
				c.R.Bad("R-default", fk+"|paths-recomputed", fk, c.P.Pos(rets[0].ret.Pos()), "after accepting a device the function can return without recomputing the three sysfs paths (pwm/enable paths would not follow the pwm channel)")
			} else {
				c.R.Ok("R-default", fk+"|paths-recomputed", fk, c.P.Pos(accept[0].Pos()), "the three sysfs paths are recomputed after acceptance (and after pwmChannel defaulting) on every path to a return")
			}
			// the pwmChannel defaulting must precede the path computation
			if st := stores["PwmChannel"]; st != nil {
				late := false
				lateStarts := starts
				if st.Parent() != fn && len(acceptStores) > 0 && acceptStores[0].Parent() == st.Parent() {
					lateStarts = []ir.Point{ir.After(acceptStores[0])}
				}
				ir.Search{}.Reach(lateStarts, func(ins ssa.Instruction, _ *ssa.BasicBlock) {
					if setsPaths(ins) {
						// is the PwmChannel store reachable after this call?
						ir.Search{}.Reach([]ir.Point{ir.After(ins)}, func(i2 ssa.Instruction, _ *ssa.BasicBlock) {
							if i2 == ssa.Instruction(st) {
								late = true
							}
						})
					}
				})
				if late {
					c.R.Bad("R-default", fk+"|order", fk, c.P.Pos(st.Pos()), "pwmChannel can be defaulted after the paths were computed")
				}
			}
			// R-fail
			bad := ""
			for _, rv := range returnsFrom([]ir.Point{{Block: fn.Blocks[0]}}, ir.Search{StopInstr: isAccept}) {
				facts := factsAt(rv.ret.Block(), rv.via)
				if mayBeNilError(rv.ret.Results[ei], facts) && mayBeNilError(ir.ResultVia(rv.ret, ei, rv.via), facts) {
					bad = c.P.Pos(rv.ret.Pos())
				}
			}
			if bad != "" {
				c.R.Bad("R-fail", fk, fk, bad, "the fan binding can return nil without having bound the entry to a device")
			} else {
				c.R.Ok("R-fail", fk, fk, c.P.Pos(fn.Pos()), "every return that avoids the acceptance carries a non-nil error")
			}
		}
	}
	c.R.Require("R-match", 3)
	c.R.Require("R-fail", 1)

	// the daemon's fan initialisation propagates the binding error
	initObjs := c.Func(PkgInternal, "InitializeObjects")
	var startFns []*ssa.Function
	if initObjs != nil {
		startFns = c.SortedFuncs(c.Closure([]*ssa.Function{initObjs}, true, func(f *ssa.Function) bool {
			p := load_FuncPkgPath(f)
			return p != PkgInternal && p != PkgHwmon
		}))
	}
	for _, fn := range startFns {
		if errResultIndex(fn) < 0 {
			continue
		}
		c.checkErrorPropagation("R-fail-propagated", fn, func(call *ssa.Call) bool {
			cal := ir.Callee(call).Static
			return cal != nil && (ir.FuncIs(cal, PkgHwmon, "UpdateFanConfigFromHwMonControllers") || (load_FuncPkgPath(cal) == PkgInternal && errResultIndex(cal) >= 0))
		})
	}
	c.R.Require("R-fail-propagated", 2)

	// ---- sensor binding -----------------------------------------------------------------
	nb := 0
	for _, fn := range startFns {
		var newSensor *ssa.Call
		Calls(fn, func(cc ssa.CallInstruction) {
			if call, ok := cc.(*ssa.Call); ok && ir.IsFunc(cc, PkgSensors, "NewSensor") {
				newSensor = call
			}
		})
		if newSensor == nil {
			continue
		}
		nb++
		fk := c.FK(fn)
		// edges establishing <config>.HwMon != nil
		var hwEdges []edge
		for _, b := range fn.Blocks {
			for si := range b.Succs {
				if ir.HasFact(ir.EdgeFacts(b, si), token.NEQ, func(x, y ssa.Value) bool {
					return ir.IsNilConst(y) && tb.Of(x, nil).Op == "field:HwMon"
				}) {
					hwEdges = append(hwEdges, edge{b, si})
				}
			}
		}
		if len(hwEdges) == 0 {
			c.R.Undecided("R-bind-sensor", fk, fk, c.P.Pos(newSensor.Pos()), "no test of <sensor config>.HwMon != nil found (anchor unresolved)")
			continue
		}
		tempStores := tempInputStores(fn)
		// the lookup may live in a helper called from here: its stores count, through a summary of the
		// helper's outcomes that do not bind (see binderOutcomes)
		type binderCall struct {
			call *ssa.Call
			outs []bindOutcome
		}
		var binders []binderCall
		var helperStores []*ssa.Store
		Calls(fn, func(cc ssa.CallInstruction) {
			call, ok := cc.(*ssa.Call)
			if !ok {
				return
			}
			h := ir.Callee(call).Static
			if h == nil || h == fn || !c.P.IsRepoFunc(h) || len(h.Blocks) == 0 || load_FuncPkgPath(h) != load_FuncPkgPath(fn) {
				return
			}
			if hs := tempInputStores(h); len(hs) > 0 {
				binders = append(binders, binderCall{call, binderOutcomes(h, hs)})
				helperStores = append(helperStores, hs...)
			}
		})
		isTemp := func(ins ssa.Instruction) bool {
			for _, s := range tempStores {
				if ins == ssa.Instruction(s) {
					return true
				}
			}
			for _, bc := range binders {
				if ins == ssa.Instruction(bc.call) {
					return true
				}
			}
			return false
		}
		reached := false
		ir.Search{StopInstr: isTemp, TrackBools: true}.Reach(edgeStarts(hwEdges), func(ins ssa.Instruction, _ *ssa.BasicBlock) {
			if ins == ssa.Instruction(newSensor) {
				reached = true
			}
		})
		// after a helper call: for each way the helper can return without having bound, the path to NewSensor
		// must cross an edge that contradicts that outcome (err != nil returned on, !found turned into an error)
		for _, bc := range binders {
			for _, u := range bc.outs {
				u := u
				stop := func(b *ssa.BasicBlock, si int) bool { return u.contradictedBy(bc.call, ir.EdgeFacts(b, si)) }
				start := ir.Point{Block: bc.call.Block(), Idx: instrIndex(bc.call) + 1}
				ir.Search{StopInstr: func(ins ssa.Instruction) bool {
					for _, s := range tempStores {
						if ins == ssa.Instruction(s) {
							return true
						}
					}
					return false
				}, StopEdge: stop, TrackBools: true}.Reach([]ir.Point{start}, func(ins ssa.Instruction, _ *ssa.BasicBlock) {
					if ins == ssa.Instruction(newSensor) {
						reached = true
					}
				})
			}
		}
		tempStoresAll := append(append([]*ssa.Store{}, tempStores...), helperStores...)
		if reached || len(tempStoresAll) == 0 {
			c.R.Bad("R-bind-sensor", fk, fk, c.P.Pos(newSensor.Pos()), "a hwmon sensor is created on a path on which no temperature input of a matching device was bound (missing platform/index is not turned into an error)")
		} else {
			c.R.Ok("R-bind-sensor", fk, fk, c.P.Pos(newSensor.Pos()), "for a hwmon entry NewSensor is reachable only after TempInput was stored (tracked through the boolean flag)")
		}
		for _, st := range tempStoresAll {
			facts := ir.BlockFacts(st.Block())
			fk := c.FK(st.Parent())
			matched := ir.HasBool(facts, true, func(v ssa.Value) bool {
				return platformMatch(tb.Of(v, nil), func(x *ir.Term) bool { return x.Op == "field:Platform" })
			})
			exists := ir.HasBool(facts, true, func(v ssa.Value) bool {
				t := tb.Of(v, nil)
				return t.Op == "ok" && len(t.Args) == 1 && t.Args[0].Op == "lookup" && t.Args[0].Args[0].Op == "field:Sensors" && t.Args[0].Args[1].Op == "field:Index"
			})
			vt := tb.Of(st.Val, nil)
			fromLookup := vt.Op == "field:Input" && vt.Has(func(x *ir.Term) bool { return x.Op == "lookup" })
			if matched && exists && fromLookup {
				c.R.Ok("R-bind-sensor", fk+"|TempInput", fk, c.P.Pos(st.Pos()), "TempInput = Sensors[entry.Index].Input of a chip whose platform matched, under the lookup's ok")
			} else {
				c.R.Bad("R-bind-sensor", fk+"|TempInput", fk, c.P.Pos(st.Pos()), sprintf("TempInput store: platform matched=%v, index lookup ok=%v, value from the looked-up sensor=%v", matched, exists, fromLookup))
			}
		}
	}
	if nb == 0 {
		c.R.Undecided("R-bind-sensor", "none", "InitializeObjects", "-", "no NewSensor call in the start-up code (anchor unresolved)")
	}
	c.R.Require("R-bind-sensor", 2)

	// ---- R-position: a sensor's index is its position among the chip's temperature inputs -----
	// The discovery function that builds map[int]*HwmonSensor keys the map, and fills HwmonSensor.Index,
	// with a counter that starts at a constant and is incremented by one per accepted input - not with a
	// number taken from the device (file name, feature number).
	npos := 0
	for _, fn := range c.P.Funcs {
		if load_FuncPkgPath(fn) != PkgHwmon || fn.Signature.Results().Len() != 1 || len(fn.Blocks) == 0 {
			continue
		}
		mt, ok := fn.Signature.Results().At(0).Type().Underlying().(*types.Map)
		if !ok {
			continue
		}
		pt, ok := mt.Elem().Underlying().(*types.Pointer)
		if !ok {
			continue
		}
		if n := ir.NamedOf(pt.Elem()); n == nil || n.Obj().Name() != "HwmonSensor" {
			continue
		}
		fk := c.FK(fn)
		isCounter := func(v ssa.Value) bool {
			v = ir.Resolve(v)
			bo, ok := v.(*ssa.BinOp)
			if !ok || bo.Op != token.ADD {
				return false
			}
			if k, isConst := ir.ConstInt(bo.Y); !isConst || k != 1 {
				return false
			}
			phi, ok := ir.Resolve(bo.X).(*ssa.Phi)
			if !ok {
				return false
			}
			// every definition merged by the phi is a constant, the phi itself, the incremented counter, or another phi of those
			seen := map[ssa.Value]bool{}
			var okPhi func(p *ssa.Phi, depth int) bool
			okPhi = func(p *ssa.Phi, depth int) bool {
				if seen[p] || depth > 6 {
					return true
				}
				seen[p] = true
				for _, e := range p.Edges {
					e = ir.Resolve(e)
					if _, isConst := ir.ConstInt(e); isConst {
						continue
					}
					if e == ssa.Value(bo) || e == ssa.Value(p) {
						continue
					}
					if q, isPhi := e.(*ssa.Phi); isPhi {
						if !okPhi(q, depth+1) {
							return false
						}
						continue
					}
					if b2, isBin := e.(*ssa.BinOp); isBin && b2.Op == token.ADD {
						if k, isConst := ir.ConstInt(b2.Y); isConst && k == 1 {
							if q, isPhi := ir.Resolve(b2.X).(*ssa.Phi); isPhi && okPhi(q, depth+1) {
								continue
							}
						}
					}
					return false
				}
				return true
			}
			return okPhi(phi, 0)
		}
		// the sensor may be built by a helper that receives the position as a parameter
		scan := []*ssa.Function{fn}
		for _, g := range c.P.Funcs {
			if g != fn && load_FuncPkgPath(g) == PkgHwmon && len(c.StaticCallers(g)) > 0 {
				onlyFromFn := true
				for _, site := range c.StaticCallers(g) {
					if site.Parent() != fn {
						onlyFromFn = false
					}
				}
				if onlyFromFn {
					scan = append(scan, g)
				}
			}
		}
		for _, sf := range scan {
			Instrs(sf, func(ins ssa.Instruction) {
				var v ssa.Value
				what := ""
				switch x := ins.(type) {
				case *ssa.MapUpdate:
					if ir.Root(x.Map) != nil && types.Identical(x.Map.Type().Underlying(), mt) {
						v, what = x.Key, "map key"
					}
				case *ssa.Store:
					if fa, ok := x.Addr.(*ssa.FieldAddr); ok {
						if o, n, _ := ir.FieldName(fa); o != nil && o.Obj().Name() == "HwmonSensor" && n == "Index" {
							v, what = x.Val, "HwmonSensor.Index"
						}
					}
				}
				if v == nil {
					return
				}
				if p, isParam := ir.Resolve(v).(*ssa.Parameter); isParam {
					if arg := ir.ParamArg(p, c.StaticCallers); arg != nil {
						v = arg
					}
				}
				npos++
				key := fk + "|" + what
				if isCounter(v) {
					c.R.Ok("R-position", key, fk, c.P.Pos(ins.Pos()), what+" is the running count of accepted temperature inputs (position on the chip)")
				} else {
					c.R.Bad("R-position", key, fk, c.P.Pos(ins.Pos()), what+" is not the position counter but "+tb.Of(v, nil).String()+": a configured index then selects a different device than 'the n-th temperature input of the chip' (or none) on chips whose inputs are not numbered 1..n")
				}
			})
		}
	}
	if npos == 0 {
		c.R.Undecided("R-position", "none", PkgHwmon, "-", "no discovery function building map[int]*HwmonSensor found (anchor unresolved)")
	}
	c.R.Require("R-position", 2)

	// ---- R-nocrash in the binding code ------------------------------------------------------
	nsite := 0
	scope := append([]*ssa.Function{}, startFns...)
	if f := c.FuncOpt(PkgHwmon, "UpdateFanConfigFromHwMonControllers"); f != nil {
		scope = append(scope, f)
	}
	for _, fn := range scope {
		p := load_FuncPkgPath(fn)
		if p != PkgInternal && p != PkgHwmon {
			continue
		}
		Instrs(fn, func(ins ssa.Instruction) {
			switch x := ins.(type) {
			case *ssa.Lookup:
				if _, isMap := x.X.Type().Underlying().(*types.Map); !isMap || x.CommaOk {
					return
				}
				if _, isPtr := x.Type().Underlying().(*types.Pointer); !isPtr {
					return
				}
				nsite++
				deref := false
				if refs := x.Referrers(); refs != nil {
					for _, r := range *refs {
						switch r.(type) {
						case *ssa.FieldAddr, *ssa.UnOp:
							deref = true
						}
					}
				}
				if deref {
					c.R.Bad("R-nocrash", c.FK(fn)+"|map-deref", c.FK(fn), c.P.Pos(x.Pos()), "the result of a map lookup is dereferenced without an existence test: a missing index/channel crashes start-up instead of producing the error")
				}
			case *ssa.TypeAssert:
				if !x.CommaOk {
					nsite++
					c.R.Bad("R-nocrash", c.FK(fn)+"|assert", c.FK(fn), c.P.Pos(x.Pos()), "non-comma-ok type assertion in the binding code")
				}
			case *ssa.Panic:
				if x.Pos().IsValid() {
					nsite++
					c.R.Bad("R-nocrash", c.FK(fn)+"|panic", c.FK(fn), c.P.Pos(x.Pos()), "panic in the binding code")
				}
			}
		})
	}
	c.R.Ok("R-nocrash", "summary", "binding code", "-", sprintf("%d functions of the start-up binding code inspected for unchecked map-lookup dereference / assertion / panic", len(scope)))
	c.ruleHoles("R-holes")
	c.ruleSliceAlias("R-alias")
}

// ruleSliceAlias: the start-up code does not filter a device list in place. `out := in[:0]; out = append(out, x)`
// writes into the backing array of `in`; when `in` is a parameter (or is read again later) the caller's list is
// silently rearranged - chips vanish from the list the next binding step receives, depending on their order.
func (c *Ctx) ruleSliceAlias(rule string) {
	n, nbad := 0, 0
	for _, fn := range c.P.Funcs {
		if p := load_FuncPkgPath(fn); (p != PkgHwmon && p != PkgInternal) || len(fn.Blocks) == 0 {
			continue
		}
		// does v derive (through phis and appends) from a re-slice of a parameter of slice type?
		var fromParamSlice func(v ssa.Value, depth int, seen map[ssa.Value]bool) *ssa.Slice
		fromParamSlice = func(v ssa.Value, depth int, seen map[ssa.Value]bool) *ssa.Slice {
			v = ir.Resolve(v)
			if depth > 8 || seen[v] {
				return nil
			}
			seen[v] = true
			switch x := v.(type) {
			case *ssa.Slice:
				if _, isSlice := x.X.Type().Underlying().(*types.Slice); !isSlice {
					return nil
				}
				if _, isParam := ir.Resolve(x.X).(*ssa.Parameter); isParam {
					return x
				}
				return fromParamSlice(x.X, depth+1, seen)
			case *ssa.Phi:
				for _, e := range x.Edges {
					if s := fromParamSlice(e, depth+1, seen); s != nil {
						return s
					}
				}
			case *ssa.Call:
				if ir.Callee(x).Builtin == "append" && len(x.Call.Args) > 0 {
					return fromParamSlice(x.Call.Args[0], depth+1, seen)
				}
			}
			return nil
		}
		Calls(fn, func(cc ssa.CallInstruction) {
			call, ok := cc.(*ssa.Call)
			if !ok || ir.Callee(call).Builtin != "append" || len(call.Call.Args) == 0 {
				return
			}
			n++
			if sl := fromParamSlice(call.Call.Args[0], 0, map[ssa.Value]bool{}); sl != nil {
				nbad++
				c.R.Bad(rule, c.FK(fn)+"|append", c.FK(fn), c.P.Pos(call.Pos()), "append to a re-slice of the parameter list ("+c.P.Pos(sl.Pos())+"): the elements are written into the caller's backing array, so the list the caller goes on to use (the next binding step) is rearranged / loses entries depending on the order of the devices")
			}
		})
	}
	c.R.Ok(rule, "summary", PkgInternal, "-", sprintf("%d append sites in the discovery / instantiation packages, %d into a re-slice of a parameter", n, nbad))
}

// ruleHoles: the device lists handed to the binding code contain no nil element. The binders dereference every
// element (chip.Platform, chip.Fans, ...) without a nil test, so a list of pointers must be built by appending
// non-nil elements; a list pre-sized with make([]*T, n), n != 0, is accepted only when every iteration of the
// filling loop stores its slot (no continue / early back edge before the store).
func (c *Ctx) ruleHoles(rule string) {
	n := 0
	for _, fn := range c.P.Funcs {
		if p := load_FuncPkgPath(fn); p != PkgHwmon && p != PkgInternal {
			continue
		}
		Instrs(fn, func(ins ssa.Instruction) {
			ms, ok := ins.(*ssa.MakeSlice)
			if !ok {
				return
			}
			sl, ok := ms.Type().Underlying().(*types.Slice)
			if !ok {
				return
			}
			if _, isPtr := sl.Elem().Underlying().(*types.Pointer); !isPtr {
				return
			}
			n++
			key := c.FK(fn) + "|make " + types.TypeString(ms.Type(), func(p *types.Package) string { return p.Name() })
			if k, isConst := ir.ConstInt(ms.Len); isConst && k == 0 {
				c.R.Ok(rule, key, c.FK(fn), c.P.Pos(ms.Pos()), "created empty: elements exist only where appended")
				return
			}
			// stores into slots of this slice
			isSlotStore := func(x ssa.Instruction) bool {
				st, ok := x.(*ssa.Store)
				if !ok {
					return false
				}
				ia, ok := st.Addr.(*ssa.IndexAddr)
				return ok && ir.Resolve(ia.X) == ssa.Value(ms)
			}
			var stores []ssa.Instruction
			Instrs(fn, func(x ssa.Instruction) {
				if isSlotStore(x) {
					stores = append(stores, x)
				}
			})
			if len(stores) == 0 {
				c.R.Bad(rule, key, c.FK(fn), c.P.Pos(ms.Pos()), "a list of pointers is created with a non-zero length and no slot is ever stored: it holds nil elements, which the binding code dereferences")
				return
			}
			bad := ""
			for _, st := range stores {
				h := loopHead(st.Block())
				if h == nil {
					continue
				}
				// back-edge sources of this loop
				for _, pred := range h.Preds {
					if !h.Dominates(pred) {
						continue
					}
					ir.Search{StopInstr: isSlotStore}.Reach([]ir.Point{{Block: h, Idx: 0}}, func(x ssa.Instruction, _ *ssa.BasicBlock) {
						if x.Block() == pred && x == pred.Instrs[len(pred.Instrs)-1] && bad == "" {
							bad = "an iteration of the loop at " + c.P.Pos(st.Pos()) + " can reach the next iteration without storing its slot"
						}
					})
				}
			}
			if bad != "" {
				c.R.Bad(rule, key, c.FK(fn), c.P.Pos(ms.Pos()), "a list of pointers is pre-sized with make(len) and filled by index, but "+bad+": the skipped slot stays nil and the binding code dereferences every element (start-up crash that depends on which other chips are enumerated)")
			} else {
				c.R.Ok(rule, key, c.FK(fn), c.P.Pos(ms.Pos()), "pre-sized list: every iteration of the filling loop stores its slot")
			}
		})
	}
	c.R.Ok(rule, "summary", PkgHwmon, "-", sprintf("%d make([]*T, n) sites in the discovery / binding packages", n))
}

// platformMatch recognises "the chip's platform matched the entry's pattern":
// regexp.MatchString(pattern, chip.Platform) or (*regexp.Regexp).MatchString of
// a regexp compiled from the pattern; the pattern must derive from the entry
// (isEntryPlatform) and the subject must be a Platform field of another object.
func platformMatch(t *ir.Term, isEntryPlatform func(*ir.Term) bool) bool {
	var pat, subj *ir.Term
	switch {
	case t.Op == "res0" && len(t.Args) == 1 && t.Args[0].Op == "call:regexp.MatchString" && len(t.Args[0].Args) == 2:
		pat, subj = t.Args[0].Args[0], t.Args[0].Args[1]
	case t.Op == "call:(*regexp.Regexp).MatchString" && len(t.Args) == 2:
		pat, subj = t.Args[0], t.Args[1]
	default:
		return false
	}
	return pat.Has(isEntryPlatform) && subj.Op == "field:Platform" && !subj.Has(func(x *ir.Term) bool { return x != subj && isEntryPlatform(x) })
}

func tempInputStores(fn *ssa.Function) []*ssa.Store {
	var out []*ssa.Store
	Instrs(fn, func(ins ssa.Instruction) {
		if st, ok := ins.(*ssa.Store); ok {
			if fa, ok := st.Addr.(*ssa.FieldAddr); ok {
				if _, n, _ := ir.FieldName(fa); n == "TempInput" {
					out = append(out, st)
				}
			}
		}
	})
	return out
}

func instrIndex(ins ssa.Instruction) int {
	for i, x := range ins.Block().Instrs {
		if x == ins {
			return i
		}
	}
	return -1
}

// bindOutcome is one way a binding helper can return without having stored TempInput: what is then
// known about its boolean and error results (nil pointer: not known).
type bindOutcome struct {
	boolIdx, errIdx int // result indexes (-1: none)
	boolVal         *bool
	errNil          *bool
}

// binderOutcomes enumerates the returns of h reachable from its entry without passing a TempInput
// store (path-sensitive in boolean flags).
func binderOutcomes(h *ssa.Function, stores []*ssa.Store) []bindOutcome {
	ei := errResultIndex(h)
	bi := -1
	res := h.Signature.Results()
	for i := 0; i < res.Len(); i++ {
		if b, ok := res.At(i).Type().Underlying().(*types.Basic); ok && b.Kind() == types.Bool && bi < 0 {
			bi = i
		}
	}
	var outs []bindOutcome
	isStore := func(ins ssa.Instruction) bool {
		for _, s := range stores {
			if ins == ssa.Instruction(s) {
				return true
			}
		}
		return false
	}
	s := ir.Search{StopInstr: isStore, TrackBools: true}
	s.VisitEnv = func(ins ssa.Instruction, via *ssa.BasicBlock, known func(ssa.Value) (bool, bool)) {
		ret, ok := ins.(*ssa.Return)
		if !ok {
			return
		}
		u := bindOutcome{boolIdx: bi, errIdx: ei}
		if bi >= 0 {
			if v, k := known(ir.ResultVia(ret, bi, via)); k {
				u.boolVal = &v
			} else if v, k := known(ret.Results[bi]); k {
				u.boolVal = &v
			}
		}
		if ei >= 0 {
			facts := factsAt(ret.Block(), via)
			rv := ir.ResultVia(ret, ei, via)
			switch {
			case !mayBeNilError(rv, facts):
				f := false
				u.errNil = &f
			case ir.IsNilConst(ir.Resolve(rv)):
				t := true
				u.errNil = &t
			}
		}
		outs = append(outs, u)
	}
	s.Reach([]ir.Point{{Block: h.Blocks[0], Idx: 0}}, func(ssa.Instruction, *ssa.BasicBlock) {})
	return outs
}

// contradictedBy: the facts of an edge in the caller rule this outcome of call out.
func (u bindOutcome) contradictedBy(call *ssa.Call, facts []ir.Fact) bool {
	resultOf := func(v ssa.Value, idx int) bool {
		v = ir.Resolve(v)
		if idx < 0 {
			return false
		}
		if ex, ok := v.(*ssa.Extract); ok {
			return ex.Tuple == ssa.Value(call) && ex.Index == idx
		}
		return v == ssa.Value(call) && call.Call.Signature().Results().Len() == 1
	}
	for _, f := range facts {
		if f.Bool != nil && u.boolVal != nil && resultOf(f.Bool, u.boolIdx) && f.Truth != *u.boolVal {
			return true
		}
		if u.errNil != nil && (f.Op == token.EQL || f.Op == token.NEQ) {
			var x ssa.Value
			switch {
			case ir.IsNilConst(f.Y):
				x = f.X
			case ir.IsNilConst(f.X):
				x = f.Y
			default:
				continue
			}
			if resultOf(x, u.errIdx) && (f.Op == token.EQL) != *u.errNil {
				return true
			}
		}
	}
	return false
}
