package ir

import (
	"fmt"
	"go/token"
	"go/types"
	"sort"
	"strings"

	"golang.org/x/tools/go/ssa"
)

// Term is a normalised description of where a value comes from (E3).
type Term struct {
	Op   string
	Args []*Term
	Val  ssa.Value // the SSA value this term was built from (may be nil)
}

func (t *Term) String() string {
	if t == nil {
		return "<nil>"
	}
	if len(t.Args) == 0 {
		return t.Op
	}
	parts := make([]string, len(t.Args))
	for i, a := range t.Args {
		parts[i] = a.String()
	}
	return t.Op + "(" + strings.Join(parts, ", ") + ")"
}

// Has reports whether t or any sub-term satisfies pred.
func (t *Term) Has(pred func(*Term) bool) bool {
	if t == nil {
		return false
	}
	if pred(t) {
		return true
	}
	for _, a := range t.Args {
		if a.Has(pred) {
			return true
		}
	}
	return false
}

// Find returns the first sub-term (pre-order) satisfying pred.
func (t *Term) Find(pred func(*Term) bool) *Term {
	if t == nil {
		return nil
	}
	if pred(t) {
		return t
	}
	for _, a := range t.Args {
		if r := a.Find(pred); r != nil {
			return r
		}
	}
	return nil
}

// Subst returns t with every sub-term whose String equals from replaced by to.
func (t *Term) Subst(from string, to *Term) *Term {
	if t == nil {
		return nil
	}
	if t.String() == from {
		return to
	}
	n := &Term{Op: t.Op, Val: t.Val}
	for _, a := range t.Args {
		n.Args = append(n.Args, a.Subst(from, to))
	}
	return n
}

// Env binds parameters of an inlined callee to argument terms.
type Env struct {
	params map[*ssa.Parameter]*Term
}

// TB builds terms.
type TB struct {
	IsRepo          func(*ssa.Function) bool
	FuncKey         func(*ssa.Function) string
	InlineMaxBlocks int
	MaxDepth        int
	NoInline        func(*ssa.Function) bool
	// ParamCallers, when set, returns the candidate call sites of a function; a parameter that is not
	// bound by inlining is replaced by the argument term when exactly one candidate site exists
	// (helpers extracted from a single caller read like the inlined code).
	ParamCallers func(*ssa.Function) []ssa.CallInstruction
	// ParamCallersMulti additionally resolves a parameter with 2..4 call sites to the common term of
	// their arguments (or a phi of them).
	ParamCallersMulti bool

	stack    map[*ssa.Function]bool
	visiting map[ssa.Value]bool
	depth    int
}

func NewTB(isRepo func(*ssa.Function) bool, key func(*ssa.Function) string) *TB {
	return &TB{IsRepo: isRepo, FuncKey: key, InlineMaxBlocks: 8, MaxDepth: 40, stack: map[*ssa.Function]bool{}, visiting: map[ssa.Value]bool{}}
}

func leaf(op string, v ssa.Value) *Term { return &Term{Op: op, Val: v} }

// Of returns the term of v under env (env may be nil).
func (tb *TB) Of(v ssa.Value, env *Env) *Term {
	tb.depth++
	defer func() { tb.depth-- }()
	if tb.depth > tb.MaxDepth {
		return leaf("?deep", v)
	}
	v = Resolve(v)
	switch x := v.(type) {
	case *ssa.Const:
		if x.IsNil() {
			return leaf("nil", v)
		}
		if x.Value == nil {
			return leaf("zero:"+x.Type().String(), v)
		}
		return leaf("const:"+x.Value.ExactString(), v)
	case *ssa.Parameter:
		if env != nil {
			if t, ok := env.params[x]; ok {
				return t
			}
		}
		if tb.ParamCallers != nil && !tb.visiting[x] {
			if arg := ParamArg(x, tb.ParamCallers); arg != nil {
				tb.visiting[x] = true
				t := tb.Of(arg, nil)
				delete(tb.visiting, x)
				// keep receiver normalisation: a receiver passed on as receiver stays "recv:T"
				return t
			}
			// several call sites: the parameter is one of their arguments
			if args := ParamArgs(x, tb.ParamCallers); tb.ParamCallersMulti && len(args) >= 2 && len(args) <= 4 {
				tb.visiting[x] = true
				var ts []*Term
				same := true
				for _, a := range args {
					t := tb.Of(a, nil)
					if len(ts) > 0 && t.String() != ts[0].String() {
						same = false
					}
					ts = append(ts, t)
				}
				delete(tb.visiting, x)
				if same {
					return ts[0]
				}
				return &Term{Op: "phi", Args: ts, Val: v}
			}
		}
		if fn := x.Parent(); fn != nil && fn.Signature.Recv() != nil && len(fn.Params) > 0 && fn.Params[0] == x {
			if n := NamedOf(x.Type()); n != nil {
				return leaf("recv:"+n.Obj().Name(), v)
			}
		}
		return leaf("param:"+tb.FuncKey(x.Parent())+"#"+x.Name(), v)
	case *ssa.FreeVar:
		if b := FreeVarBinding(x); b != nil {
			return tb.Of(b, nil)
		}
		return leaf("freevar:"+x.Name(), v)
	case *ssa.Alloc:
		return leaf("alloc:"+allocName(x)+"@"+tb.FuncKey(x.Parent()), v)
	case *ssa.Global:
		return leaf("global:"+x.Pkg.Pkg.Path()+"."+x.Name(), v)
	case *ssa.Function:
		return leaf("func:"+tb.FuncKey(x), v)
	case *ssa.MakeClosure:
		return leaf("closure:"+tb.FuncKey(x.Fn.(*ssa.Function)), v)
	case *ssa.UnOp:
		if x.Op == token.MUL {
			return tb.load(x, env)
		}
		return &Term{Op: "un:" + x.Op.String(), Args: []*Term{tb.Of(x.X, env)}, Val: v}
	case *ssa.FieldAddr:
		_, name, _ := FieldName(x)
		return &Term{Op: "addr", Args: []*Term{{Op: "field:" + name, Args: []*Term{tb.base(x.X, env)}, Val: v}}, Val: v}
	case *ssa.Field:
		_, name, _ := FieldName(x)
		return &Term{Op: "field:" + name, Args: []*Term{tb.Of(x.X, env)}, Val: v}
	case *ssa.IndexAddr:
		return &Term{Op: "addr", Args: []*Term{{Op: "index", Args: []*Term{tb.Of(x.X, env), tb.Of(x.Index, env)}, Val: v}}, Val: v}
	case *ssa.Index:
		return &Term{Op: "index", Args: []*Term{tb.Of(x.X, env), tb.Of(x.Index, env)}, Val: v}
	case *ssa.Lookup:
		return &Term{Op: "lookup", Args: []*Term{tb.Of(x.X, env), tb.Of(x.Index, env)}, Val: v}
	case *ssa.Extract:
		return tb.extract(x, env)
	case *ssa.Call:
		return tb.call(x, env)
	case *ssa.Phi:
		if tb.visiting[v] {
			return leaf("loop", v)
		}
		tb.visiting[v] = true
		defer delete(tb.visiting, v)
		return phiOf(v, tb.terms(x.Edges, env))
	case *ssa.BinOp:
		return &Term{Op: "bin:" + x.Op.String(), Args: []*Term{tb.Of(x.X, env), tb.Of(x.Y, env)}, Val: v}
	case *ssa.Convert:
		src, dst := basicKind(x.X.Type()), basicKind(x.Type())
		if src != dst && src != "" && dst != "" {
			return &Term{Op: "conv:" + dst, Args: []*Term{tb.Of(x.X, env)}, Val: v}
		}
		return tb.Of(x.X, env)
	case *ssa.Slice:
		if va := VarArgs(x); va != nil {
			return &Term{Op: "list", Args: tb.terms(va, env), Val: v}
		}
		args := []*Term{tb.Of(x.X, env)}
		for _, e := range []ssa.Value{x.Low, x.High} {
			if e != nil {
				args = append(args, tb.Of(e, env))
			} else {
				args = append(args, leaf("_", nil))
			}
		}
		return &Term{Op: "slice", Args: args, Val: v}
	case *ssa.TypeAssert:
		return &Term{Op: "assert:" + x.AssertedType.String(), Args: []*Term{tb.Of(x.X, env)}, Val: v}
	case *ssa.MakeMap:
		return leaf("makemap:"+x.Type().String(), v)
	case *ssa.MakeSlice:
		return leaf("makeslice:"+x.Type().String(), v)
	case *ssa.MakeChan:
		return leaf("makechan", v)
	case *ssa.Range:
		return &Term{Op: "range", Args: []*Term{tb.Of(x.X, env)}, Val: v}
	case *ssa.Next:
		return &Term{Op: "next", Args: []*Term{tb.Of(x.Iter, env)}, Val: v}
	case *ssa.Builtin:
		return leaf("builtin:"+x.Name(), v)
	}
	return leaf(fmt.Sprintf("?%T", v), v)
}

// base returns the term of the object a field/index address is taken from:
// address-of wrappers of nested field chains are dropped (x.a.b reads as
// field:b(field:a(x)) whether a is embedded by value or reached by pointer).
func (tb *TB) base(v ssa.Value, env *Env) *Term {
	if al, ok := v.(*ssa.Alloc); ok && len(StoresTo(al)) > 0 {
		// a struct-typed local assigned as a whole: fields are those of the stored value
		return tb.allocValue(al, al, env)
	}
	t := tb.Of(v, env)
	if t.Op == "addr" && len(t.Args) == 1 {
		return t.Args[0]
	}
	return t
}

func (tb *TB) terms(vs []ssa.Value, env *Env) []*Term {
	out := make([]*Term, len(vs))
	for i, v := range vs {
		out[i] = tb.Of(v, env)
	}
	return out
}

func phiOf(v ssa.Value, ts []*Term) *Term {
	seen := map[string]*Term{}
	var keys []string
	for _, t := range ts {
		if t.Op == "loop" {
			continue
		}
		// flatten nested phi
		if t.Op == "phi" {
			for _, a := range t.Args {
				if _, ok := seen[a.String()]; !ok {
					seen[a.String()] = a
					keys = append(keys, a.String())
				}
			}
			continue
		}
		if _, ok := seen[t.String()]; !ok {
			seen[t.String()] = t
			keys = append(keys, t.String())
		}
	}
	sort.Strings(keys)
	if len(keys) == 1 {
		return seen[keys[0]]
	}
	out := &Term{Op: "phi", Val: v}
	for _, k := range keys {
		out.Args = append(out.Args, seen[k])
	}
	return out
}

func basicKind(t types.Type) string {
	b, ok := t.Underlying().(*types.Basic)
	if !ok {
		return ""
	}
	switch {
	case b.Info()&types.IsInteger != 0:
		return "int"
	case b.Info()&types.IsFloat != 0:
		if b.Kind() == types.Float32 {
			return "float32"
		}
		return "float"
	case b.Info()&types.IsString != 0:
		return "string"
	}
	return ""
}

func allocName(a *ssa.Alloc) string {
	if a.Comment != "" {
		return a.Comment
	}
	return a.Name()
}

func (tb *TB) load(u *ssa.UnOp, env *Env) *Term {
	switch a := u.X.(type) {
	case *ssa.FieldAddr:
		_, name, _ := FieldName(a)
		if al, ok := a.X.(*ssa.Alloc); ok && len(StoresTo(al)) > 0 {
			// a struct-typed local that was assigned as a whole: the field of the stored value
			return &Term{Op: "field:" + name, Args: []*Term{tb.allocValue(al, al, env)}, Val: u}
		}
		return &Term{Op: "field:" + name, Args: []*Term{tb.base(a.X, env)}, Val: u}
	case *ssa.IndexAddr:
		return &Term{Op: "index", Args: []*Term{tb.base(a.X, env), tb.Of(a.Index, env)}, Val: u}
	case *ssa.Global:
		return leaf("global:"+a.Pkg.Pkg.Path()+"."+a.Name(), u)
	case *ssa.Alloc:
		return tb.allocValue(a, u, env)
	case *ssa.FreeVar:
		if b := FreeVarBinding(a); b != nil {
			if al, ok := b.(*ssa.Alloc); ok {
				return tb.allocValue(al, u, nil)
			}
			return &Term{Op: "load", Args: []*Term{tb.Of(b, nil)}, Val: u}
		}
	}
	return &Term{Op: "load", Args: []*Term{tb.Of(u.X, env)}, Val: u}
}

// allocValue: flow-insensitive set of values stored into a local variable.
func (tb *TB) allocValue(a *ssa.Alloc, u ssa.Value, env *Env) *Term {
	if tb.visiting[a] {
		return leaf("loop", u)
	}
	tb.visiting[a] = true
	defer delete(tb.visiting, a)
	stores := StoresTo(a)
	if len(stores) == 0 {
		return leaf("zero:"+a.Type().(*types.Pointer).Elem().String(), u)
	}
	var ts []*Term
	for _, s := range stores {
		e := env
		if s.Parent() != a.Parent() {
			e = nil
		}
		ts = append(ts, tb.Of(s.Val, e))
	}
	return phiOf(u, ts)
}

func (tb *TB) extract(x *ssa.Extract, env *Env) *Term {
	switch tup := x.Tuple.(type) {
	case *ssa.Call:
		if t := tb.guardedComponent(x, tup, env); t != nil {
			return t
		}
		ct := tb.call(tup, env)
		if ct.Op == "tuple" && x.Index < len(ct.Args) {
			return ct.Args[x.Index]
		}
		return &Term{Op: fmt.Sprintf("res%d", x.Index), Args: []*Term{ct}, Val: x}
	case *ssa.Lookup:
		l := &Term{Op: "lookup", Args: []*Term{tb.Of(tup.X, env), tb.Of(tup.Index, env)}, Val: tup}
		if x.Index == 0 {
			return l
		}
		return &Term{Op: "ok", Args: []*Term{l}, Val: x}
	case *ssa.TypeAssert:
		a := &Term{Op: "assert:" + tup.AssertedType.String(), Args: []*Term{tb.Of(tup.X, env)}, Val: tup}
		if x.Index == 0 {
			return a
		}
		return &Term{Op: "ok", Args: []*Term{a}, Val: x}
	case *ssa.Next:
		n := &Term{Op: "next", Args: []*Term{tb.Of(tup.Iter, env)}, Val: tup}
		return &Term{Op: fmt.Sprintf("res%d", x.Index), Args: []*Term{n}, Val: x}
	case *ssa.UnOp: // <-ch, ok
		return &Term{Op: fmt.Sprintf("res%d", x.Index), Args: []*Term{tb.Of(tup, env)}, Val: x}
	}
	return &Term{Op: fmt.Sprintf("res%d", x.Index), Args: []*Term{leaf(fmt.Sprintf("?%T", x.Tuple), x.Tuple)}, Val: x}
}

// EnvOfCall binds the parameters of the static callee of call to the terms of the call's arguments.
func (tb *TB) EnvOfCall(call *ssa.Call, env *Env) *Env {
	fn := Callee(call).Static
	if fn == nil || call.Call.IsInvoke() {
		return nil
	}
	ne := &Env{params: map[*ssa.Parameter]*Term{}}
	args := tb.terms(call.Call.Args, env)
	for i, p := range fn.Params {
		if i < len(args) {
			ne.params[p] = args[i]
		}
	}
	return ne
}

// guardedComponent: `v, ok := helper()` (or `v, err := helper()`) where the helper is inlinable, returns a
// default on its not-ok paths, and every use of v sits under ok == true (err == nil): the term of v is
// the term of the helper's ok-returns only. Returns nil when the pattern does not apply.
func (tb *TB) guardedComponent(x *ssa.Extract, call *ssa.Call, env *Env) *Term {
	ci := Callee(call)
	fn := ci.Static
	if fn == nil || ci.Closure != nil || !tb.IsRepo(fn) || len(fn.Blocks) == 0 || len(fn.Blocks) > tb.InlineMaxBlocks || tb.stack[fn] ||
		(tb.NoInline != nil && tb.NoInline(fn)) {
		return nil
	}
	res := fn.Signature.Results()
	if res.Len() < 2 || x.Index >= res.Len() {
		return nil
	}
	// the guard component: a bool or error result other than x's
	gi := -1
	isErr := false
	for j := res.Len() - 1; j >= 0; j-- {
		if j == x.Index {
			continue
		}
		t := res.At(j).Type()
		if b, ok := t.Underlying().(*types.Basic); ok && b.Kind() == types.Bool {
			gi = j
			break
		}
		if types.Identical(t, types.Universe.Lookup("error").Type()) {
			gi, isErr = j, true
			break
		}
	}
	if gi < 0 {
		return nil
	}
	var guard ssa.Value
	if refs := call.Referrers(); refs != nil {
		for _, r := range *refs {
			if ex, ok := r.(*ssa.Extract); ok && ex.Index == gi {
				guard = ex
			}
		}
	}
	if guard == nil {
		return nil
	}
	var okRets []*ssa.Return
	other := 0
	for _, r := range Returns(fn) {
		g := Resolve(r.Results[gi])
		isOK := false
		if isErr {
			isOK = IsNilConst(g)
		} else if b, known := ConstBool(g); known {
			isOK = b
		} else {
			return nil // guard not decided per return
		}
		if isOK {
			okRets = append(okRets, r)
		} else {
			other++
		}
	}
	if len(okRets) == 0 || other == 0 {
		return nil
	}
	holds := func(facts []Fact) bool {
		for _, f := range facts {
			if !isErr && f.Bool != nil && Resolve(f.Bool) == guard && f.Truth {
				return true
			}
			if isErr && f.Op == token.EQL && ((Resolve(f.X) == guard && IsNilConst(f.Y)) || (Resolve(f.Y) == guard && IsNilConst(f.X))) {
				return true
			}
		}
		return false
	}
	refs := x.Referrers()
	if refs == nil || len(*refs) == 0 {
		return nil
	}
	for _, r := range *refs {
		switch u := r.(type) {
		case *ssa.DebugRef:
			continue
		case *ssa.Phi:
			for k, e := range u.Edges {
				if e != ssa.Value(x) {
					continue
				}
				pred := u.Block().Preds[k]
				fs := append([]Fact{}, BlockFacts(pred)...)
				fs = append(fs, EdgeFacts(pred, succIndex(pred, u.Block()))...)
				if !holds(fs) {
					return nil
				}
			}
		default:
			if r.Block() == nil || !holds(BlockFacts(r.Block())) {
				return nil
			}
		}
	}
	// build the term of the ok-returns with the helper's parameters bound
	cc := call.Common()
	var args []*Term
	if cc.IsInvoke() {
		return nil
	}
	args = tb.terms(cc.Args, env)
	tb.stack[fn] = true
	defer delete(tb.stack, fn)
	ne := &Env{params: map[*ssa.Parameter]*Term{}}
	for i, p := range fn.Params {
		if i < len(args) {
			ne.params[p] = args[i]
		}
	}
	var ts []*Term
	for _, r := range okRets {
		ts = append(ts, tb.Of(r.Results[x.Index], ne))
	}
	return phiOf(x, ts)
}

// CallName returns a stable name for the callee of a call: "pkg.F", "(pkg.T).M",
// "invoke:pkg.Iface.M" or "builtin:name".
func CallName(c ssa.CallInstruction) string {
	ci := Callee(c)
	switch {
	case ci.Method != nil:
		recv := ci.Method.Type().(*types.Signature).Recv()
		n := ""
		if recv != nil {
			if nt := NamedOf(recv.Type()); nt != nil && nt.Obj().Pkg() != nil {
				n = nt.Obj().Pkg().Path() + "." + nt.Obj().Name() + "."
			} else if nt != nil {
				n = nt.Obj().Name() + "."
			} else if ci.Method.Pkg() != nil {
				n = ci.Method.Pkg().Path() + "."
			}
		}
		return "invoke:" + n + ci.Method.Name()
	case ci.Builtin != "":
		return "builtin:" + ci.Builtin
	case ci.Static != nil:
		f := ci.Static
		if f.Origin() != nil {
			f = f.Origin()
		}
		if obj, ok := f.Object().(*types.Func); ok && obj != nil {
			return obj.FullName()
		}
		return f.String()
	}
	return "dynamic"
}

func (tb *TB) call(x *ssa.Call, env *Env) *Term {
	ci := Callee(x)
	cc := x.Common()
	var args []*Term
	if cc.IsInvoke() {
		args = append(args, tb.Of(cc.Value, env))
	}
	args = append(args, tb.terms(cc.Args, env)...)
	if ci.Static != nil && tb.IsRepo(ci.Static) && len(ci.Static.Blocks) > 0 &&
		len(ci.Static.Blocks) <= tb.InlineMaxBlocks && !tb.stack[ci.Static] &&
		(tb.NoInline == nil || !tb.NoInline(ci.Static)) && ci.Closure == nil {
		fn := ci.Static
		tb.stack[fn] = true
		defer delete(tb.stack, fn)
		ne := &Env{params: map[*ssa.Parameter]*Term{}}
		for i, p := range fn.Params {
			if i < len(cc.Args) {
				ne.params[p] = args[i]
			}
		}
		rets := Returns(fn)
		nres := fn.Signature.Results().Len()
		if len(rets) > 0 && nres > 0 {
			res := make([]*Term, nres)
			for i := 0; i < nres; i++ {
				var ts []*Term
				for _, r := range rets {
					ts = append(ts, tb.Of(r.Results[i], ne))
				}
				res[i] = phiOf(x, ts)
			}
			if nres == 1 {
				return res[0]
			}
			return &Term{Op: "tuple", Args: res, Val: x}
		}
	}
	name := CallName(x)
	if !strings.HasPrefix(name, "invoke:") && !strings.HasPrefix(name, "builtin:") {
		name = "call:" + name
	}
	return &Term{Op: name, Args: args, Val: x}
}

// FreeVarBinding returns the value bound to a free variable at the (unique)
// MakeClosure site of its function, or nil.
func FreeVarBinding(fv *ssa.FreeVar) ssa.Value {
	fn := fv.Parent()
	par := fn.Parent()
	if par == nil {
		return nil
	}
	idx := -1
	for i, f := range fn.FreeVars {
		if f == fv {
			idx = i
		}
	}
	if idx < 0 {
		return nil
	}
	var found ssa.Value
	n := 0
	for _, b := range par.Blocks {
		for _, ins := range b.Instrs {
			if mc, ok := ins.(*ssa.MakeClosure); ok && mc.Fn == fn {
				found = mc.Bindings[idx]
				n++
			}
		}
	}
	if n == 1 {
		return found
	}
	return nil
}

// MakeClosureOf returns the unique MakeClosure instruction creating fn.
func MakeClosureOf(fn *ssa.Function) *ssa.MakeClosure {
	par := fn.Parent()
	if par == nil {
		return nil
	}
	var found *ssa.MakeClosure
	for _, b := range par.Blocks {
		for _, ins := range b.Instrs {
			if mc, ok := ins.(*ssa.MakeClosure); ok && mc.Fn == fn {
				if found != nil {
					return nil
				}
				found = mc
			}
		}
	}
	return found
}

// VarArgs returns the elements of a variadic argument slice built by the
// compiler (`new [n]T (varargs)` + stores + slice), or nil.
func VarArgs(v ssa.Value) []ssa.Value {
	sl, ok := v.(*ssa.Slice)
	if !ok {
		return nil
	}
	al, ok := sl.X.(*ssa.Alloc)
	if !ok {
		return nil
	}
	arr, ok := al.Type().(*types.Pointer).Elem().Underlying().(*types.Array)
	if !ok {
		return nil
	}
	out := make([]ssa.Value, arr.Len())
	refs := al.Referrers()
	if refs == nil {
		return nil
	}
	for _, r := range *refs {
		ia, ok := r.(*ssa.IndexAddr)
		if !ok {
			continue
		}
		idx, ok := ConstInt(ia.Index)
		if !ok || idx < 0 || idx >= arr.Len() {
			continue
		}
		if irefs := ia.Referrers(); irefs != nil {
			for _, s := range *irefs {
				if st, ok := s.(*ssa.Store); ok && st.Addr == ia {
					out[idx] = st.Val
				}
			}
		}
	}
	for _, e := range out {
		if e == nil {
			return nil
		}
	}
	return out
}

// ParamArg returns the argument bound to parameter p at its unique candidate call site, or nil.
func ParamArg(p *ssa.Parameter, callers func(*ssa.Function) []ssa.CallInstruction) ssa.Value {
	fn := p.Parent()
	if fn == nil || callers == nil {
		return nil
	}
	idx := -1
	for i, q := range fn.Params {
		if q == p {
			idx = i
		}
	}
	sites := callers(fn)
	if idx < 0 || len(sites) != 1 {
		return nil
	}
	cc := sites[0].Common()
	ai := idx
	if cc.IsInvoke() {
		if idx == 0 {
			return cc.Value
		}
		ai = idx - 1
	}
	// closures called with bindings: parameters follow the free variables, Args holds only parameters
	if ai < 0 || ai >= len(cc.Args) {
		return nil
	}
	return cc.Args[ai]
}

// ParamArgs returns the argument bound to p at every candidate call site (nil when a site cannot be mapped).
func ParamArgs(p *ssa.Parameter, callers func(*ssa.Function) []ssa.CallInstruction) []ssa.Value {
	fn := p.Parent()
	if fn == nil || callers == nil {
		return nil
	}
	idx := -1
	for i, q := range fn.Params {
		if q == p {
			idx = i
		}
	}
	if idx < 0 {
		return nil
	}
	var out []ssa.Value
	for _, s := range callers(fn) {
		cc := s.Common()
		ai := idx
		if cc.IsInvoke() {
			if idx == 0 {
				out = append(out, cc.Value)
				continue
			}
			ai = idx - 1
		}
		if ai < 0 || ai >= len(cc.Args) {
			return nil
		}
		out = append(out, cc.Args[ai])
	}
	return out
}

// RootP is Root that additionally resolves parameters through unique call sites.
func RootP(v ssa.Value, callers func(*ssa.Function) []ssa.CallInstruction) ssa.Value {
	for i := 0; i < 8; i++ {
		v = Root(v)
		p, ok := v.(*ssa.Parameter)
		if !ok {
			return v
		}
		arg := ParamArg(p, callers)
		if arg == nil {
			return v
		}
		v = arg
	}
	return v
}
