package rules

import (
	"go/token"
	"go/types"
	"sort"
	"strings"

	"f2gcheck/internal/ir"

	"golang.org/x/tools/go/ssa"
)

func init() { Registry["C09"] = c09 }

// crashSite describes an instruction that terminates the process abruptly.
func (c *Ctx) crashSite(ins ssa.Instruction) string {
	if ins.Parent() != nil && ins.Parent().Synthetic != "" {
		return ""
	}
	switch x := ins.(type) {
	case *ssa.Panic:
		if !x.Pos().IsValid() {
			return "" // compiler-generated (e.g. the unreachable tail of a lowered select)
		}
		return "panic"
	case *ssa.TypeAssert:
		if !x.CommaOk && isErrorType(x.X.Type()) {
			return "unchecked type assertion on an error (" + x.AssertedType.String() + ")"
		}

	case *ssa.Call:
		if c.isPtermFatalCall(x) {
			return "pterm.Fatal (panics)"
		}
		if c.noReturnCall(x) {
			return "does-not-return call " + ir.CallName(x)
		}
	}
	return ""
}

// errBlocks returns the blocks of fn reachable from an edge establishing `e != nil` for an error-typed e.
// The error context ends at loop back edges (the next iteration starts afresh).
// skipParam: error parameters whose non-nil-ness is not an I/O fault (interrupt
// functions of a run.Group whose actors provably return nil).
func errBlocks(fn *ssa.Function, skipParam bool) map[*ssa.BasicBlock]bool {
	out := map[*ssa.BasicBlock]bool{}
	var starts []ir.Point
	for _, b := range fn.Blocks {
		for si := range b.Succs {
			fs := ir.EdgeFacts(b, si)
			if ir.HasFact(fs, token.NEQ, func(x, y ssa.Value) bool {
				if _, isParam := x.(*ssa.Parameter); isParam && skipParam {
					return false
				}
				return ir.IsNilConst(y) && isErrorType(x.Type())
			}) {
				starts = append(starts, ir.EdgeStart(b, si))
			}
		}
	}
	ir.Search{StopEdge: func(b *ssa.BasicBlock, si int) bool { return b.Succs[si].Dominates(b) }}.Reach(starts, func(ins ssa.Instruction, _ *ssa.BasicBlock) { out[ins.Block()] = true })
	return out
}

// cycleEntries returns the per-cycle entry points with a label.
func (c *Ctx) cycleEntries() map[*ssa.Function]string {
	out := map[*ssa.Function]string{}
	for _, f := range c.ImplMethods(PkgCtrl, "FanController", "UpdateFanSpeed") {
		out[f] = "FanController.UpdateFanSpeed"
	}
	for _, run := range c.ImplMethods(PkgCtrl, "FanController", "Run") {
		for _, a := range groupActors(run) {
			if a.execute != nil {
				out[a.execute] = "per-fan actor of " + c.FK(run)
			}
			if a.intr != nil {
				out[a.intr] = "per-fan interrupt of " + c.FK(run)
			}
		}
	}
	for _, f := range c.ConvertedImplMethods(PkgInternal, "SensorMonitor", "Run") {
		out[f] = "sensor monitor"
	}
	// prometheus collectors registered by the repository
	for _, pk := range c.P.Pkgs {
		sc := pk.Types.Scope()
		for _, n := range sc.Names() {
			tn, ok := sc.Lookup(n).(*types.TypeName)
			if !ok {
				continue
			}
			nt, ok := tn.Type().(*types.Named)
			if !ok || types.IsInterface(nt) {
				continue
			}
			col := c.Method(nt, "Collect")
			desc := c.Method(nt, "Describe")
			if col != nil && desc != nil && len(col.Blocks) > 0 && c.P.IsRepoFunc(col) {
				out[col] = "prometheus Collect"
			}
		}
	}
	// echo handlers: function values passed to (*echo.Echo/Group).GET/POST/DELETE/PUT
	for _, fn := range c.P.Funcs {
		Calls(fn, func(cc ssa.CallInstruction) {
			n := ir.CallName(cc)
			if !strings.HasPrefix(n, "(*github.com/labstack/echo/v4.Echo).") && !strings.HasPrefix(n, "(*github.com/labstack/echo/v4.Group).") {
				return
			}
			for _, a := range cc.Common().Args {
				if h := fnOfValue(a); h != nil && c.P.IsRepoFunc(h) {
					out[h] = "REST handler"
				}
			}
		})
	}
	return out
}

func c09(c *Ctx) {
	c.R.Explanation = "C09: decided over the VTA call graph of /repo. Entries = every FanController.UpdateFanSpeed implementation, the actors and interrupt functions of the per-fan run.Group, the sensor-monitor Run, prometheus Collect methods and REST handlers. R-nocrash = no crash site (builtin panic, pterm.Fatal/ui.Fatal, os.Exit/log.Fatal and repository wrappers that never return, comma-less type assertion on an error) lies in an *error context* reachable from those entries; error context = a block reachable from an edge establishing err != nil for an error-typed value, or any function called (transitively) from such a block. Crash sites outside error contexts are listed as not-on-an-I/O-error-path (configuration-dependent ones belong to C11). R-errpair = in the functions reachable from those entries, the value result of a fallible library call (T, error) with T a pointer or interface is dereferenced / has a method invoked only where the error of that same call is established nil; the one partial test of the code base, !os.IsNotExist(err) after os.Stat, is accepted only when the path handed to Stat is the result of a successful filepath.EvalSymlinks (which already failed for every path Stat would fail on; the race between the two calls is assumed away). R-propagate = every SpeedCurve.Evaluate implementation returns a non-nil error on every path from the error edge of a fallible call. R-contain = from the error edge of UpdateFanSpeed in the control goroutine every return is the nil constant and no crash site is reachable. R-actor-nil = every return of every actor of the per-fan run.Group and of the sensor monitor is the nil constant (a non-nil actor error reaches ui.Fatal in the interrupt function and panic(err) in the daemon's actor wrapper). R-restore = when the control goroutine gives up on a fan (cycle error, cancellation, failed initialisation) every return is in state restored of the C03 typestate (original mode confirmed or SetPwm(255)); shared with C03 R-exit/R-init. R-iodata = in the functions reachable from those entries every index, slice expression and integer division whose operand derives from the result of a standard-library call (text read from a device file, the output of a command, the fields of a split line: data the environment controls, not the validated configuration, which is C11's) is proved in bounds by a dominating length guard, a range loop or the range analysis. R-lastgood = C08's R-skip: in the sensor monitor no path from the error edge of Sensor.GetValue reaches the moving-average update (regulation continues on the last good data). R-errnil = a method is invoked on an error value only where it is established non-nil (dominating err != nil, or non-nil by construction: errors.New, fmt.Errorf, boxed value, sentinel; for a helper's error parameter every call site must pass such a value). R-registered = (shared with C11) every iteration of a registering loop of the instantiation code registers its object or leaves the function: a sensor skipped because its first read failed is dereferenced (unchecked registry lookup) in the first control cycle. R-kept = (shared with C08, over the sensors and fans packages) the value of a fallible read is kept in a field only where its error is nil. Not decided: usefulness of continued regulation; library internals (echo, prometheus) are summarised as non-crashing."
	c.R.Assumptions = append(c.R.Assumptions,
		"pterm.Fatal printers panic (Fatal flag true) unless derived with WithFatal(false); os.Exit/log.Fatal never return",
		"library code (echo, prometheus, bbolt, os/exec) does not panic on the inputs it is given")

	entries := c.cycleEntries()
	var roots []*ssa.Function
	for f := range entries {
		roots = append(roots, f)
	}
	sort.Slice(roots, func(i, j int) bool { return c.FK(roots[i]) < c.FK(roots[j]) })
	for _, f := range roots {
		c.R.Note("entries", c.FK(f)+" ("+entries[f]+")")
	}
	if len(roots) < 5 {
		c.R.Undecided("R-nocrash", "entries", "(whole program)", "-", sprintf("only %d per-cycle entry points resolved (anchor unresolved)", len(roots)))
	}
	reach := c.Closure(roots, false, nil)
	c.R.Stats["functions_reachable_from_cycle_entries"] = len(reach)

	// error contexts
	errCtx := map[*ssa.Function]string{} // function -> why
	blocks := map[*ssa.Function]map[*ssa.BasicBlock]bool{}
	for f := range reach {
		blocks[f] = errBlocks(f, strings.Contains(entries[f], "interrupt"))
	}
	for changed := true; changed; {
		changed = false
		for _, f := range c.SortedFuncs(reach) {
			_, whole := errCtx[f]
			Calls(f, func(cc ssa.CallInstruction) {
				if _, isGo := cc.(*ssa.Go); isGo {
					return
				}
				if !whole && !blocks[f][cc.Block()] {
					return
				}
				for _, cal := range c.Callees(cc) {
					if !reach[cal] {
						continue
					}
					if _, done := errCtx[cal]; !done {
						errCtx[cal] = "called from an error path in " + c.FK(f) + " at " + c.P.Pos(cc.Pos())
						changed = true
					}
				}
			})
		}
	}
	nsites, nbad := 0, 0
	for _, f := range c.SortedFuncs(reach) {
		why, whole := errCtx[f]
		Instrs(f, func(ins ssa.Instruction) {
			what := c.crashSite(ins)
			if what == "" {
				return
			}
			nsites++
			key := c.FK(f) + "|" + what
			if whole {
				nbad++
				c.R.Bad("R-nocrash", key, c.FK(f), c.P.Pos(ins.Pos()), what+" is reachable from a per-cycle entry in an error context: "+why)
			} else if blocks[f][ins.Block()] {
				nbad++
				c.R.Bad("R-nocrash", key, c.FK(f), c.P.Pos(ins.Pos()), what+" is reachable from a per-cycle entry on a path that crossed an err != nil edge in "+c.FK(f))
			} else {
				c.R.Ok("R-nocrash", key, c.FK(f), c.P.Pos(ins.Pos()), what+": reachable from a per-cycle entry but not in an I/O error context (configuration-dependent sites are C11's)")
			}
		})
	}
	c.R.Ok("R-nocrash", "summary", "(call graph)", "-", sprintf("%d functions reachable from %d entries; %d crash sites inspected, %d in error context", len(reach), len(roots), nsites, nbad))
	c.R.Stats["crash_sites_reachable"] = nsites
	c.ruleErrPair(reach)
	c.ruleIOBounds("R-iodata", reach, 1)
	// a failed sensor read leaves the last good average in place (shared with C08 R-skip)
	c.ruleAvgSkip("R-lastgood")
	c.ruleErrNil("R-errnil", reach)
	// a sensor whose first read fails at start-up must still be registered: the curves dereference the registry
	// lookup without an existence test in the first control cycle (shared with C11 R-registry|every-entry)
	c.ruleEveryEntryRegistered("R-registered")
	// a value kept from a failed sensor read is regulated on as if it had been read (shared with C08 R-kept)
	c.ruleFailedReadNotKept("R-kept", PkgSensors, PkgFans)

	// ---- R-propagate ------------------------------------------------------------
	for _, fn := range c.ImplMethods(PkgCurves, "SpeedCurve", "Evaluate") {
		n := c.checkErrorPropagation("R-propagate", fn, func(call *ssa.Call) bool { return true })
		if n == 0 {
			c.R.Ok("R-propagate", c.FK(fn)+"|no-fallible-call", c.FK(fn), c.P.Pos(fn.Pos()), "implementation makes no error-returning call")
		}
	}
	c.R.Require("R-propagate", 3)
	// UpdateFanSpeed returns the error of the target computation
	for _, fn := range c.ImplMethods(PkgCtrl, "FanController", "UpdateFanSpeed") {
		c.checkErrorPropagation("R-propagate", fn, func(call *ssa.Call) bool {
			cal := ir.Callee(call).Static
			return cal != nil && c.P.IsRepoFunc(cal) && cal.Signature.Results().Len() == 2 // (int, error) target computation
		})
	}

	// ---- R-contain / R-actor-nil --------------------------------------------------
	for _, run := range c.ImplMethods(PkgCtrl, "FanController", "Run") {
		for _, a := range groupActors(run) {
			if a.execute == nil {
				c.R.Undecided("R-actor-nil", c.FK(run), c.FK(run), c.P.Pos(a.add.Pos()), "actor not resolvable")
				continue
			}
			c.actorNil(a.execute, "per-fan actor")
			// the cycle call may sit in a helper of the actor (one step of the loop extracted into a method)
			holders := []*ssa.Function{a.execute}
			seenH := map[*ssa.Function]bool{a.execute: true}
			for i := 0; i < len(holders) && i < 8; i++ {
				Calls(holders[i], func(cc ssa.CallInstruction) {
					st := ir.Callee(cc).Static
					if st != nil && !seenH[st] && len(st.Blocks) > 0 && load_FuncPkgPath(st) == PkgCtrl && !isControllerCall(cc, "UpdateFanSpeed") && st.Name() != "restorePwmEnabled" {
						seenH[st] = true
						holders = append(holders, st)
					}
				})
			}
			for _, holder := range holders {
				holder := holder
				Calls(holder, func(cc ssa.CallInstruction) {
					call, ok := cc.(*ssa.Call)
					if !ok || !isControllerCall(cc, "UpdateFanSpeed") {
						return
					}
					key := c.FK(a.execute)
					ev := errValueOfCall(call)
					es := nilEdges(holder, ev, true)
					if len(es) == 0 {
						c.R.Bad("R-contain", key, key, c.P.Pos(call.Pos()), "the error of UpdateFanSpeed is not handled in the control goroutine")
						return
					}
					bad := ""
					ir.Search{}.Reach(edgeStarts(es), func(ins ssa.Instruction, via *ssa.BasicBlock) {
						if what := c.crashSite(ins); what != "" {
							bad = what + " at " + c.P.Pos(ins.Pos())
						}
						if r, ok := ins.(*ssa.Return); ok && len(r.Results) == 1 && isErrorType(r.Results[0].Type()) && !ir.IsNilConst(ir.ResultVia(r, 0, via)) {
							bad = "the actor returns a possibly non-nil error at " + c.P.Pos(r.Pos())
						}
					})
					if bad != "" {
						c.R.Bad("R-contain", key, key, c.P.Pos(call.Pos()), "a control-cycle error escapes: "+bad)
					} else {
						c.R.Ok("R-contain", key, key, c.P.Pos(call.Pos()), "from the error edge of UpdateFanSpeed no crash site is reachable and the actor returns the nil constant (restore: see C03 R-exit)")
					}
				})
			}
		}
	}
	for _, f := range c.ConvertedImplMethods(PkgInternal, "SensorMonitor", "Run") {
		c.actorNil(f, "sensor monitor")
	}
	c.R.Require("R-contain", 1)
	c.R.Require("R-actor-nil", 3)

	// ---- R-restore: "... or it stops regulating the affected fan after restoring it" ------------------
	// the same typestate rules as C03 R-exit / R-init, under C09's names: every return of the control
	// goroutine (cycle error included) and the failed-initialisation return pass through a restore.
	tbr := ir.NewTB(c.P.IsRepoFunc, c.P.FuncKey)
	tbr.InlineMaxBlocks = 0
	c.ruleRestore(tbr, func(r string) string {
		return map[string]string{"R-exit": "R-restore", "R-init": "R-restore-init", "R-record": "R-restore-record"}[r]
	})
	c.R.Require("R-restore", 1)
}

// actorNil: every return of the actor is the nil constant.
func (c *Ctx) actorNil(fn *ssa.Function, what string) {
	key := c.FK(fn)
	bad := ""
	for _, r := range ir.Returns(fn) {
		if len(r.Results) != 1 {
			continue
		}
		vias := []*ssa.BasicBlock{nil}
		if phi, ok := ir.Resolve(r.Results[0]).(*ssa.Phi); ok && phi.Block() == r.Block() {
			vias = r.Block().Preds
		}
		for _, via := range vias {
			if !c.definitelyNilError(ir.ResultVia(r, 0, via), 0) {
				bad = c.P.Pos(r.Pos())
			}
		}
	}
	if bad != "" {
		c.R.Bad("R-actor-nil", key, key, bad, what+" can return a non-nil error: it would reach ui.Fatal in the group's interrupt function / panic(err) in the daemon's actor wrapper and kill the process without restoring the fans")
	} else {
		c.R.Ok("R-actor-nil", key, key, c.P.Pos(fn.Pos()), what+": every return is the nil constant")
	}
}

// definitelyNilError: the value is the nil constant, or the result of a repository function all of
// whose returns are (recursively) definitely nil (an actor body moved into a method).
func (c *Ctx) definitelyNilError(v ssa.Value, depth int) bool {
	v = ir.Resolve(v)
	if ir.IsNilConst(v) {
		return true
	}
	if depth > 4 {
		return false
	}
	switch x := v.(type) {
	case *ssa.Phi:
		for _, e := range x.Edges {
			if !c.definitelyNilError(e, depth+1) {
				return false
			}
		}
		return true
	case *ssa.Call:
		cal := ir.Callee(x).Static
		if cal == nil || !c.P.IsRepoFunc(cal) || len(cal.Blocks) == 0 || x.Common().Signature().Results().Len() != 1 {
			return false
		}
		rets := ir.Returns(cal)
		if len(rets) == 0 {
			return false
		}
		for _, r := range rets {
			if !c.definitelyNilError(r.Results[0], depth+1) {
				return false
			}
		}
		return true
	}
	return false
}

// ruleErrPair: value results of fallible library calls are used only under err == nil.
func (c *Ctx) ruleErrPair(reach map[*ssa.Function]bool) {
	n := 0
	for _, f := range c.SortedFuncs(reach) {
		if !c.P.IsRepoFunc(f) {
			continue
		}
		Calls(f, func(cc ssa.CallInstruction) {
			call, ok := cc.(*ssa.Call)
			if !ok {
				return
			}
			st := ir.Callee(call).Static
			if st == nil || c.P.IsRepoFunc(st) {
				return // repository functions are covered by their own returns; interface invokes have no summary
			}
			tup, ok := call.Type().(*types.Tuple)
			if !ok || tup.Len() != 2 || !isErrorType(tup.At(1).Type()) {
				return
			}
			switch tup.At(0).Type().Underlying().(type) {
			case *types.Pointer, *types.Interface:
			default:
				return
			}
			var val, errv ssa.Value
			if refs := call.Referrers(); refs != nil {
				for _, r := range *refs {
					if ex, ok := r.(*ssa.Extract); ok {
						if ex.Index == 0 {
							val = ex
						} else {
							errv = ex
						}
					}
				}
			}
			if val == nil {
				return
			}
			name := ir.CallName(call)
			// uses that crash on a nil value: method invoke on the interface, field/deref through the pointer
			refs := val.Referrers()
			if refs == nil {
				return
			}
			for _, r := range *refs {
				crash := false
				switch u := r.(type) {
				case ssa.CallInstruction:
					com := u.Common()
					if com.IsInvoke() && com.Value == val {
						crash = true
					}
					if !com.IsInvoke() && len(com.Args) > 0 && com.Args[0] == val && com.Signature().Recv() != nil {
						if _, isPtr := val.Type().Underlying().(*types.Pointer); isPtr && ir.Callee(u).Static != nil && c.P.IsRepoFunc(ir.Callee(u).Static) {
							crash = true
						}
					}
				case *ssa.FieldAddr:
					crash = u.X == val
				case *ssa.UnOp:
					crash = u.Op == token.MUL && u.X == val
				case *ssa.TypeAssert:
					crash = u.X == val && !u.CommaOk
				}
				if !crash {
					continue
				}
				n++
				key := c.FK(f) + "|" + name
				facts := ir.BlockFacts(r.Block())
				nilErr := errv != nil && ir.HasFact(facts, token.EQL, func(x, y ssa.Value) bool { return x == errv && ir.IsNilConst(y) })
				if errv == nil {
					c.R.Bad("R-errpair", key, c.FK(f), c.P.Pos(r.Pos()), "the error of "+name+" is discarded but its value result is used in a way that crashes when it is nil")
					continue
				}
				if nilErr {
					c.R.Ok("R-errpair", key, c.FK(f), c.P.Pos(r.Pos()), "the value of "+name+" is used only where its error is nil")
					continue
				}
				// the documented partial test: !os.IsNotExist(err) after os.Stat(p), p = successful EvalSymlinks
				if name == "os.Stat" || name == "os.Lstat" {
					notNotExist := ir.HasBool(facts, false, func(v ssa.Value) bool {
						bc, ok := v.(*ssa.Call)
						return ok && (ir.CallName(bc) == "os.IsNotExist" || ir.CallName(bc) == "errors.Is") && len(bc.Call.Args) > 0 && ir.Resolve(bc.Call.Args[0]) == errv
					})
					resolved := false
					if ex, ok := ir.Resolve(call.Call.Args[0]).(*ssa.Extract); ok && ex.Index == 0 {
						if ec, ok := ex.Tuple.(*ssa.Call); ok && ir.CallName(ec) == "path/filepath.EvalSymlinks" {
							ee := errValueOfCall(ec)
							resolved = ee != nil && ir.HasFact(facts, token.EQL, func(x, y ssa.Value) bool { return x == ir.Resolve(ee) && ir.IsNilConst(y) })
						}
					}
					if notNotExist && resolved {
						c.R.Add(obOK("R-errpair", key, c.FK(f), c.P.Pos(r.Pos()), "os.Stat on the result of a successful filepath.EvalSymlinks, 'not found' handled: no other failure is left", []string{"no concurrent removal / permission change between EvalSymlinks and Stat"}))
						continue
					}
				}
				c.R.Bad("R-errpair", key, c.FK(f), c.P.Pos(r.Pos()), "the value result of "+name+" is used (nil dereference / method call on a nil interface) on a path where its error is not established nil: a failing call crashes the cycle instead of returning an error")
			}
		})
	}
	c.R.Stats["error_paired_uses"] = n
	c.R.Ok("R-errpair", "summary", "(call tree)", "-", sprintf("%d use(s) of value results of fallible library calls inspected", n))
}

// ruleIOBounds: in scope, every index / slice / integer-division whose operand derives from the result of a
// standard-library call (text read from a device file, the output of a command, the fields of a split line:
// data the environment controls, not the validated configuration) is proved in bounds by a dominating
// length guard, a range loop or the range analysis. Configuration-derived sites are C11's (validator table).
func (c *Ctx) ruleIOBounds(rule string, scope map[*ssa.Function]bool, minSites int) {
	tb := ir.NewTB(c.P.IsRepoFunc, c.P.FuncKey)
	sites, discharged := c.partialSites(scope, tb)
	stdlibSource := func(v ssa.Value) string {
		name := ""
		tb.Of(v, nil).Find(func(x *ir.Term) bool {
			if !strings.HasPrefix(x.Op, "call:") {
				return false
			}
			call, ok := x.Val.(*ssa.Call)
			if !ok {
				return false
			}
			cal := ir.Callee(call).Static
			if cal == nil || c.P.IsRepoFunc(cal) {
				return false
			}
			pk := load_FuncPkgPath(cal)
			first := pk
			if k := strings.Index(pk, "/"); k >= 0 {
				first = pk[:k]
			}
			if strings.Contains(first, ".") {
				return false // third-party module (registries such as concurrent-map): configuration objects
			}
			name = ir.CallName(call)
			return true
		})
		return name
	}
	n := 0
	seen := map[string]bool{}
	for _, s := range sites {
		var operand ssa.Value
		switch x := s.ins.(type) {
		case *ssa.IndexAddr:
			operand = x.X
		case *ssa.Index:
			operand = x.X
		case *ssa.Lookup:
			operand = x.X
		case *ssa.Slice:
			operand = x.X
		case *ssa.BinOp:
			operand = x.Y
		default:
			continue
		}
		src := stdlibSource(operand)
		if src == "" {
			continue
		}
		n++
		key := c.FK(s.fn) + "|" + s.kind + "|" + src
		if seen[key] {
			continue
		}
		seen[key] = true
		c.R.Bad(rule, key, c.FK(s.fn), c.P.Pos(s.ins.Pos()), s.kind+" on data that comes from "+src+" ("+s.detail+"): input the environment controls (file contents, command output) can make this panic on a path reachable from the per-cycle entries")
	}
	c.R.Ok(rule, "summary", "(call graph)", "-", sprintf("%d functions: %d index/slice/division/deref sites discharged locally, %d undischarged sites on standard-library (environment) data", len(scope), discharged, n))
	if discharged < minSites {
		c.R.Undecided(rule, "discharged", "(call graph)", "-", sprintf("only %d partial operations seen in scope (expected at least %d): scope unresolved", discharged, minSites))
	}
}

// ruleErrNil: a method is invoked on an error value (err.Error(), err.Unwrap(), ...) only where that value is
// established non-nil: the error result of a call is nil on its success path, and a method call on a nil
// interface panics. Accepted: values that are non-nil by construction (errors.New, fmt.Errorf, a boxed concrete
// value, a package-level sentinel), and receivers under a dominating `err != nil` fact.
func (c *Ctx) ruleErrNil(rule string, scope map[*ssa.Function]bool) {
	n, nbad := 0, 0
	for _, fn := range c.SortedFuncs(scope) {
		Calls(fn, func(cc ssa.CallInstruction) {
			com := cc.Common()
			if !com.IsInvoke() || !isErrorType(com.Value.Type()) {
				return
			}
			n++
			recv := ir.Resolve(com.Value)
			if c.surelyNonNil(recv, 0) {
				return
			}
			facts := ir.BlockFacts(cc.Block())
			if ir.HasFact(facts, token.NEQ, func(x, y ssa.Value) bool { return ir.Resolve(x) == recv && ir.IsNilConst(y) }) {
				return
			}
			nbad++
			key := c.FK(fn) + "|" + com.Method.Name()
			c.R.Bad(rule, key, c.FK(fn), c.P.Pos(cc.Pos()), "method "+com.Method.Name()+" is invoked on an error value that is not established non-nil here: on the path where the call that produced it succeeded the value is nil and the invoke panics")
		})
	}
	c.R.Ok(rule, "summary", "(call graph)", "-", sprintf("%d method invokes on error values inspected in %d functions, %d without an established non-nil receiver", n, len(scope), nbad))
}

func (c *Ctx) surelyNonNil(v ssa.Value, depth int) bool {
	if depth > 3 {
		return false
	}
	switch x := v.(type) {
	case *ssa.MakeInterface:
		return true
	case *ssa.Call:
		nm := ir.CallName(x)
		return nm == "errors.New" || nm == "fmt.Errorf"
	case *ssa.UnOp:
		_, isGlobal := x.X.(*ssa.Global)
		return isGlobal && x.Op == token.MUL
	case *ssa.Phi:
		for _, e := range x.Edges {
			if !c.surelyNonNil(ir.Resolve(e), depth+1) {
				return false
			}
		}
		return len(x.Edges) > 0
	case *ssa.Parameter:
		// a helper that formats an error it is given: every static call site passes a non-nil value
		fn := x.Parent()
		idx := -1
		for i, p := range fn.Params {
			if p == x {
				idx = i
			}
		}
		sites := c.StaticCallers(fn)
		if idx < 0 || len(sites) == 0 {
			return false
		}
		for _, site := range sites {
			args := site.Common().Args
			if idx >= len(args) {
				return false
			}
			a := ir.Resolve(args[idx])
			if c.surelyNonNil(a, depth+1) {
				continue
			}
			if !ir.HasFact(ir.BlockFacts(site.Block()), token.NEQ, func(p, q ssa.Value) bool { return ir.Resolve(p) == a && ir.IsNilConst(q) }) {
				return false
			}
		}
		return true
	}
	return false
}
