// Package rules holds the per-property rule sets.
package rules

import (
	"fmt"
	"go/token"
	"go/types"
	"os"
	"sort"
	"strings"

	"f2gcheck/internal/ir"
	"f2gcheck/internal/load"
	"f2gcheck/internal/report"

	"golang.org/x/tools/go/callgraph"
	"golang.org/x/tools/go/callgraph/cha"
	"golang.org/x/tools/go/callgraph/vta"
	"golang.org/x/tools/go/ssa"
)

const (
	M           = load.ModulePath
	PkgFans     = M + "/internal/fans"
	PkgSensors  = M + "/internal/sensors"
	PkgCurves   = M + "/internal/curves"
	PkgCtrl     = M + "/internal/controller"
	PkgLoop     = M + "/internal/control_loop"
	PkgPersist  = M + "/internal/persistence"
	PkgUtil     = M + "/internal/util"
	PkgUI       = M + "/internal/ui"
	PkgConf     = M + "/internal/configuration"
	PkgInternal = M + "/internal"
	PkgHwmon    = M + "/internal/hwmon"
	PkgAPI      = M + "/internal/api"
	PkgStats    = M + "/internal/statistics"
	PkgCmdFan   = M + "/cmd/fan"
	PkgCmdSens  = M + "/cmd/sensor"
)

// Ctx is the shared analysis context of one run.
type Ctx struct {
	P    *load.Program
	Tier string
	R    *report.Result

	globalHeld  map[string]string
	callers     map[*ssa.Function][]ssa.CallInstruction
	anchorTrees map[string]map[*ssa.Function]bool

	cg     *callgraph.Graph
	cgCHA  *callgraph.Graph
	useCHA bool
	impls  map[string][]*types.Named
}

func NewCtx(p *load.Program, tier string, r *report.Result) *Ctx {
	return &Ctx{P: p, Tier: tier, R: r, impls: map[string][]*types.Named{}}
}

// UseCHA switches the dynamic-call resolution to the CHA call graph (audit pass).
func (c *Ctx) UseCHA(on bool) { c.useCHA = on }

// Rule is the entry point of one property.
type Rule func(c *Ctx)

var Registry = map[string]Rule{}

// Explanations / assumptions are set by each rule on c.R.

// ---------------------------------------------------------------------------
// anchors

// Pkg returns the ssa package or fails closed.
func (c *Ctx) Pkg(path string) *ssa.Package {
	p := c.P.SSAPkgs[path]
	if p == nil {
		c.R.Undecided("anchor", "pkg|"+short(path), short(path), "-", "package not found (anchor unresolved)")
	}
	return p
}

// Func returns the package-level function pkg.name (nil + undecided if missing).
func (c *Ctx) Func(pkg, name string) *ssa.Function {
	p := c.P.SSAPkgs[pkg]
	if p != nil {
		if f := p.Func(name); f != nil {
			return f
		}
	}
	c.R.Undecided("anchor", "func|"+short(pkg)+"."+name, short(pkg)+"."+name, "-", "function not found (anchor unresolved)")
	return nil
}

// FuncOpt is Func without the fail-closed report.
func (c *Ctx) FuncOpt(pkg, name string) *ssa.Function {
	p := c.P.SSAPkgs[pkg]
	if p == nil {
		return nil
	}
	return p.Func(name)
}

// Named returns the named type pkg.name.
func (c *Ctx) Named(pkg, name string) *types.Named {
	p := c.P.ByPath[pkg]
	if p != nil {
		if o := p.Types.Scope().Lookup(name); o != nil {
			if n, ok := o.Type().(*types.Named); ok {
				return n
			}
		}
	}
	c.R.Undecided("anchor", "type|"+short(pkg)+"."+name, short(pkg)+"."+name, "-", "type not found (anchor unresolved)")
	return nil
}

// Impls lists the named types of the repository (non-test) whose pointer
// method set implements interface pkg.name, sorted by name.
func (c *Ctx) Impls(pkg, name string) []*types.Named {
	k := pkg + "." + name
	if v, ok := c.impls[k]; ok {
		return v
	}
	in := c.Named(pkg, name)
	if in == nil {
		return nil
	}
	it, ok := in.Underlying().(*types.Interface)
	if !ok {
		return nil
	}
	var out []*types.Named
	for _, pk := range c.P.Pkgs {
		sc := pk.Types.Scope()
		for _, n := range sc.Names() {
			tn, ok := sc.Lookup(n).(*types.TypeName)
			if !ok || tn.IsAlias() {
				continue
			}
			nt, ok := tn.Type().(*types.Named)
			if !ok || types.IsInterface(nt) {
				continue
			}
			if types.Implements(types.NewPointer(nt), it) || types.Implements(nt, it) {
				out = append(out, nt)
			}
		}
	}
	sort.Slice(out, func(i, j int) bool { return out[i].String() < out[j].String() })
	c.impls[k] = out
	return out
}

// Method returns the ssa function implementing method name on *T (or T).
func (c *Ctx) Method(t *types.Named, name string) *ssa.Function {
	var wrapper *ssa.Function
	for _, recv := range []types.Type{types.NewPointer(t), t} {
		ms := c.P.SSA.MethodSets.MethodSet(recv)
		for i := 0; i < ms.Len(); i++ {
			if ms.At(i).Obj().Name() == name {
				if f := c.P.SSA.MethodValue(ms.At(i)); f != nil {
					// prefer the declared method over a synthetic pointer-receiver wrapper
					if f.Synthetic == "" {
						return f
					}
					if wrapper == nil {
						wrapper = f
					}
				}
			}
		}
	}
	return wrapper
}

// ImplMethods returns, for every implementation of iface, its method `name`.
func (c *Ctx) ImplMethods(pkg, iface, name string) []*ssa.Function {
	var out []*ssa.Function
	for _, t := range c.Impls(pkg, iface) {
		if f := c.Method(t, name); f != nil && len(f.Blocks) > 0 {
			out = append(out, f)
		}
	}
	return out
}

var dbg = os.Getenv("F2G_DEBUG") != ""

func short(s string) string { return strings.TrimPrefix(strings.TrimPrefix(s, M+"/"), "internal/") }

// FK is the stable function key used in obligation keys.
func (c *Ctx) FK(fn *ssa.Function) string { return c.P.FuncKey(fn) }

func (c *Ctx) Pos(v interface{ Pos() token.Pos }) string { return c.P.Pos(v.Pos()) }

// ---------------------------------------------------------------------------
// call graph

func (c *Ctx) CallGraph() *callgraph.Graph {
	if c.useCHA {
		if c.cgCHA == nil {
			c.cgCHA = cha.CallGraph(c.P.SSA)
		}
		return c.cgCHA
	}
	if c.cg == nil {
		c.cg = vta.CallGraph(c.P.AllFuncs, cha.CallGraph(c.P.SSA))
	}
	return c.cg
}

// Callees returns the repository functions that a call instruction may invoke.
// Static calls resolve directly; invokes and dynamic calls use the call graph.
func (c *Ctx) Callees(call ssa.CallInstruction) []*ssa.Function {
	ci := ir.Callee(call)
	if ci.Static != nil {
		if len(ci.Static.Blocks) > 0 && c.P.IsRepoFunc(ci.Static) {
			return []*ssa.Function{ci.Static}
		}
		return nil
	}
	if ci.Builtin != "" {
		return nil
	}
	var out []*ssa.Function
	fn := call.Parent()
	if n := c.CallGraph().Nodes[fn]; n != nil {
		for _, e := range n.Out {
			if e.Site == call && c.P.IsRepoFunc(e.Callee.Func) && len(e.Callee.Func.Blocks) > 0 {
				out = append(out, e.Callee.Func)
			}
		}
	}
	sort.Slice(out, func(i, j int) bool { return c.FK(out[i]) < c.FK(out[j]) })
	return out
}

// Closure returns the set of repository functions reachable from roots through
// calls (static + resolved dynamic). When followClosures is true, anonymous
// functions created (MakeClosure) inside a reached function are included even
// if they are only passed to a library (e.g. run.Group.Add, db.Update).
func (c *Ctx) Closure(roots []*ssa.Function, followClosures bool, stop func(*ssa.Function) bool) map[*ssa.Function]bool {
	seen := map[*ssa.Function]bool{}
	var work []*ssa.Function
	push := func(f *ssa.Function) {
		if f == nil || seen[f] || len(f.Blocks) == 0 || !c.P.IsRepoFunc(f) {
			return
		}
		if stop != nil && stop(f) {
			return
		}
		seen[f] = true
		work = append(work, f)
	}
	for _, r := range roots {
		push(r)
	}
	for len(work) > 0 {
		f := work[len(work)-1]
		work = work[:len(work)-1]
		for _, b := range f.Blocks {
			for _, ins := range b.Instrs {
				if call, ok := ins.(ssa.CallInstruction); ok {
					for _, cal := range c.Callees(call) {
						push(cal)
					}
				}
				if mc, ok := ins.(*ssa.MakeClosure); ok && followClosures {
					push(mc.Fn.(*ssa.Function))
				}
			}
		}
	}
	return seen
}

// SortedFuncs returns the keys of a function set in stable order.
func (c *Ctx) SortedFuncs(m map[*ssa.Function]bool) []*ssa.Function {
	var out []*ssa.Function
	for f := range m {
		out = append(out, f)
	}
	sort.Slice(out, func(i, j int) bool { return c.FK(out[i]) < c.FK(out[j]) })
	return out
}

// Calls iterates over all call instructions of fn.
func Calls(fn *ssa.Function, f func(ssa.CallInstruction)) {
	for _, b := range fn.Blocks {
		for _, ins := range b.Instrs {
			if call, ok := ins.(ssa.CallInstruction); ok {
				f(call)
			}
		}
	}
}

// Instrs iterates over all instructions of fn.
func Instrs(fn *ssa.Function, f func(ssa.Instruction)) {
	for _, b := range fn.Blocks {
		for _, ins := range b.Instrs {
			f(ins)
		}
	}
}

func sprintf(f string, a ...interface{}) string { return fmt.Sprintf(f, a...) }

// WhyReach returns one call chain from root to target (debugging / diagnostics).
func (c *Ctx) WhyReach(root, target *ssa.Function, followClosures bool) []string {
	prev := map[*ssa.Function]*ssa.Function{root: nil}
	work := []*ssa.Function{root}
	for len(work) > 0 {
		f := work[0]
		work = work[1:]
		if f == target {
			var out []string
			for x := f; x != nil; x = prev[x] {
				out = append([]string{c.FK(x)}, out...)
			}
			return out
		}
		Instrs(f, func(ins ssa.Instruction) {
			var next []*ssa.Function
			if call, ok := ins.(ssa.CallInstruction); ok {
				next = c.Callees(call)
			}
			if mc, ok := ins.(*ssa.MakeClosure); ok && followClosures {
				next = append(next, mc.Fn.(*ssa.Function))
			}
			for _, n := range next {
				if _, seen := prev[n]; !seen && c.P.IsRepoFunc(n) {
					prev[n] = f
					work = append(work, n)
				}
			}
		})
	}
	return nil
}

// ConvertedImpls lists the named types that are actually converted to the
// interface pkg.name somewhere in the repository (MakeInterface), which is
// narrower than structural implementation (a type with a coincidentally
// matching method set is not included).
func (c *Ctx) ConvertedImpls(pkg, name string) []*types.Named {
	in := c.Named(pkg, name)
	if in == nil {
		return nil
	}
	seen := map[*types.Named]bool{}
	var out []*types.Named
	for _, fn := range c.P.Funcs {
		Instrs(fn, func(ins ssa.Instruction) {
			mi, ok := ins.(*ssa.MakeInterface)
			if !ok || !types.Identical(mi.Type(), in) {
				return
			}
			if n := ir.NamedOf(mi.X.Type()); n != nil && !seen[n] {
				seen[n] = true
				out = append(out, n)
			}
		})
	}
	sort.Slice(out, func(i, j int) bool { return out[i].String() < out[j].String() })
	return out
}

// ConvertedImplMethods returns method `name` of every type converted to the interface.
func (c *Ctx) ConvertedImplMethods(pkg, iface, name string) []*ssa.Function {
	var out []*ssa.Function
	for _, t := range c.ConvertedImpls(pkg, iface) {
		if f := c.Method(t, name); f != nil && len(f.Blocks) > 0 {
			out = append(out, f)
		}
	}
	return out
}

// StaticCallers returns the static call sites (and go/defer statements) of fn in the repository.
func (c *Ctx) StaticCallers(fn *ssa.Function) []ssa.CallInstruction {
	if c.callers == nil {
		c.callers = map[*ssa.Function][]ssa.CallInstruction{}
		for _, f := range c.P.Funcs {
			Calls(f, func(cc ssa.CallInstruction) {
				if st := ir.Callee(cc).Static; st != nil {
					c.callers[st] = append(c.callers[st], cc)
				}
			})
		}
	}
	return c.callers[fn]
}

// CallersIn restricts StaticCallers to call sites located in the given function set.
func (c *Ctx) CallersIn(set map[*ssa.Function]bool) func(*ssa.Function) []ssa.CallInstruction {
	return func(fn *ssa.Function) []ssa.CallInstruction {
		var out []ssa.CallInstruction
		for _, cc := range c.StaticCallers(fn) {
			if set == nil || set[cc.Parent()] {
				out = append(out, cc)
			}
		}
		return out
	}
}
