package units_test

import (
	"go/types"
	"strings"
	"testing"

	"f2gcheck/internal/testutil"
	"f2gcheck/internal/units"

	"golang.org/x/tools/go/ssa"
)

const src = `package fx

type Curve interface{ Evaluate() (int, error) }
type Fan interface {
	GetPwm() (int, error)
	GetMinPwm() int
	GetMaxPwm() int
	SetPwm(int) error
}
type Loop interface{ Cycle(target, current int) int }

type C struct {
	fan     Fan
	curve   Curve
	loop    Loop
	last    *int
	lastOut *int
	off     int
}

func clamp(v float64, lo float64, hi float64) float64 {
	if v > hi {
		return hi
	}
	if v < lo {
		return lo
	}
	return v
}

func toLoop(pwm, lo, hi int) int {
	if hi <= lo {
		return 0
	}
	return int(clamp(float64(pwm-lo)*255/float64(hi-lo), 0, 255))
}

func (c *C) rescale(t int) int {
	lo := c.fan.GetMinPwm() + c.off
	hi := c.fan.GetMaxPwm()
	return lo + int((float64(t)/255)*(float64(hi)-float64(lo)))
}

// good: the loop is fed with its own previous output
func (c *C) good() (int, error) {
	t, err := c.curve.Evaluate()
	if err != nil {
		return -1, err
	}
	cur := toLoop(*c.last, c.fan.GetMinPwm(), c.fan.GetMaxPwm())
	if c.lastOut != nil {
		cur = *c.lastOut
	}
	t = c.loop.Cycle(t, cur)
	if t > 255 {
		t = 255
	} else if t < 0 {
		t = 0
	}
	out := t
	c.lastOut = &out
	r := c.rescale(t)
	r++
	return r, nil
}

func (c *C) write(req int) error {
	c.last = &req
	return c.fan.SetPwm(req)
}

func (c *C) step() error {
	r, err := c.good()
	if err != nil {
		return err
	}
	return c.write(r)
}

type B struct {
	fan   Fan
	curve Curve
	loop  Loop
	last  *int
}

// bad: the range-mapped request is fed back as the loop's current value
func (c *B) bad() (int, error) {
	t, err := c.curve.Evaluate()
	if err != nil {
		return -1, err
	}
	cur := 0
	if c.last != nil {
		cur = *c.last
	}
	t = c.loop.Cycle(t, cur)
	lo := c.fan.GetMinPwm()
	hi := c.fan.GetMaxPwm()
	r := lo + int((float64(t)/255)*(float64(hi)-float64(lo)))
	c.last = &r
	return r, nil
}

type D struct {
	fan   Fan
	curve Curve
}

// bad2: the curve value is written without the rescale
func (c *D) bad2() error {
	t, err := c.curve.Evaluate()
	if err != nil {
		return err
	}
	return c.fan.SetPwm(t)
}
`

func system() *units.System {
	s := units.NewSystem()
	s.Names = [units.NBase]string{"loop", "fan"}
	l, f := units.Base(0), units.Base(1)
	s.SeedCall = func(c ssa.CallInstruction) (map[int]units.Dim, map[int]units.Dim, bool) {
		cc := c.Common()
		if !cc.IsInvoke() {
			return nil, nil, false
		}
		switch cc.Method.Name() {
		case "Evaluate":
			return nil, map[int]units.Dim{0: l}, true
		case "Cycle":
			return map[int]units.Dim{0: l, 1: l}, map[int]units.Dim{0: l}, true
		case "GetPwm", "GetMinPwm", "GetMaxPwm":
			return nil, map[int]units.Dim{0: f}, true
		case "SetPwm":
			return map[int]units.Dim{0: f}, nil, true
		}
		return nil, nil, false
	}
	s.Instantiate = func(fn *ssa.Function) bool { return true }
	return s
}

func TestUnits(t *testing.T) {
	p := testutil.Load(t, src)
	funcs := map[string]*ssa.Function{}
	for _, m := range p.Members {
		if tn, ok := m.(*ssa.Type); ok {
			ms := p.Prog.MethodSets.MethodSet(types.NewPointer(tn.Type()))
			for i := 0; i < ms.Len(); i++ {
				fn := p.Prog.MethodValue(ms.At(i))
				if fn != nil {
					funcs[fn.Name()] = fn
				}
			}
		}
	}
	run := func(names ...string) []units.Conflict {
		s := system()
		for _, n := range names {
			if funcs[n] == nil {
				t.Fatalf("no method %s", n)
			}
			s.AnalyseTop(funcs[n])
		}
		return s.Conflicts
	}
	if cs := run("good", "write", "step", "rescale"); len(cs) != 0 {
		t.Errorf("good: unexpected conflicts: %+v", cs)
	}
	cs := run("bad")
	if len(cs) == 0 {
		t.Errorf("bad: the scale mix-up is not reported")
	} else if !strings.Contains(cs[0].What, "Cycle") && !strings.Contains(cs[0].What, "store") && !strings.Contains(cs[0].What, "merge") {
		t.Errorf("bad: unexpected conflict site %q", cs[0].What)
	}
	if cs := run("bad2"); len(cs) == 0 {
		t.Errorf("bad2: writing a loop-scale value to the fan is not reported")
	}
}
