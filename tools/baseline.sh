#!/bin/bash
# Runs the repository's own test suite (guard off) and compares with BASELINE.json's stable_pass.
# usage: tools/baseline.sh [repo-dir] [pkg pattern...]
REPO=${1:-/repo}; shift
PKGS=${@:-./...}
export GOFLAGS=-mod=mod GOPROXY=off GOSUMDB=off GOTOOLCHAIN=local
OUT=$(mktemp /root/.baseline.XXXXXX)
(cd "$REPO" && go test -json -vet=off -count=1 -p 4 -timeout 25m $PKGS) > "$OUT" 2>/dev/null
python3 - "$OUT" "$PKGS" <<'P'
import json,sys
passed=set(); failed=set()
for l in open(sys.argv[1]):
    try: e=json.loads(l)
    except Exception: continue
    if e.get('Test') and e.get('Action') in('pass','fail'):
        k=e['Package']+'::'+e['Test']
        (passed if e['Action']=='pass' else failed).add(k)
b=json.load(open('/root/.vp/BASELINE.json'))
sp=set(b['stable_pass'])
if sys.argv[2]!='./...':
    pk=sys.argv[2].replace('./','github.com/markusressel/fan2go/').rstrip('/.')
    sp={s for s in sp if s.split('::')[0].startswith(pk)}
missing=sorted(sp-passed)
print(f"stable_pass expected={len(sp)} passed={len(sp&passed)} not-passed={len(missing)}")
for m in missing: print("  NOT PASSED:",m, "(failed)" if m in failed else "(not run)")
sys.exit(1 if missing else 0)
P
rc=$?
rm -f "$OUT"
exit $rc
