package rules

import (
	"go/types"
	"go/token"
	"strings"

	"f2gcheck/internal/ir"
	"f2gcheck/internal/ranges"

	"golang.org/x/tools/go/ssa"
)

func init() { Registry["C10"] = c10 }

func c10(c *Ctx) {
	c.R.Explanation = "C10: the step/termination structure and one latency precondition are decided; not the latency itself. R-step (symbolic range analysis, as C02(c)) = on the stall path of the target computation the request rises by >= 1 over the stalled request and over the old floor, and the floor is raised (offset increment). R-max = from every edge on which the stall predicate (a comparison of Fan.GetRpmAvg() with a constant) holds, every path either performs the raise or returns an exported sentinel error, and that return is reachable only across an edge establishing request >= Fan.GetMaxPwm(); UpdateFanSpeed returns the target computation's error unchanged (its handling — restore and stop — is C03 R-exit / C09 R-contain). R-lastreq = the write routine records its unmodified request in the field the stall predicate compares with (otherwise 'request unchanged' never holds for fans whose PWM map has gaps). R-poll = every path through the poll of the RPM monitor feeds a reading into the RPM average unless Fan.GetRpm itself failed (an early return on some other fault would freeze the input of the stall test). R-threshold (data flow) = for every Fan implementation whose GetRpmAvg returns, untruncated, a float field that the RPM monitor updates with util.UpdateSimpleMovingAvg (an exponential average old + (new-old)/n), the stall predicate's constant must be > 0: for n >= 2 such an average of non-negative readings that was ever positive never becomes <= 0 (it sticks at a positive denormal), so a test against a non-positive constant cannot fire within tens of polls, or ever. R-raise = each floor-raising instruction reached from the stall edge (a store to the offset field, or a call that may store it) writes offset + k, k >= 1, on every path through it; a path that leaves the offset unchanged is accepted only where its branch condition implies GetMinPwm() + offset >= GetMaxPwm() (linear facts evaluated with the range analysis). R-poll|lifetime = the goroutine that calls the poll in a loop returns only from the <-ctx.Done() case of its select (any other exit freezes the RPM average while the control loop keeps testing it). Not decided: the actual number of polls; pacing."
	c.R.Assumptions = append(c.R.Assumptions, envelopeAssumptions, "RPM readings are non-negative")
	r := c.analyseRegulation()
	r.ruleEnvelope("R-step", false, false, true)
	c.R.Require("R-step-raise", 1)

	for _, w := range r.writers {
		key := c.FK(w.fn)
		if w.lastField == "" || w.lastField[0] == '!' || w.reqParam == nil {
			c.R.Bad("R-lastreq", key, key, c.P.Pos(w.fn.Pos()), "the write routine does not record its unmodified request in the last-request field ("+w.lastField+"): the stall test 'request unchanged' compares the new request with a different quantity")
		} else {
			c.R.Ok("R-lastreq", key, key, c.P.Pos(w.fn.Pos()), "the write routine records its request parameter in field "+w.lastField)
		}
	}
	c.R.Require("R-lastreq", 1)

	type pred struct {
		op  token.Token
		k   float64
		bin *ssa.BinOp
	}
	var preds []pred
	for _, ci := range r.cycles {
		if ci.target == nil {
			continue
		}
		T := ci.target
		fk := c.FK(T)
		// stall predicate: comparison of invoke Fan.GetRpmAvg with a constant
		var stallEdges []edge
		body := ci.body
		if len(body) == 0 {
			body = []*ssa.Function{T}
		}
		for _, bf := range body {
			Instrs(bf, func(ins ssa.Instruction) {
				b, ok := ins.(*ssa.BinOp)
				if !ok {
					return
				}
				call, ok := ir.Resolve(b.X).(*ssa.Call)
				if !ok || !isFanInvoke(call, "GetRpmAvg") {
					return
				}
				k, isConst := ir.ConstFloat(b.Y)
				if !isConst {
					return
				}
				switch b.Op {
				case token.LEQ, token.LSS, token.EQL:
					preds = append(preds, pred{b.Op, k, b})
				}
			})
		}
		stallEdges = r.stallEdgesOf(ci)
		if len(stallEdges) == 0 {
			c.R.Bad("R-max", fk+"|no-stall-test", fk, c.P.Pos(T.Pos()), "the target computation contains no stall test (Fan.GetRpmAvg() compared with a constant)")
			continue
		}
		isIncr := func(ins ssa.Instruction) bool {
			for _, x := range ci.incrCalls {
				if x == ins {
					return true
				}
			}
			return false
		}
		ei := errResultIndex(T)
		bad := ""
		nSentinel := 0
		for _, rv := range returnsFrom(edgeStarts(stallEdges), ir.Search{StopInstr: isIncr}) {
			t := r.tb.Of(ir.ResultVia(rv.ret, ei, rv.via), nil)
			isSentinel := false
			if strings.HasPrefix(t.Op, "global:"+PkgCtrl+".") {
				name := strings.TrimPrefix(t.Op, "global:"+PkgCtrl+".")
				isSentinel = name != "" && name[0] >= 'A' && name[0] <= 'Z'
			}
			if !isSentinel {
				bad = "a stalled fan can leave the stall branch at " + c.P.Pos(rv.ret.Pos()) + " without a raise and without the sentinel error (returns " + t.String() + ")"
				continue
			}
			nSentinel++
			facts := ranges.FactsAt(rv.ret.Block(), rv.via)
			isMax := func(v ssa.Value) bool { return v == ci.maxSym || ir.RootP(v, c.StaticCallers) == ci.maxSym }
			atMax := ci.maxSym != nil && (ir.HasFact(facts, token.GEQ, func(x, y ssa.Value) bool { return isMax(y) }) ||
				ir.HasFact(facts, token.GTR, func(x, y ssa.Value) bool { return isMax(y) }) ||
				ir.HasFact(facts, token.EQL, func(x, y ssa.Value) bool { return isMax(y) || isMax(x) }))
			if !atMax {
				bad = "the stall sentinel error at " + c.P.Pos(rv.ret.Pos()) + " is returned without request >= Fan.GetMaxPwm() being established (regulation would stop although the fan could still be pushed)"
			}
		}
		switch {
		case bad != "":
			c.R.Bad("R-max", fk, fk, c.P.Pos(T.Pos()), bad)
		case nSentinel == 0:
			c.R.Bad("R-max", fk, fk, c.P.Pos(T.Pos()), "a stalled fan at maximum PWM is never reported: no sentinel-error return is reachable from the stall edge")
		default:
			c.R.Ok("R-max", fk, fk, c.P.Pos(T.Pos()), "from the stall edge every path raises the minimum or returns the exported sentinel error under request >= Fan.GetMaxPwm()")
		}
		// ---- R-raise: an increment reached from the stall edge raises the floor on each of its paths ----
		r.ruleRaise("R-raise", ci, edgeStarts(stallEdges))
		// UpdateFanSpeed returns the error unchanged
		ev := errValueOfCall(ci.targetCall)
		okSame := false
		for _, rv := range returnsFrom(edgeStarts(nilEdges(ci.ufs, ev, true)), ir.Search{}) {
			if ir.Resolve(ir.ResultVia(rv.ret, errResultIndex(ci.ufs), rv.via)) == ir.Resolve(ev) {
				okSame = true
			} else {
				okSame = false
				break
			}
		}
		if okSame {
			c.R.Ok("R-max", c.FK(ci.ufs)+"|error-unchanged", c.FK(ci.ufs), c.P.Pos(ci.targetCall.Pos()), "UpdateFanSpeed returns the target computation's error itself (errors.Is(sentinel) keeps working for callers)")
		} else {
			c.R.Bad("R-max", c.FK(ci.ufs)+"|error-unchanged", c.FK(ci.ufs), c.P.Pos(ci.targetCall.Pos()), "UpdateFanSpeed does not return the target computation's error unchanged on its error edge")
		}
	}
	c.R.Require("R-max", 2)
	c.R.Require("R-raise", 1)

	// ---- R-poll: every poll of the RPM monitor refreshes the average the stall test reads --------
	npoll := 0
	for _, fn := range c.P.Funcs {
		if load_FuncPkgPath(fn) != PkgCtrl || len(fn.Blocks) == 0 {
			continue
		}
		var setAvg []ssa.Instruction
		var getRpm *ssa.Call
		Calls(fn, func(cc ssa.CallInstruction) {
			if isFanInvoke(cc, "SetRpmAvg") && termHasCall(r.tb.Of(cc.Common().Args[0], nil), "util.UpdateSimpleMovingAvg") {
				setAvg = append(setAvg, cc)
			}
			if call, ok := cc.(*ssa.Call); ok && isFanInvoke(cc, "GetRpm") {
				getRpm = call
			}
		})
		if len(setAvg) == 0 {
			continue
		}
		npoll++
		key := c.FK(fn)
		var errEdges []edge
		if getRpm != nil {
			if ev := errValueOfCall(getRpm); ev != nil {
				errEdges = nilEdges(fn, ev, true)
			}
		}
		missed := ""
		ir.Search{StopInstr: func(ins ssa.Instruction) bool {
			for _, s := range setAvg {
				if ins == s {
					return true
				}
			}
			return false
		}, StopEdge: func(b *ssa.BasicBlock, si int) bool {
			for _, e := range errEdges {
				if e.b == b && e.si == si {
					return true
				}
			}
			return false
		}}.Reach([]ir.Point{{Block: fn.Blocks[0]}}, func(ins ssa.Instruction, _ *ssa.BasicBlock) {
			if rt, ok := ins.(*ssa.Return); ok {
				missed = c.P.Pos(rt.Pos())
			}
		})
		if missed != "" {
			c.R.Bad("R-poll", key, key, missed, "a poll of the RPM monitor can end without feeding a reading into the RPM average (and without the RPM read itself having failed): the stall test then keeps seeing the last value from before the fault, so a stalled fan is not noticed within any bound")
		} else {
			c.R.Ok("R-poll", key, key, c.P.Pos(fn.Pos()), "every path through the poll reaches SetRpmAvg(UpdateSimpleMovingAvg(...)) unless Fan.GetRpm itself failed")
		}
	}
	if npoll == 0 {
		c.R.Undecided("R-poll", "none", PkgCtrl, "-", "no function updates the RPM average with UpdateSimpleMovingAvg (anchor unresolved)")
	}
	// the monitor lives as long as regulation: the goroutine that calls the poll in a loop returns only from the
	// `<-ctx.Done()` case of its select. Any other exit ends the polling while the control loop keeps testing an
	// average that is never refreshed again (a later stall is not noticed within any bound).
	nlife := 0
	isPollFn := func(st *ssa.Function) bool {
		isPoll := false
		Calls(st, func(c2 ssa.CallInstruction) {
			if isFanInvoke(c2, "SetRpmAvg") && termHasCall(r.tb.Of(c2.Common().Args[0], nil), "util.UpdateSimpleMovingAvg") {
				isPoll = true
			}
		})
		return isPoll
	}
	// poll-ish: the poll itself or a controller function that calls one (a "wait for the tick, then poll" helper)
	pollish := map[*ssa.Function]bool{}
	for depth := 0; depth < 3; depth++ {
		for _, fn := range c.P.Funcs {
			if load_FuncPkgPath(fn) != PkgCtrl || len(fn.Blocks) == 0 || pollish[fn] {
				continue
			}
			if isPollFn(fn) {
				pollish[fn] = true
				continue
			}
			Calls(fn, func(cc ssa.CallInstruction) {
				if _, isGo := cc.(*ssa.Go); isGo {
					return
				}
				if st := ir.Callee(cc).Static; st != nil && pollish[st] && loopHead(cc.Block()) == nil {
					pollish[fn] = true
				}
			})
		}
	}
	// the facts establish "the <-ctx.Done() case of a select was taken"
	doneFact := func(facts []ir.Fact) bool {
		return ir.HasFact(facts, token.EQL, func(x, y ssa.Value) bool {
			ex, isEx := x.(*ssa.Extract)
			k, isConst := ir.ConstInt(y)
			if !isEx || !isConst || ex.Index != 0 {
				return false
			}
			sel, isSel := ex.Tuple.(*ssa.Select)
			if !isSel || int(k) >= len(sel.States) || k < 0 {
				return false
			}
			call, isCall := ir.Resolve(sel.States[k].Chan).(*ssa.Call)
			return isCall && sel.States[k].Dir == types.RecvOnly && strings.HasSuffix(ir.CallName(call), "context.Context.Done")
		})
	}
	// a boolean helper says `truth` only from the Done case
	saysOnlyOnDone := func(h *ssa.Function, truth bool) bool {
		if len(h.Blocks) == 0 || h.Signature.Results().Len() != 1 {
			return false
		}
		for _, rv := range returnsFrom([]ir.Point{{Block: h.Blocks[0]}}, ir.Search{}) {
			res := ir.ResultVia(rv.ret, 0, rv.via)
			if k, isConst := ir.ConstBool(res); isConst && k != truth {
				continue
			}
			if !doneFact(factsAt(rv.ret.Block(), rv.via)) {
				return false
			}
		}
		return true
	}
	for _, fn := range c.P.Funcs {
		if load_FuncPkgPath(fn) != PkgCtrl || len(fn.Blocks) == 0 {
			continue
		}
		// a looping caller of a poll-ish function
		var pollCall ssa.Instruction
		Calls(fn, func(cc ssa.CallInstruction) {
			if _, isGo := cc.(*ssa.Go); isGo {
				return
			}
			st := ir.Callee(cc).Static
			if st == nil || st == fn || !pollish[st] {
				return
			}
			if loopHead(cc.Block()) != nil {
				pollCall = cc
			}
		})
		if pollCall == nil {
			continue
		}
		nlife++
		key := c.FK(fn) + "|lifetime"
		h := loopHead(pollCall.Block())
		bad := ""
		for _, rv := range returnsFrom([]ir.Point{{Block: h, Idx: 0}}, ir.Search{}) {
			facts := factsAt(rv.ret.Block(), rv.via)
			okDone := doneFact(facts)
			if !okDone {
				// the exit is decided by a helper that reports "cancelled" only from its Done case
				for _, f := range facts {
					if f.Bool == nil {
						continue
					}
					if call, isCall := f.Bool.(*ssa.Call); isCall {
						if hf := ir.Callee(call).Static; hf != nil && load_FuncPkgPath(hf) == PkgCtrl && saysOnlyOnDone(hf, f.Truth) {
							okDone = true
						}
					}
				}
			}
			if !okDone && bad == "" {
				bad = c.P.Pos(rv.ret.Pos())
			}
		}
		if bad != "" {
			c.R.Bad("R-poll", key, c.FK(fn), bad, "the goroutine that polls the RPM input can return (at "+bad+") on something other than the cancellation of the context: polling stops while the control loop goes on, the RPM average is frozen at its last value and a later stall is never noticed")
		} else {
			c.R.Ok("R-poll", key, c.FK(fn), c.P.Pos(pollCall.Pos()), "the polling goroutine returns only from the <-ctx.Done() case of its select")
		}
	}
	if nlife == 0 {
		c.R.Undecided("R-poll", "lifetime", PkgCtrl, "-", "no goroutine calls the RPM poll in a loop (anchor unresolved)")
	}
	c.R.Require("R-poll", 1)

	// ---- R-threshold --------------------------------------------------------------
	if len(preds) == 0 {
		c.R.Undecided("R-threshold", "no-predicate", "target computation", "-", "stall predicate not found")
		return
	}
	// is the RPM average maintained with UpdateSimpleMovingAvg?
	usesEMA := false
	for _, run := range c.ImplMethods(PkgCtrl, "FanController", "Run") {
		for f := range c.Closure([]*ssa.Function{run}, true, nil) {
			Calls(f, func(cc ssa.CallInstruction) {
				if !isFanInvoke(cc, "SetRpmAvg") {
					return
				}
				t := r.tb.Of(cc.Common().Args[0], nil)
				if termHasCall(t, "util.UpdateSimpleMovingAvg") {
					usesEMA = true
				}
			})
		}
	}
	for _, ft := range c.Impls(PkgFans, "Fan") {
		get, set := c.Method(ft, "GetRpmAvg"), c.Method(ft, "SetRpmAvg")
		if get == nil || set == nil {
			continue
		}
		key := ft.Obj().Name()
		tb2 := ir.NewTB(c.P.IsRepoFunc, c.P.FuncKey)
		// exponential iff: on some path GetRpmAvg returns a float field as is, and SetRpmAvg stores its
		// parameter unmodified into that field (other returns, e.g. a fallback while the field is still
		// zero, do not help: the decaying value is never exactly zero)
		gt := tb2.Of(ir.Returns(get)[0].Results[0], nil)
		var leaves []*ir.Term
		var collect func(t *ir.Term, depth int)
		collect = func(t *ir.Term, depth int) {
			if t.Op == "phi" && depth < 4 {
				for _, a := range t.Args {
					collect(a, depth+1)
				}
				return
			}
			leaves = append(leaves, t)
		}
		for _, rt := range ir.Returns(get) {
			collect(tb2.Of(rt.Results[0], nil), 0)
		}
		exact, storedRaw := false, false
		for _, lf := range leaves {
			if !strings.HasPrefix(lf.Op, "field:") {
				continue
			}
			Instrs(set, func(ins ssa.Instruction) {
				if st, ok := ins.(*ssa.Store); ok {
					if fa, ok := st.Addr.(*ssa.FieldAddr); ok {
						if _, n, _ := ir.FieldName(fa); "field:"+n == lf.Op && len(set.Params) > 1 && ir.Resolve(st.Val) == ssa.Value(set.Params[1]) {
							exact, storedRaw = true, true
							gt = lf
						}
					}
				}
			})
		}
		exponential := exact && storedRaw && usesEMA
		for _, p := range preds {
			nonPositive := p.k <= 0
			switch {
			case exponential && nonPositive:
				c.R.Bad("R-threshold", key, c.FK(get), c.P.Pos(p.bin.Pos()), sprintf("stall test 'GetRpmAvg() %s %g' on %s, whose average is an untruncated exponential average (SetRpmAvg(UpdateSimpleMovingAvg(...))): for window >= 2 it never becomes <= 0 once the fan has spun, so the stall is never noticed", p.op, p.k, key))
			case exponential:
				c.R.Ok("R-threshold", key, c.FK(get), c.P.Pos(p.bin.Pos()), sprintf("positive threshold %g on an exponential average: reachable in O(window * log(rpm)) polls", p.k))
			default:
				c.R.Ok("R-threshold", key, c.FK(get), c.P.Pos(p.bin.Pos()), "GetRpmAvg is not an untruncated exponential average for this fan kind ("+gt.String()+"): a reading of 0 makes it 0 at once")
			}
		}
	}
	c.R.Require("R-threshold", 3)
}

// ruleRaise: every instruction that stands for "the floor was raised" on a path from the stall edge (a store to an
// offset field, or a call that may store one) strictly increases that field on every path through it; a path
// that leaves the field unchanged is accepted only where its branch condition implies
// GetMinPwm() + offsets >= GetMaxPwm() (the floor has arrived at the maximum, so the at-maximum report is next).
// Without this the R-max argument "each stall cycle raises the floor or reports" does not terminate.
func (r *regulation) ruleRaise(rule string, ci *cycleInfo, starts []ir.Point) {
	c := r.c
	T := ci.target
	owner := recvTypeName(T)
	isOff := func(v ssa.Value) (string, bool) {
		u, ok := v.(*ssa.UnOp)
		if !ok || u.Op != token.MUL {
			return "", false
		}
		fa, ok := u.X.(*ssa.FieldAddr)
		if !ok {
			return "", false
		}
		o, n, _ := ir.FieldName(fa)
		if o == nil || o.Obj().Name() != owner {
			return "", false
		}
		_, is := ci.offFields[n]
		return n, is
	}
	// strict: the store writes load(field) + k, k >= 1
	strict := func(st *ssa.Store, an *ranges.An) bool {
		fa, ok := st.Addr.(*ssa.FieldAddr)
		if !ok {
			return false
		}
		_, name, _ := ir.FieldName(fa)
		av := an.Eval(st.Val, ir.BlockFacts(st.Block()))
		for _, lo := range av.Lo {
			if lo.C >= 1 && len(lo.Coef) == 1 {
				for sym, co := range lo.Coef {
					if n, is := isOff(sym); is && n == name && co == 1 {
						return true
					}
				}
			}
		}
		return false
	}
	storesOff := func(ins ssa.Instruction) (*ssa.Store, bool) {
		st, ok := ins.(*ssa.Store)
		if !ok {
			return nil, false
		}
		fa, ok := st.Addr.(*ssa.FieldAddr)
		if !ok {
			return nil, false
		}
		o, n, _ := ir.FieldName(fa)
		if o == nil || o.Obj().Name() != owner {
			return nil, false
		}
		_, is := ci.offFields[n]
		return st, is
	}
	// atMax: do the facts imply GetMinPwm() + offsets - GetMaxPwm() >= 0 ?
	atMax := func(facts []ir.Fact, an *ranges.An) bool {
		for _, f := range facts {
			if f.X == nil || f.Y == nil || f.Via != nil {
				continue
			}
			x, y := an.Eval(f.X, nil).Exact, an.Eval(f.Y, nil).Exact
			if x == nil || y == nil {
				continue
			}
			d := x.Add(*y, -1)
			lb := 0.0
			switch f.Op {
			case token.GEQ, token.EQL:
			case token.GTR:
				lb = 1
			case token.LEQ:
				d = ranges.Konst(0).Add(d, -1)
			case token.LSS:
				d = ranges.Konst(0).Add(d, -1)
				lb = 1
			default:
				continue
			}
			// d >= lb with d = min + offsets - max + C
			nMin, nMax, okShape := 0, 0, true
			for sym, co := range d.Coef {
				if co == 0 {
					continue
				}
				if call, isCall := sym.(*ssa.Call); isCall && isFanInvoke(call, "GetMinPwm") && co == 1 {
					nMin++
				} else if isCall && isFanInvoke(call, "GetMaxPwm") && co == -1 {
					nMax++
				} else if _, is := isOff(sym); is && co == 1 {
				} else {
					okShape = false
				}
			}
			if okShape && nMin == 1 && nMax == 1 && lb-d.C >= 0 {
				return true
			}
		}
		return false
	}
	var raises func(fn *ssa.Function, depth int) (bad string)
	raises = func(fn *ssa.Function, depth int) string {
		if len(fn.Blocks) == 0 {
			return "no body"
		}
		an := ranges.New(fn)
		bad := ""
		stop := func(ins ssa.Instruction) bool {
			if st, is := storesOff(ins); is {
				if strict(st, an) {
					return true
				}
				if bad == "" {
					bad = "the store at " + c.P.Pos(st.Pos()) + " does not write the field's previous value plus a positive step"
				}
				return true
			}
			if cc, ok := ins.(ssa.CallInstruction); ok && depth > 0 {
				if _, isGo := cc.(*ssa.Go); isGo {
					return false
				}
				if cal := ir.Callee(cc).Static; cal != nil && cal != fn && load_FuncPkgPath(cal) == PkgCtrl {
					may := false
					for name := range ci.offFields {
						if c.mayStoreField(cal, owner, name) {
							may = true
						}
					}
					if may {
						if b := raises(cal, depth-1); b != "" && bad == "" {
							bad = b
						}
						return true
					}
				}
			}
			return false
		}
		for _, rv := range returnsFrom([]ir.Point{{Block: fn.Blocks[0], Idx: 0}}, ir.Search{StopInstr: stop}) {
			if !atMax(factsAt(rv.ret.Block(), rv.via), an) && bad == "" {
				bad = c.FK(fn) + " can return at " + c.P.Pos(rv.ret.Pos()) + " without having increased the offset, and the skipping branch does not imply GetMinPwm() + offset >= GetMaxPwm()"
			}
		}
		return bad
	}
	an := ranges.New(T)
	seen := map[ssa.Instruction]bool{}
	n := 0
	ir.Search{}.Reach(starts, func(ins ssa.Instruction, _ *ssa.BasicBlock) {
		isInc := false
		for _, x := range ci.incrCalls {
			if x == ins {
				isInc = true
			}
		}
		if !isInc || seen[ins] {
			return
		}
		seen[ins] = true
		n++
		if st, is := storesOff(ins); is {
			key := c.FK(ins.Parent()) + "|store"
			if strict(st, an) {
				c.R.Ok(rule, key, c.FK(ins.Parent()), c.P.Pos(ins.Pos()), "the stall branch stores offset + k, k >= 1")
			} else {
				c.R.Bad(rule, key, c.FK(ins.Parent()), c.P.Pos(ins.Pos()), "the store to the floor offset in the stall branch does not write the previous value plus a positive step: the floor of a stalled fan need not rise, so neither rotation nor the at-maximum report is ever reached")
			}
			return
		}
		cc := ins.(ssa.CallInstruction)
		for _, cal := range c.Callees(cc) {
			may := false
			for name := range ci.offFields {
				if c.mayStoreField(cal, owner, name) {
					may = true
				}
			}
			if !may {
				continue
			}
			key := c.FK(cal)
			if bad := raises(cal, 3); bad != "" {
				c.R.Bad(rule, key, c.FK(cal), c.P.Pos(ins.Pos()), "the floor-raising call in the stall branch does not raise the floor on every path ("+bad+"): a stalled fan can stay below the maximum for ever, the request oscillates and the stall is never reported")
			} else {
				c.R.Ok(rule, key, c.FK(cal), c.P.Pos(ins.Pos()), "every path through the floor-raising call stores offset + k (k >= 1), or skips it only where GetMinPwm() + offset >= GetMaxPwm() is established")
			}
		}
	})
	if n == 0 {
		c.R.Undecided(rule, c.FK(T)+"|none", c.FK(T), c.P.Pos(T.Pos()), "no floor-raising instruction is reachable from the stall edge (anchor unresolved)")
	}
}
