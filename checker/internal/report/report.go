// Package report collects obligations, matches violations against the
// committed known-findings file, writes evidence and replay files.
package report

import (
	"bufio"
	"encoding/json"
	"fmt"
	"os"
	"path/filepath"
	"sort"
	"strings"
)

type Verdict string

const (
	OK        Verdict = "ok"
	Violation Verdict = "violation"
	Undecided Verdict = "undecided" // fails closed
	Excluded  Verdict = "not-decided-by-design"
)

// Obligation is one decided instance of a rule.
type Obligation struct {
	Rule    string   `json:"rule"`
	Key     string   `json:"key"` // rule|construct, line-free
	Where   string   `json:"where"`
	Pos     string   `json:"pos"`
	Verdict Verdict  `json:"verdict"`
	Detail  string   `json:"detail,omitempty"`
	Hyps    []string `json:"hypotheses,omitempty"`
	Path    []string `json:"path,omitempty"`
}

// Result of running the rules of one property.
type Result struct {
	Property    string
	Obligations []Obligation
	Explanation string
	Assumptions []string
	Stats       map[string]int
	Analysed    map[string][]string // functions / call sites / thread classes analysed
	MinMatches  map[string]int      // rule -> minimum number of obligations required
}

func New(prop string) *Result {
	return &Result{Property: prop, Stats: map[string]int{}, Analysed: map[string][]string{}, MinMatches: map[string]int{}}
}

func (r *Result) Add(o Obligation) {
	if o.Key == "" {
		o.Key = o.Rule + "|" + o.Where
	} else if !strings.HasPrefix(o.Key, o.Rule+"|") {
		o.Key = o.Rule + "|" + o.Key
	}
	r.Obligations = append(r.Obligations, o)
}

func (r *Result) Ok(rule, key, where, pos, detail string, hyps ...string) {
	r.Add(Obligation{Rule: rule, Key: key, Where: where, Pos: pos, Verdict: OK, Detail: detail, Hyps: hyps})
}
func (r *Result) Bad(rule, key, where, pos, detail string, path ...string) {
	r.Add(Obligation{Rule: rule, Key: key, Where: where, Pos: pos, Verdict: Violation, Detail: detail, Path: path})
}
func (r *Result) Undecided(rule, key, where, pos, detail string) {
	r.Add(Obligation{Rule: rule, Key: key, Where: where, Pos: pos, Verdict: Undecided, Detail: detail})
}
func (r *Result) Excluded(rule, key, where, pos, detail string) {
	r.Add(Obligation{Rule: rule, Key: key, Where: where, Pos: pos, Verdict: Excluded, Detail: detail})
}

// Require makes the run fail if rule matched fewer than n obligations (anchor drift guard).
func (r *Result) Require(rule string, n int) { r.MinMatches[rule] = n }

func (r *Result) Note(kind, item string) { r.Analysed[kind] = append(r.Analysed[kind], item) }

// ---------------------------------------------------------------------------

type Finding struct {
	Property string
	Key      string
	Text     string
}

// LoadFindings parses KNOWN_FINDINGS.txt ("finding: property=Cxx key=<key> :: text").
// "fixed:" lines are informational and suppress nothing.
func LoadFindings(path string) ([]Finding, error) {
	f, err := os.Open(path)
	if err != nil {
		if os.IsNotExist(err) {
			return nil, nil
		}
		return nil, err
	}
	defer f.Close()
	var out []Finding
	sc := bufio.NewScanner(f)
	sc.Buffer(make([]byte, 1<<20), 1<<20)
	for sc.Scan() {
		line := strings.TrimSpace(sc.Text())
		if !strings.HasPrefix(line, "finding:") {
			continue
		}
		rest := strings.TrimSpace(strings.TrimPrefix(line, "finding:"))
		parts := strings.SplitN(rest, " :: ", 2)
		head := parts[0]
		text := ""
		if len(parts) == 2 {
			text = parts[1]
		}
		var prop, key string
		if i := strings.Index(head, "property="); i >= 0 {
			prop = strings.Fields(head[i+len("property="):])[0]
		}
		if i := strings.Index(head, "key="); i >= 0 {
			key = strings.TrimSpace(head[i+len("key="):])
		}
		if prop == "" || key == "" {
			return nil, fmt.Errorf("malformed finding line: %q", line)
		}
		out = append(out, Finding{prop, key, text})
	}
	return out, sc.Err()
}

// Summary of a variant / witness run (nothing is written).
type Summary struct {
	Violations []Obligation
	Known      []Obligation
	Rules      []string // rules with an unlisted violation
	Keys       []string // keys of unlisted violations
}

// Summarise classifies the obligations against the known findings without side effects.
func (r *Result) Summarise(findings []Finding) Summary {
	var s Summary
	known := map[string]bool{}
	for _, f := range findings {
		if f.Property == r.Property {
			known[f.Key] = true
		}
	}
	count := map[string]int{}
	for _, o := range r.Obligations {
		if o.Verdict != Excluded {
			count[o.Rule]++
		}
	}
	rules := map[string]bool{}
	for rule, n := range r.MinMatches {
		if count[rule] < n {
			s.Violations = append(s.Violations, Obligation{Rule: rule, Key: rule + "|<match-count>", Verdict: Undecided})
			rules[rule] = true
			s.Keys = append(s.Keys, rule+"|<match-count>")
		}
	}
	for _, o := range r.Obligations {
		if o.Verdict == Violation || o.Verdict == Undecided {
			if known[o.Key] && o.Verdict == Violation {
				s.Known = append(s.Known, o)
			} else {
				s.Violations = append(s.Violations, o)
				rules[o.Rule] = true
				s.Keys = append(s.Keys, o.Key)
			}
		}
	}
	for k := range rules {
		s.Rules = append(s.Rules, k)
	}
	sort.Strings(s.Rules)
	sort.Strings(s.Keys)
	return s
}

// Outcome of Finish.
type Outcome struct {
	Violations []Obligation // not covered by a known finding (incl. undecided, count failures)
	Known      []Obligation
	ExitCode   int
}

type evidence struct {
	PropertyID  string                 `json:"property_id"`
	Tier        string                 `json:"tier"`
	Seed        int                    `json:"seed"`
	Level       string                 `json:"level"`
	Coverage    map[string]interface{} `json:"coverage"`
	Assumptions []string               `json:"assumptions"`
	WallS       float64                `json:"wall_s"`
	Violations  int                    `json:"violations"`
}

// Finish prints the per-rule summary, KNOWN-FINDING / VIOLATION lines, writes
// evidence/<prop>.json and replay files, and returns the exit code.
func (r *Result) Finish(verifDir, tier string, seed int, wall float64, findings []Finding, extra map[string]interface{}) Outcome {
	var out Outcome
	// anchor-drift guard
	count := map[string]int{}
	for _, o := range r.Obligations {
		if o.Verdict != Excluded {
			count[o.Rule]++
		}
	}
	rules := []string{}
	for rule := range r.MinMatches {
		rules = append(rules, rule)
	}
	sort.Strings(rules)
	for _, rule := range rules {
		if count[rule] < r.MinMatches[rule] {
			r.Add(Obligation{Rule: rule, Key: rule + "|<match-count>", Where: "(whole program)", Verdict: Undecided,
				Detail: fmt.Sprintf("rule matched %d site(s), needs at least %d: its anchor no longer resolves (fail closed)", count[rule], r.MinMatches[rule])})
		}
	}
	known := map[string]Finding{}
	for _, f := range findings {
		if f.Property == r.Property {
			known[f.Key] = f
		}
	}
	usedKnown := map[string]bool{}
	perRule := map[string][4]int{}
	distinct := map[string]bool{}
	for _, o := range r.Obligations {
		c := perRule[o.Rule]
		switch o.Verdict {
		case OK:
			c[0]++
		case Violation:
			c[1]++
		case Undecided:
			c[2]++
		case Excluded:
			c[3]++
		}
		perRule[o.Rule] = c
		if o.Verdict != Excluded {
			distinct[o.Key] = true
		}
		if o.Verdict == Violation || o.Verdict == Undecided {
			if _, ok := known[o.Key]; ok && o.Verdict == Violation {
				out.Known = append(out.Known, o)
				usedKnown[o.Key] = true
			} else {
				out.Violations = append(out.Violations, o)
			}
		}
	}
	var rs []string
	for rule := range perRule {
		rs = append(rs, rule)
	}
	sort.Strings(rs)
	for _, rule := range rs {
		c := perRule[rule]
		fmt.Printf("[%s] rule %-14s ok=%d violation=%d undecided=%d not-decided-by-design=%d\n", r.Property, rule, c[0], c[1], c[2], c[3])
	}
	seenKF := map[string]bool{}
	for _, o := range out.Known {
		if seenKF[o.Key] {
			continue
		}
		seenKF[o.Key] = true
		fmt.Printf("KNOWN-FINDING: property=%s key=%s at %s (%s): %s\n", r.Property, o.Key, o.Pos, o.Where, known[o.Key].Text)
	}
	for k := range known {
		if !usedKnown[k] {
			fmt.Printf("note: known finding %q of %s no longer reproduces on this tree\n", k, r.Property)
		}
	}
	// replay files
	vdir := filepath.Join(verifDir, "evidence", "violations")
	os.MkdirAll(vdir, 0o755)
	old, _ := filepath.Glob(filepath.Join(vdir, r.Property+"-*.json"))
	for _, f := range old {
		os.Remove(f)
	}
	for i, o := range out.Violations {
		path := filepath.Join(vdir, fmt.Sprintf("%s-%d.json", r.Property, i+1))
		b, _ := json.MarshalIndent(map[string]interface{}{"property": r.Property, "tier": tier, "obligation": o}, "", " ")
		os.WriteFile(path, b, 0o644)
		fmt.Printf("  %s %s: %s @ %s (%s): %s\n", strings.ToUpper(string(o.Verdict)), o.Rule, o.Key, o.Pos, o.Where, o.Detail)
		for _, p := range o.Path {
			fmt.Printf("      path: %s\n", p)
		}
		fmt.Printf("VIOLATION property=%s replay=%s\n", r.Property, path)
	}
	if len(out.Violations) > 0 {
		out.ExitCode = 1
	}
	// evidence
	samples := []interface{}{}
	max := 40
	if tier == "thorough" {
		max = 400
	}
	for i, o := range r.Obligations {
		if i >= max {
			break
		}
		samples = append(samples, o)
	}
	nOK, nExcl := 0, 0
	for _, o := range r.Obligations {
		if o.Verdict == OK {
			nOK++
		}
		if o.Verdict == Excluded {
			nExcl++
		}
	}
	cov := map[string]interface{}{
		"explanation":           r.Explanation,
		"evaluations":           len(r.Obligations) - nExcl,
		"distinct_nontrivial":   len(distinct),
		"rule":                  "one case = one (rule, construct) obligation decided on the SSA of /repo as loaded by this run; distinct = distinct line-free keys; trivial (vacuous) matches are not generated: every rule fails closed when it matches fewer sites than any correct implementation needs",
		"samples":               samples,
		"obligations":           len(r.Obligations) - nExcl,
		"discharged":            nOK,
		"known_findings":        len(seenKF),
		"not_decided_by_design": nExcl,
		"per_rule":              perRule,
		"analysed":              r.Analysed,
		"stats":                 r.Stats,
	}
	for k, v := range extra {
		cov[k] = v
	}
	ev := evidence{PropertyID: r.Property, Tier: tier, Seed: seed, Level: "other", Coverage: cov,
		Assumptions: r.Assumptions, WallS: wall, Violations: len(out.Violations)}
	if ev.Assumptions == nil {
		ev.Assumptions = []string{}
	}
	b, _ := json.MarshalIndent(ev, "", " ")
	os.MkdirAll(filepath.Join(verifDir, "evidence"), 0o755)
	if err := os.WriteFile(filepath.Join(verifDir, "evidence", r.Property+".json"), b, 0o644); err != nil {
		fmt.Println("cannot write evidence:", err)
		out.ExitCode = 1
	}
	return out
}
