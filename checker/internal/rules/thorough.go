package rules

import (
	"bytes"
	"fmt"
	"os"
	"os/exec"
	"path/filepath"
	"sort"
	"strings"
	"sync"

	"f2gcheck/internal/report"
)

// expectedMiss lists witnesses the checks are known not to catch, with the reason (DESIGN §9).
var expectedMiss = map[string]string{
	"seeded/C06-a": "targets the steps form, whose range is not decided by design (needs a relational loop invariant)",
	"seeded/C07-a": "replaces the segment search of the step interpolation by a binary search on the truncated input: which segment is selected is not decided by design (relational); inside the chosen segment the expression stays monotone",
	"seeded/C15-c": "cursor-based delete that removes the neighbouring fan's entry: key discipline of the store is C14's subject (C14 R-bucket / R-results report it); C15's rules concern when data is loaded and saved",
	"seeded/C12-b": "targets the nearest-neighbour choice inside util.FindClosest, which is not decided by design (functional correctness of the search)",
	"seeded/C04-f": "changes a numeric gain of the default PID configuration (and the README with it): whether the closed loop settles for a given gain and tick is dynamics, not decided by design",
	"seeded/C06-h": "adds weights to the average function curve with a divisor that does not match the numerator: the average form is not decided by design (needs the relational fact total <= 255 * divisor)",
	"seeded/C06-g": "restarts the PID loop (output 0, integral cleared) after a pause: whether a PID curve agrees with its documented function is not decided by design (only the range clause is)",
	"seeded/C15-f": "changes the lock time-out constant of the database: how likely a load fails under contention is quantitative (timing), not decided by design",
}

type variantResult struct {
	Name       string   `json:"name"`
	Status     string   `json:"status"`
	Violations int      `json:"violations"`
	Rules      []string `json:"rules,omitempty"`
	Keys       []string `json:"keys,omitempty"`
	Note       string   `json:"note,omitempty"`
}

func runVariant(exe, prop, repo, verif string, args ...string) variantResult {
	cmd := exec.Command(exe, append([]string{"-prop", prop, "-tier", "quick", "-repo", repo, "-verif", verif}, args...)...)
	var out bytes.Buffer
	cmd.Stdout, cmd.Stderr = &out, &out
	cmd.Run()
	vr := variantResult{Status: "no-result"}
	for _, l := range strings.Split(out.String(), "\n") {
		if !strings.HasPrefix(l, "WITNESS-RESULT ") {
			continue
		}
		for _, f := range strings.Fields(strings.TrimPrefix(l, "WITNESS-RESULT ")) {
			kv := strings.SplitN(f, "=", 2)
			if len(kv) != 2 {
				continue
			}
			switch kv[0] {
			case "status":
				vr.Status = kv[1]
			case "violations":
				fmt.Sscanf(kv[1], "%d", &vr.Violations)
			case "rules":
				if kv[1] != "" {
					vr.Rules = strings.Split(kv[1], ",")
				}
			}
		}
		if i := strings.Index(l, " keys="); i >= 0 {
			if ks := l[i+len(" keys="):]; ks != "" {
				vr.Keys = strings.Split(ks, ";;")
			}
		}
	}
	return vr
}

// Thorough runs the thorough-tier passes: (1) the same rules under the netgo
// build tag (the Makefile's build) and under GOARCH=arm64, whose verdicts must
// equal the default configuration's; (2) an audit under the CHA call graph
// (a superset of edges; alarms that appear only there are listed, not failed);
// (3) the witness catalogue: every seeded change and every reverted repair of
// this property is applied in memory (packages.Config.Overlay) and must raise a
// violation that is not a known finding. Witness results describe the checker;
// only (1) can change the verdict on /repo. (4) the benign catalogue: behaviour-preserving
// refactorings (benign/*/*.diff, written by independent sub-agents) applied in memory must
// leave the verdict unchanged; an alarm there is a checker false alarm and is listed.
func Thorough(c *Ctx, prop, repo, verif, exe string, res *report.Result, findings []report.Finding) map[string]interface{} {
	out := map[string]interface{}{}
	base := res.Summarise(findings)
	baseKeys := strings.Join(base.Keys, ";;")

	type job struct {
		name string
		args []string
		kind string
	}
	var jobs []job
	jobs = append(jobs, job{"tags=netgo", []string{"-tags", "netgo"}, "config"})
	jobs = append(jobs, job{"GOARCH=arm64", []string{"-goarch", "arm64"}, "config"})
	jobs = append(jobs, job{"callgraph=CHA", []string{"-cha"}, "cha"})
	seeds, _ := filepath.Glob(filepath.Join(verif, "seeded", prop+"-*", "patch.diff"))
	sort.Strings(seeds)
	for _, s := range seeds {
		jobs = append(jobs, job{"seeded/" + filepath.Base(filepath.Dir(s)), []string{"-patch", s}, "witness"})
	}
	revs, _ := filepath.Glob(filepath.Join(verif, "witness", "revert-"+prop+"-*.patch"))
	// hand-written one-line mutants of the anchored mechanisms (checker self-test, DESIGN 9.5)
	muts, _ := filepath.Glob(filepath.Join(verif, "witness", "mutant-"+prop+"-*.patch"))
	revs = append(revs, muts...)
	sort.Strings(revs)
	for _, s := range revs {
		jobs = append(jobs, job{"witness/" + strings.TrimSuffix(filepath.Base(s), ".patch"), []string{"-patch", s}, "witness"})
	}
	benign, _ := filepath.Glob(filepath.Join(verif, "benign", "*", "*.diff"))
	sort.Strings(benign)
	for _, s := range benign {
		if strings.HasSuffix(s, ".tests.diff") {
			continue
		}
		jobs = append(jobs, job{"benign/" + filepath.Base(filepath.Dir(s)) + "/" + strings.TrimSuffix(filepath.Base(s), ".diff"), []string{"-patch", s}, "benign"})
	}
	results := make([]variantResult, len(jobs))
	sem := make(chan struct{}, 6)
	var wg sync.WaitGroup
	for i, j := range jobs {
		wg.Add(1)
		go func(i int, j job) {
			defer wg.Done()
			sem <- struct{}{}
			defer func() { <-sem }()
			r := runVariant(exe, prop, repo, verif, j.args...)
			r.Name = j.name
			results[i] = r
		}(i, j)
	}
	wg.Wait()

	fired, expected, skipped := 0, 0, 0
	benignTotal, benignSilent, benignSkipped := 0, 0, 0
	var benignAlarms []variantResult
	var witnessRes, configRes []variantResult
	for i, j := range jobs {
		r := results[i]
		switch j.kind {
		case "config":
			if r.Status != "ok" {
				r.Note = "variant could not be analysed"
				res.Undecided("config-variant", j.name, "(whole program)", "-", "the "+j.name+" build configuration could not be loaded/analysed: "+r.Status)
			} else if strings.Join(r.Keys, ";;") != baseKeys {
				r.Note = "verdict differs from the default configuration"
				res.Bad("config-variant", j.name, "(whole program)", "-", "under "+j.name+" the set of unlisted violations differs from the default build configuration: "+strings.Join(r.Keys, ", "))
			} else {
				res.Ok("config-variant", j.name, "(whole program)", "-", "same verdict as the default build configuration")
			}
			configRes = append(configRes, r)
		case "cha":
			extra := []string{}
			bk := map[string]bool{}
			for _, k := range base.Keys {
				bk[k] = true
			}
			for _, k := range r.Keys {
				if !bk[k] {
					extra = append(extra, k)
				}
			}
			r.Note = fmt.Sprintf("cha-only alarms (need review, do not fail the check): %d", len(extra))
			r.Keys = extra
			configRes = append(configRes, r)
		case "benign":
			switch {
			case r.Status != "ok":
				benignSkipped++
			case strings.Join(r.Keys, ";;") == baseKeys:
				benignSilent++
			default:
				r.Note = "FALSE ALARM on a behaviour-preserving refactoring"
				benignAlarms = append(benignAlarms, r)
			}
			benignTotal++
		case "witness":
			switch {
			case r.Status == "patch-does-not-apply":
				skipped++
				r.Note = "patch no longer applies to this tree (skipped)"
			case r.Status != "ok":
				skipped++
				r.Note = "mutant does not type-check / load (skipped)"
			default:
				expected++
				if why, miss := expectedMiss[j.name]; miss {
					expected--
					r.Note = "expected miss: " + why
				} else if r.Violations > 0 {
					fired++
				} else {
					r.Note = "NOT DETECTED"
				}
			}
			witnessRes = append(witnessRes, r)
		}
	}
	out["witnesses_fired"] = fired
	out["witnesses_expected"] = expected
	out["witnesses_skipped"] = skipped
	out["witness_results"] = witnessRes
	out["configuration_variants"] = configRes
	out["benign_refactorings_total"] = benignTotal
	out["benign_refactorings_silent"] = benignSilent
	out["benign_refactorings_skipped"] = benignSkipped
	out["benign_false_alarms"] = benignAlarms
	fmt.Printf("[%s] thorough: behaviour-preserving refactorings silent %d/%d (skipped %d)\n", prop, benignSilent, benignTotal-benignSkipped, benignSkipped)
	fmt.Printf("[%s] thorough: witnesses fired %d/%d (skipped %d); variants: %d\n", prop, fired, expected, skipped, len(configRes))
	for _, w := range witnessRes {
		fmt.Printf("[%s]   witness %-28s status=%s violations=%d %s %s\n", prop, w.Name, w.Status, w.Violations, strings.Join(w.Rules, ","), w.Note)
	}
	_ = os.Getenv
	return out
}
