package rules

import (
	"strings"

	"f2gcheck/internal/ir"

	"golang.org/x/tools/go/ssa"
)

func init() { Registry["C16"] = c16 }

// origModeFields finds the controller fields recorded from GetPwmEnabled in run.
func (c *Ctx) origModeFields(run *ssa.Function, tb *ir.TB) map[string]bool {
	orig := map[string]bool{}
	Instrs(run, func(ins ssa.Instruction) {
		st, ok := ins.(*ssa.Store)
		if !ok {
			return
		}
		fa, ok := st.Addr.(*ssa.FieldAddr)
		if !ok {
			return
		}
		if termHasCall(tb.Of(st.Val, nil), "fans.Fan.GetPwmEnabled") {
			_, name, _ := ir.FieldName(fa)
			orig[name] = true
		}
	})
	return orig
}

func c16(c *Ctx) {
	c.R.Explanation = "C16 decided by lock coverage (flag-specialised must-lockset, E5) on the SSA of /repo. The lock is discovered, not named: the sync.Mutex whose Lock call is control-dependent on the configuration flag RunFanInitializationInParallel being false. The analysis is an interprocedural typestate {unlocked, held} (Lock -> held, Unlock / deferred Unlock -> unlocked, callee summaries as state relations) specialised to flag == false (branches on the flag are followed only in the consistent direction). Rule: every Fan.SetPwm invoke reachable from a FanController.RunInitializationSequence implementation or from the start-up part of a FanController.Run implementation (everything Run calls directly; the run.Group actors are not part of start-up) is executed in state 'held' on every path; the restore routine (the functions that C03's typestate proves to hand the fan back) is excluded. Sound for mutual exclusion because two analyses overlap only if two goroutines are simultaneously inside code that drives a fan during analysis; if all such code holds one global mutex they cannot. With the flag true nothing is required. A go statement met in the analysis code is outside the spawner's lock coverage: if the goroutine's call tree can drive the fan, the spawner must join it (unconditional channel receive or WaitGroup.Wait; a receive inside a select with a timeout case is not a join) on every path before it returns - then it is analysed as a synchronous call; otherwise R-lock reports the go statement."
	c.R.Assumptions = append(c.R.Assumptions, "sync.Mutex semantics; the flag is not changed while the daemon runs (it is only stored by configuration loading)")
	tb := ir.NewTB(c.P.IsRepoFunc, c.P.FuncKey)
	tb.InlineMaxBlocks = 0

	isFlag := func(v ssa.Value) bool {
		t := tb.Of(v, nil)
		return t.Op == "field:RunFanInitializationInParallel"
	}
	// discover the lock
	var lock ssa.Value
	for _, fn := range c.P.Funcs {
		Calls(fn, func(cc ssa.CallInstruction) {
			if ir.CallName(cc) != "(*sync.Mutex).Lock" {
				return
			}
			if ir.HasBool(ir.BlockFacts(cc.Block()), false, isFlag) {
				lock = ir.Root(cc.Common().Args[0])
				c.R.Note("lock", tb.Of(cc.Common().Args[0], nil).String()+" (taken in "+c.FK(fn)+" when the flag is false)")
			}
		})
	}
	if lock == nil {
		c.R.Bad("R-lock", "no-lock", "(whole program)", "-", "no mutex is acquired under runFanInitializationInParallel == false: nothing serialises the fan analyses")
		return
	}
	// the flag is written only by configuration loading
	for _, fn := range c.P.Funcs {
		Instrs(fn, func(ins ssa.Instruction) {
			if st, ok := ins.(*ssa.Store); ok {
				if fa, ok := st.Addr.(*ssa.FieldAddr); ok {
					if _, n, _ := ir.FieldName(fa); n == "RunFanInitializationInParallel" {
						c.R.Bad("R-flag-stable", c.FK(fn), c.FK(fn), c.P.Pos(st.Pos()), "the flag is written at run time")
					}
				}
			}
		})
	}

	const stU, stH = 0, 1
	spec := ir.TSpec{
		N: 2,
		Instr: func(ins ssa.Instruction) []ir.Mask {
			cc, ok := ins.(ssa.CallInstruction)
			if !ok {
				return nil
			}
			if _, isGo := ins.(*ssa.Go); isGo {
				return nil
			}
			n := ir.CallName(cc)
			if (n == "(*sync.Mutex).Lock" || n == "(*sync.Mutex).Unlock" || n == "(*sync.Mutex).TryLock") && ir.Root(cc.Common().Args[0]) == lock {
				if n == "(*sync.Mutex).Lock" {
					return ir.AllTo(2, stH)
				}
				if n == "(*sync.Mutex).Unlock" {
					return ir.AllTo(2, stU)
				}
			}
			return nil
		},
		Edge: func(b *ssa.BasicBlock, si int) []ir.Mask {
			// specialise on flag == false: kill edges that establish flag == true
			if ir.HasBool(ir.EdgeFacts(b, si), true, isFlag) {
				return []ir.Mask{0, 0}
			}
			return nil
		},
		Callees:  func(call ssa.CallInstruction) []*ssa.Function { return c.Callees(call) },
		NoReturn: func(ins ssa.Instruction) bool { return c.noReturnCall(ins) },
		GoAsCall: func(g *ssa.Go) bool { return ir.JoinedOnAllPaths(g) == nil },
	}

	runs := c.ImplMethods(PkgCtrl, "FanController", "Run")
	inits := c.ImplMethods(PkgCtrl, "FanController", "RunInitializationSequence")
	// restore functions (excluded)
	restore := map[*ssa.Function]bool{}
	for _, run := range runs {
		orig := c.origModeFields(run, tb)
		rs := ir.NewTS(c.restoreSpec(orig, tb))
		for f := range c.Closure([]*ssa.Function{run}, true, nil) {
			if load_FuncPkgPath(f) == PkgCtrl && rs.Summary(f, stNot) == ir.Bit(stOK) && f != run {
				restore[f] = true
				c.R.Note("restore functions (excluded)", c.FK(f))
			}
		}
	}
	entries := map[*ssa.Function]string{}
	for _, f := range inits {
		entries[f] = "RunInitializationSequence"
	}
	for _, f := range runs {
		entries[f] = "start-up part of Run"
	}
	total := 0
	for _, entry := range c.SortedFuncs(func() map[*ssa.Function]bool {
		m := map[*ssa.Function]bool{}
		for f := range entries {
			m[f] = true
		}
		return m
	}()) {
		ts := ir.NewTS(spec)
		type site struct {
			fn  *ssa.Function
			ins ssa.Instruction
		}
		bad := map[site]bool{}
		okSites := map[site]bool{}
		ts.Run(entry, ir.Bit(stU), func(fn *ssa.Function, ins ssa.Instruction, m ir.Mask) {
			cc, ok := ins.(ssa.CallInstruction)
			if g, isGo := ins.(*ssa.Go); isGo && m != 0 {
				c.ruleSpawn("R-lock", entries[entry], fn, g, restore)
				return
			}
			if !ok || !isFanInvoke(cc, "SetPwm") || m == 0 || restore[fn] {
				return
			}
			if m.Has(stU) {
				bad[site{fn, ins}] = true
			} else {
				okSites[site{fn, ins}] = true
			}
		})
		for s := range bad {
			total++
			c.R.Bad("R-lock", entries[entry]+"|"+c.FK(s.fn), c.FK(s.fn), c.P.Pos(s.ins.Pos()), "with runFanInitializationInParallel=false this Fan.SetPwm (reached from "+c.FK(entry)+") can execute without holding the initialisation mutex: two fans can be analysed at the same time")
		}
		seen := map[string]bool{}
		for s := range okSites {
			if bad[s] {
				continue
			}
			total++
			k := entries[entry] + "|" + c.FK(s.fn)
			if seen[k] {
				continue
			}
			seen[k] = true
			c.R.Ok("R-lock", k, c.FK(s.fn), c.P.Pos(s.ins.Pos()), "Fan.SetPwm reached from "+c.FK(entry)+" only with the initialisation mutex held (flag=false)")
		}
	}
	if total == 0 {
		c.R.Undecided("R-lock", "no-sites", "analysis entry points", "-", "no Fan.SetPwm reachable from the analysis entry points (anchor unresolved)")
	}

	// ---- R-atomic: one analysis (RunInitializationSequence) holds the mutex without a gap ---------
	// states: 0 = no fan write yet, 1 = analysis in progress, 2 = mutex released after the analysis began,
	// 3 = fan driven again after such a release (another fan's analysis may have started in the gap)
	aspec := ir.TSpec{
		N: 4,
		Instr: func(ins ssa.Instruction) []ir.Mask {
			cc, ok := ins.(ssa.CallInstruction)
			if !ok {
				return nil
			}
			if isFanInvoke(cc, "SetPwm") && !restore[ins.Parent()] {
				return []ir.Mask{ir.Bit(1), ir.Bit(1), ir.Bit(3), ir.Bit(3)}
			}
			if ir.CallName(cc) == "(*sync.Mutex).Unlock" && ir.Root(cc.Common().Args[0]) == lock {
				return []ir.Mask{ir.Bit(0), ir.Bit(2), ir.Bit(2), ir.Bit(3)}
			}
			return nil
		},
		Edge:     spec.Edge,
		Callees:  spec.Callees,
		NoReturn: spec.NoReturn,
	}
	for _, entry := range inits {
		ts := ir.NewTS(aspec)
		bad := ""
		ts.Run(entry, ir.Bit(0), func(fn *ssa.Function, ins ssa.Instruction, m ir.Mask) {
			if cc, ok := ins.(ssa.CallInstruction); ok && isFanInvoke(cc, "SetPwm") && !restore[fn] && m.Has(2) {
				bad = c.FK(fn) + " at " + c.P.Pos(ins.Pos())
			}
		})
		key := c.FK(entry)
		if bad != "" {
			c.R.Bad("R-atomic", key, key, "-", "with runFanInitializationInParallel=false the initialisation mutex is released and re-acquired in the middle of one fan's analysis (fan driven again in "+bad+" after an Unlock): another fan's analysis can start in the gap, so two analyses are in progress at the same time")
		} else {
			c.R.Ok("R-atomic", key, key, c.P.Pos(entry.Pos()), "the mutex is held without a gap from the first to the last fan write of one analysis")
		}
	}
	c.R.Require("R-atomic", 1)
	c.R.Require("R-lock", 2)
	_ = strings.HasPrefix
}

// ruleSpawn: a goroutine started by the analysis code is outside the spawner's lock coverage (the mutex is held by
// the spawning activation, not by the new goroutine). If the goroutine can drive the fan, the spawner must wait for
// it on every path before it returns: an unconditional channel receive or WaitGroup.Wait on all paths from the go
// statement to the function's exits. A wait inside a select with another ready case (a timeout) is not a join.
func (c *Ctx) ruleSpawn(rule, entryName string, fn *ssa.Function, g *ssa.Go, restore map[*ssa.Function]bool) {
	drives := ""
	for _, f := range c.SortedFuncs(c.Closure(c.Callees(g), true, nil)) {
		if restore[f] {
			continue
		}
		Calls(f, func(cc ssa.CallInstruction) {
			if isFanInvoke(cc, "SetPwm") && drives == "" {
				drives = c.FK(f)
			}
		})
	}
	if drives == "" {
		return
	}
	key := entryName + "|go|" + c.FK(fn)
	escaped := ""
	if r := ir.JoinedOnAllPaths(g); r != nil {
		escaped = c.P.Pos(r.Pos())
	}
	if escaped != "" {
		c.R.Bad(rule, key, c.FK(fn), c.P.Pos(g.Pos()), "analysis work that drives the fan ("+drives+") is handed to a goroutine and the spawner can return (at "+escaped+") without having waited for it: the initialisation mutex is released while that goroutine still writes PWM values, so two fans are analysed at the same time")
	} else {
		c.R.Ok(rule, key, c.FK(fn), c.P.Pos(g.Pos()), "the goroutine that drives the fan is joined (unconditional receive / WaitGroup.Wait) on every path before the spawner returns")
	}
}

