package rules

import (
	"go/token"
	"go/types"
	"strings"

	"f2gcheck/internal/ir"

	"golang.org/x/tools/go/ssa"
)

func init() { Registry["C18"] = c18 }

// processCreators: library entry points that start a process; value = index of the program argument.
var processCreators = map[string]int{
	"os/exec.Command":        0,
	"os/exec.CommandContext": 1,
	"os.StartProcess":        0,
	"syscall.Exec":           0,
	"syscall.ForkExec":       0,
	"syscall.StartProcess":   0,
}

func c18(c *Ctx) {
	c.R.Explanation = "C18 decided at the level of code paths (SSA of /repo): R-who = every process-creating call (exec.Command*, os.StartProcess, syscall.Exec/ForkExec, literal exec.Cmd) with a non-constant program lies in the one function that performs the permission check; R-dominate = that call is reachable only through the nil-error edge of CheckFilePermissionsForExecution applied to the same SSA value, in the same activation (=> repeated before every execution; the check writes no package-level state), and the error edge returns a non-nil error; R-samefile = no repository code stores to Dir, Path, Args or SysProcAttr of an exec.Cmd (the program string is resolved identically by the check and by the start); R-predicate = every nil-error return of the check crossed edges establishing Uid==0, (Gid==0 or mode&0o020==0), mode&0o002==0 on os.Stat of the EvalSymlinks result; R-config = configuration.Validate applies the check to the config path, a failure yields an error on all paths, and it can be skipped only when neither a cmd fan nor a cmd sensor exists; R-gate = RunDaemon is entered only after Validate succeeded. R-once = after a process-creating call with a non-constant program (or a call of a creator wrapper) no further such call is reachable in the same activation without crossing the nil-error edge of a new check (no retry loop around the start). Not decided: TOCTOU between check and exec (outside the statement)."
	c.R.Assumptions = append(c.R.Assumptions,
		"os/exec, os.Stat, filepath.EvalSymlinks and syscall.Stat_t behave as documented (library summary table)",
		"constant-program exec calls (who, id, sudo in the desktop notifier) are not sensor/fan commands")
	tb := ir.NewTB(c.P.IsRepoFunc, c.P.FuncKey)

	check := c.Func(PkgUtil, "CheckFilePermissionsForExecution")
	if check == nil {
		return
	}

	// checker functions: the base check, plus any repository function that can
	// return a nil error only after a checker succeeded on its own parameter
	checkers := c.checkerFuncs(check)
	for f, pi := range checkers {
		c.R.Note("checker functions", sprintf("%s (parameter #%d)", c.FK(f), pi))
	}

	// creator wrappers: repository functions that hand one of their own parameters on as the program of a
	// process-creating call (newCommand(ctx, program, args)); their call sites are the sites to guard
	wrappers := map[*ssa.Function]int{}
	for changed := true; changed; {
		changed = false
		for _, fn := range c.P.Funcs {
			if _, done := wrappers[fn]; done || len(fn.Blocks) == 0 {
				continue
			}
			callsCheck := false
			Calls(fn, func(cc ssa.CallInstruction) {
				if st := ir.Callee(cc).Static; st != nil {
					if _, ok := checkers[st]; ok {
						callsCheck = true
					}
				}
			})
			if callsCheck {
				continue
			}
			Calls(fn, func(cc ssa.CallInstruction) {
				call, ok := cc.(*ssa.Call)
				if !ok {
					return
				}
				argi, isPC := processCreators[ir.CallName(call)]
				if !isPC {
					st := ir.Callee(call).Static
					if st == nil {
						return
					}
					if argi, isPC = wrappers[st]; !isPC {
						return
					}
				}
				if argi >= len(call.Call.Args) {
					return
				}
				if p, isParam := ir.Resolve(call.Call.Args[argi]).(*ssa.Parameter); isParam && p.Parent() == fn {
					for i, q := range fn.Params {
						if q == p {
							if _, done := wrappers[fn]; !done {
								wrappers[fn] = i
								changed = true
							}
						}
					}
				}
			})
		}
	}
	for f, pi := range wrappers {
		c.R.Note("process-creating wrappers", sprintf("%s (program = parameter #%d)", c.FK(f), pi))
	}

	// ---- R-who ------------------------------------------------------------
	var execFn *ssa.Function
	var execCall *ssa.Call
	nSites := 0
	for _, fn := range c.P.Funcs {
		Instrs(fn, func(ins ssa.Instruction) {
			if al, ok := ins.(*ssa.Alloc); ok {
				if n := ir.NamedOf(al.Type()); n != nil && n.Obj().Pkg() != nil && n.Obj().Pkg().Path() == "os/exec" && n.Obj().Name() == "Cmd" {
					c.R.Bad("R-who", c.FK(fn)+"|exec.Cmd literal", c.FK(fn), c.P.Pos(al.Pos()), "an exec.Cmd is built by hand (bypasses the checked entry point)")
				}
			}
			call, ok := ins.(*ssa.Call)
			if !ok {
				return
			}
			name := ir.CallName(call)
			argi, isPC := processCreators[name]
			if !isPC {
				if st := ir.Callee(call).Static; st != nil {
					if wi, isW := wrappers[st]; isW {
						argi, isPC = wi, true
					}
				}
			}
			if !isPC || argi >= len(call.Call.Args) {
				return
			}
			if _, inWrapper := wrappers[fn]; inWrapper {
				if p, isParam := ir.Resolve(call.Call.Args[argi]).(*ssa.Parameter); isParam && p.Parent() == fn {
					return // judged at the wrapper's call sites
				}
			}
			nSites++
			prog := call.Call.Args[argi]
			if s, ok := ir.ConstString(prog); ok {
				c.R.Ok("R-who", c.FK(fn)+"|"+name+"|const:"+s, c.FK(fn), c.P.Pos(call.Pos()), "constant program "+s+" (named exception: not a sensor/fan command)")
				return
			}
			// non-constant program: must be in a function that calls the check
			callsCheck := false
			Calls(fn, func(cc ssa.CallInstruction) {
				if _, ok := checkers[ir.Callee(cc).Static]; ok && ir.Callee(cc).Static != nil {
					callsCheck = true
				}
			})
			if !callsCheck {
				c.R.Bad("R-who", c.FK(fn)+"|"+name, c.FK(fn), c.P.Pos(call.Pos()), "process created with a non-constant program outside the permission-checked entry point")
				return
			}
			c.R.Ok("R-who", c.FK(fn)+"|"+name, c.FK(fn), c.P.Pos(call.Pos()), "non-constant program, inside the function that performs the permission check")
			if execFn == nil {
				execFn, execCall = fn, call
			} else {
				// several checked exec sites: each is verified by R-dominate below via the loop
			}
			c.ruleDominate(fn, call, prog, checkers)
		})
	}
	c.R.Require("R-who", 1)
	c.R.Require("R-dominate", 1)
	_ = execCall

	// ---- R-once: one successful check licenses one process start ----------------
	// From the point after a process-creating call with a non-constant program (or a call of a creator wrapper)
	// no such call is reachable again in the same activation without crossing the nil-error edge of a check:
	// a retry loop around the start would run the file a second time on the verdict of the first check.
	nOnce := 0
	for _, fn := range c.P.Funcs {
		var creators []*ssa.Call
		Calls(fn, func(cc ssa.CallInstruction) {
			call, ok := cc.(*ssa.Call)
			if !ok {
				return
			}
			argi, isPC := processCreators[ir.CallName(call)]
			if !isPC {
				if st := ir.Callee(call).Static; st != nil {
					if wi, isW := wrappers[st]; isW {
						argi, isPC = wi, true
					}
				}
			}
			if !isPC || argi >= len(call.Call.Args) {
				return
			}
			if _, isConst := ir.ConstString(call.Call.Args[argi]); isConst {
				return
			}
			creators = append(creators, call)
		})
		if len(creators) == 0 {
			continue
		}
		var okEdges []edge
		Calls(fn, func(cc ssa.CallInstruction) {
			call, isCall := cc.(*ssa.Call)
			if !isCall || ir.Callee(cc).Static == nil {
				return
			}
			if _, isChecker := checkers[ir.Callee(cc).Static]; !isChecker {
				return
			}
			if ev := errValueOfCall(call); ev != nil {
				okEdges = append(okEdges, nilEdges(fn, ev, false)...)
			}
		})
		isOK := func(b *ssa.BasicBlock, si int) bool {
			for _, e := range okEdges {
				if e.b == b && e.si == si {
					return true
				}
			}
			return false
		}
		for _, cr := range creators {
			nOnce++
			key := c.FK(fn) + "|" + ir.CallName(cr)
			var again *ssa.Call
			ir.Search{StopEdge: isOK}.Reach([]ir.Point{ir.After(cr)}, func(ins ssa.Instruction, _ *ssa.BasicBlock) {
				for _, other := range creators {
					if ins == ssa.Instruction(other) && again == nil {
						again = other
					}
				}
			})
			if again != nil {
				c.R.Bad("R-once", key, c.FK(fn), c.P.Pos(again.Pos()), "after the process-creating call at "+c.P.Pos(cr.Pos())+" a process-creating call is reachable again without a new permission check (retry loop / second start): the file is executed on the verdict of an earlier check, although its owner or mode may have changed since")
			} else {
				c.R.Ok("R-once", key, c.FK(fn), c.P.Pos(cr.Pos()), "no further process-creating call is reachable after this one without crossing the nil-error edge of a new check")
			}
		}
	}
	if nOnce == 0 {
		c.R.Undecided("R-once", "none", "(whole program)", "-", "no process-creating call with a non-constant program found (anchor unresolved)")
	}
	c.R.Stats["process_creating_call_sites"] = nSites

	// the check must not memoise: no store to a package-level variable in its call tree
	memo := ""
	for fn := range c.Closure([]*ssa.Function{check}, true, nil) {
		Instrs(fn, func(ins ssa.Instruction) {
			if st, ok := ins.(*ssa.Store); ok {
				if g, ok := st.Addr.(*ssa.Global); ok {
					memo = g.Name() + " at " + c.P.Pos(st.Pos())
				}
				if fa, ok := st.Addr.(*ssa.FieldAddr); ok {
					if g, ok := fa.X.(*ssa.Global); ok {
						memo = g.Name() + " at " + c.P.Pos(st.Pos())
					}
				}
			}
			if mu, ok := ins.(*ssa.MapUpdate); ok {
				if u, ok := mu.Map.(*ssa.UnOp); ok {
					if g, ok := u.X.(*ssa.Global); ok {
						memo = g.Name() + " at " + c.P.Pos(mu.Pos())
					}
				}
			}
		})
	}
	if memo != "" {
		c.R.Bad("R-nomemo", c.FK(check), c.FK(check), "-", "the permission check writes package-level state ("+memo+"): its verdict could be reused instead of re-evaluated before every execution")
	} else {
		c.R.Ok("R-nomemo", c.FK(check), c.FK(check), c.P.Pos(check.Pos()), "the permission check and its callees write no package-level variable")
	}

	// callers of the checked entry point must not wrap it in a cache either:
	// every Fan/Sensor cmd method calls it directly (who-may-call is covered by R-who)

	// ---- R-samefile: what is started is the file that was checked ---------------------------
	// the check and exec.Command* receive the same string; that string names the same file for both only
	// if nothing changes how it is resolved in between: no store to Cmd.Dir (a relative program is
	// resolved against Dir), Cmd.Path or Cmd.Args[0] after the command was created.
	nsf := 0
	for _, fn := range c.P.Funcs {
		if !c.P.IsRepoFunc(fn) {
			continue
		}
		Instrs(fn, func(ins ssa.Instruction) {
			st, ok := ins.(*ssa.Store)
			if !ok {
				return
			}
			fa, ok := st.Addr.(*ssa.FieldAddr)
			if !ok {
				return
			}
			o, name, ok := ir.FieldName(fa)
			if !ok || o == nil || o.Obj().Pkg() == nil || o.Obj().Pkg().Path() != "os/exec" || o.Obj().Name() != "Cmd" {
				return
			}
			switch name {
			case "Dir", "Path", "Args", "SysProcAttr":
				nsf++
				c.R.Bad("R-samefile", c.FK(fn)+"|Cmd."+name, c.FK(fn), c.P.Pos(st.Pos()), "exec.Cmd."+name+" is changed after the command was created: the program string that passed the permission check is then resolved differently (a relative path is looked up under Cmd.Dir), so a file that was never checked can be started")
			}
		})
	}
	if nsf == 0 {
		c.R.Ok("R-samefile", c.FK(check), c.FK(check), c.P.Pos(check.Pos()), "no repository code changes Dir, Path, Args or SysProcAttr of an exec.Cmd: the checked string is resolved the same way by the check and by the start")
	}

	// ---- R-predicate --------------------------------------------------------
	c.rulePredicate(check, tb)

	// ---- R-config -----------------------------------------------------------
	c.ruleConfig(check, tb)

	// ---- R-gate -------------------------------------------------------------
	c.ruleGate()
}

// ruleDominate: no path from entry to the exec call avoids the nil-error edge
// of a check call on the same SSA value; the error edge returns non-nil.
func (c *Ctx) ruleDominate(fn *ssa.Function, execCall *ssa.Call, prog ssa.Value, checkers map[*ssa.Function]int) {
	key := c.FK(fn) + "|" + ir.CallName(execCall)
	var okEdges []edge
	var checkCalls []*ssa.Call
	Calls(fn, func(cc ssa.CallInstruction) {
		call, isCall := cc.(*ssa.Call)
		if !isCall || ir.Callee(cc).Static == nil {
			return
		}
		pi, isChecker := checkers[ir.Callee(cc).Static]
		if !isChecker || pi >= len(call.Call.Args) {
			return
		}
		if ir.Resolve(call.Call.Args[pi]) != ir.Resolve(prog) {
			return
		}
		checkCalls = append(checkCalls, call)
		if ev := errValueOfCall(call); ev != nil {
			okEdges = append(okEdges, nilEdges(fn, ev, false)...)
		}
	})
	if len(checkCalls) == 0 {
		c.R.Bad("R-dominate", key, c.FK(fn), c.P.Pos(execCall.Pos()), "the permission check is not applied to the same value that is executed")
		return
	}
	isOK := func(b *ssa.BasicBlock, si int) bool {
		for _, e := range okEdges {
			if e.b == b && e.si == si {
				return true
			}
		}
		return false
	}
	reached := false
	ir.Search{StopEdge: isOK}.Reach([]ir.Point{{Block: fn.Blocks[0]}}, func(ins ssa.Instruction, _ *ssa.BasicBlock) {
		if ins == ssa.Instruction(execCall) {
			reached = true
		}
	})
	if reached {
		c.R.Bad("R-dominate", key, c.FK(fn), c.P.Pos(execCall.Pos()), "the process-creating call is reachable on a path that does not cross the nil-error edge of CheckFilePermissionsForExecution(program)")
	} else {
		c.R.Ok("R-dominate", key, c.FK(fn), c.P.Pos(execCall.Pos()), "every path to the process-creating call crosses the nil-error edge of the check on the same SSA value, in the same activation")
	}
	// error edge => non-nil error, and the exec call is not reachable from it
	n := c.checkErrorPropagation("R-dominate-err", fn, func(call *ssa.Call) bool {
		_, ok := checkers[ir.Callee(call).Static]
		return ok && ir.Callee(call).Static != nil
	})
	if n == 0 {
		c.R.Bad("R-dominate-err", key, c.FK(fn), c.P.Pos(execCall.Pos()), "the error of the permission check is not examined")
	}
}

func (c *Ctx) rulePredicate(check *ssa.Function, tb *ir.TB) {
	fk := c.FK(check)
	// terms are built with parameters of helpers resolved to the arguments of their call sites
	tbp := ir.NewTB(c.P.IsRepoFunc, c.P.FuncKey)
	tbp.ParamCallers = c.StaticCallers
	termOf := func(v ssa.Value, f ir.Fact) *ir.Term {
		if f.Via != nil {
			if env := tbp.EnvOfCall(f.Via, nil); env != nil {
				return tbp.Of(v, env)
			}
		}
		return tbp.Of(v, nil)
	}
	// the stat'ed path must be the EvalSymlinks result of the parameter
	onResolved := func(t *ir.Term) bool {
		st := t.Find(func(x *ir.Term) bool { return x.Op == "call:os.Stat" || x.Op == "call:os.Lstat" })
		if st == nil || st.Op != "call:os.Stat" {
			return false
		}
		return st.Args[0].Has(func(x *ir.Term) bool {
			return x.Op == "call:path/filepath.EvalSymlinks" && len(x.Args) == 1 && strings.HasPrefix(x.Args[0].Op, "param:")
		})
	}
	statField := func(v ssa.Value, field string, f ir.Fact) bool {
		t := termOf(v, f)
		return t.Op == "field:"+field && onResolved(t)
	}
	modeBit := func(v ssa.Value, bit int64, f ir.Fact) bool {
		b, ok := ir.Resolve(v).(*ssa.BinOp)
		if !ok || b.Op != token.AND {
			return false
		}
		for _, p := range [][2]ssa.Value{{b.X, b.Y}, {b.Y, b.X}} {
			if k, ok := ir.ConstInt(f.ArgFor(ir.Resolve(p[1]))); ok && k == bit {
				t := termOf(p[0], f)
				if strings.HasPrefix(t.Op, "invoke:") && strings.HasSuffix(t.Op, "FileInfo.Mode") && onResolved(t) {
					return true
				}
			}
		}
		return false
	}
	isZero := func(v ssa.Value, f ir.Fact) bool { k, ok := ir.ConstInt(f.ArgFor(v)); return ok && k == 0 }
	eqlZero := func(fs []ir.Fact, match func(x ssa.Value, f ir.Fact) bool) bool {
		for _, f := range fs {
			if f.Op != token.EQL || f.X == nil || f.Y == nil {
				continue
			}
			if (match(f.X, f) && isZero(f.Y, f)) || (match(f.Y, f) && isZero(f.X, f)) {
				return true
			}
		}
		return false
	}
	type clause struct {
		name string
		est  func(fs []ir.Fact) bool
	}
	clauses := []clause{
		{"owner uid == 0", func(fs []ir.Fact) bool {
			return eqlZero(fs, func(x ssa.Value, f ir.Fact) bool { return statField(x, "Uid", f) })
		}},
		{"gid == 0 or no group write (mode&0o020 == 0)", func(fs []ir.Fact) bool {
			return eqlZero(fs, func(x ssa.Value, f ir.Fact) bool { return statField(x, "Gid", f) }) ||
				eqlZero(fs, func(x ssa.Value, f ir.Fact) bool { return modeBit(x, 0o020, f) })
		}},
		{"no other write (mode&0o002 == 0)", func(fs []ir.Fact) bool {
			return eqlZero(fs, func(x ssa.Value, f ir.Fact) bool { return modeBit(x, 0o002, f) })
		}},
	}
	// establishes: the edge establishes the clause by its own facts, or it is the nil-error edge of a
	// sub-check (a helper with an error result all of whose nil-error returns crossed such an edge)
	var subEstablishes func(h *ssa.Function, cl clause, depth int) bool
	establishes := func(cl clause, b *ssa.BasicBlock, si int, depth int) bool {
		fs := ir.EdgeFacts(b, si)
		if cl.est(fs) {
			return true
		}
		for _, f := range fs {
			if f.Op != token.EQL || !ir.IsNilConst(f.Y) || f.X == nil {
				continue
			}
			var call *ssa.Call
			switch x := ir.Resolve(f.X).(type) {
			case *ssa.Call:
				call = x
			case *ssa.Extract:
				call, _ = x.Tuple.(*ssa.Call)
			}
			if call == nil {
				continue
			}
			h := ir.Callee(call).Static
			if h == nil || h == check || len(h.Blocks) == 0 || load_FuncPkgPath(h) != load_FuncPkgPath(check) || errResultIndex(h) < 0 || depth > 2 {
				continue
			}
			if subEstablishes(h, cl, depth+1) {
				return true
			}
		}
		return false
	}
	subEstablishes = func(h *ssa.Function, cl clause, depth int) bool {
		hei := errResultIndex(h)
		ok := true
		for _, rv := range returnsFrom([]ir.Point{{Block: h.Blocks[0]}}, ir.Search{StopEdge: func(b *ssa.BasicBlock, si int) bool { return establishes(cl, b, si, depth) }}) {
			facts := factsAt(rv.ret.Block(), rv.via)
			if mayBeNilError(rv.ret.Results[hei], facts) && mayBeNilError(ir.ResultVia(rv.ret, hei, rv.via), facts) {
				ok = false
			}
		}
		return ok
	}
	ei := errResultIndex(check)
	if ei < 0 {
		c.R.Undecided("R-predicate", fk, fk, "-", "check function has no error result")
		return
	}
	for _, cl := range clauses {
		cl := cl
		stop := func(b *ssa.BasicBlock, si int) bool { return establishes(cl, b, si, 0) }
		bad := ""
		for _, rv := range returnsFrom([]ir.Point{{Block: check.Blocks[0]}}, ir.Search{StopEdge: stop}) {
			facts := factsAt(rv.ret.Block(), rv.via)
			if mayBeNilError(rv.ret.Results[ei], facts) && mayBeNilError(ir.ResultVia(rv.ret, ei, rv.via), facts) {
				bad = c.P.Pos(rv.ret.Pos())
			}
		}
		if bad != "" {
			c.R.Bad("R-predicate", fk+"|"+cl.name, fk, bad, "a nil-error return is reachable without crossing an edge that establishes: "+cl.name+" (on os.Stat of the EvalSymlinks result)")
		} else {
			c.R.Ok("R-predicate", fk+"|"+cl.name, fk, c.P.Pos(check.Pos()), "every path to a nil-error return crosses an edge establishing: "+cl.name)
		}
	}
	c.R.Require("R-predicate", 3)
	// callers use the error result (not the bool) as the verdict; the bool must agree: true only with nil error
	for _, r := range ir.Returns(check) {
		if b, ok := ir.ConstBool(r.Results[0]); ok && b && !ir.IsNilConst(r.Results[ei]) {
			c.R.Bad("R-predicate", fk+"|bool-agrees", fk, c.P.Pos(r.Pos()), "returns true together with a non-nil error")
		}
	}
}

// cmdExistenceHelper verifies that fn returns true whenever some element of
// CurrentConfig.<listField> has a non-nil Cmd, and false only after the whole list was scanned.
func (c *Ctx) cmdExistenceHelper(fn *ssa.Function, listField string, tb *ir.TB) (bool, string) {
	if fn == nil || len(fn.Blocks) == 0 || fn.Signature.Results().Len() != 1 {
		return false, "not a boolean helper"
	}
	var testEdges []edge // edges on which elem.Cmd != nil
	var testBlocks []*ssa.BasicBlock
	for _, b := range fn.Blocks {
		for si := range b.Succs {
			fs := ir.EdgeFacts(b, si)
			if ir.HasFact(fs, token.NEQ, func(x, y ssa.Value) bool {
				if !ir.IsNilConst(y) {
					return false
				}
				t := tb.Of(x, nil)
				return t.Op == "field:Cmd" && t.Has(func(z *ir.Term) bool { return z.Op == "field:"+listField })
			}) {
				testEdges = append(testEdges, edge{b, si})
				testBlocks = append(testBlocks, b)
			}
		}
	}
	if len(testEdges) == 0 {
		return false, "no test `<element of " + listField + ">.Cmd != nil` found"
	}
	// (ii) from the != nil edge every return is `true`
	for _, rv := range returnsFrom(edgeStarts(testEdges), ir.Search{}) {
		if b, ok := ir.ConstBool(ir.ResultVia(rv.ret, 0, rv.via)); !ok || !b {
			return false, "a path from `.Cmd != nil` does not return true (" + c.P.Pos(rv.ret.Pos()) + ")"
		}
	}
	// (iii) a non-true return is only reachable from the test's other edge by going round the loop again
	for i, b := range testBlocks {
		other := 1 - testEdges[i].si
		head := loopHead(b)
		if head == nil {
			return false, "the Cmd test is not inside a loop over " + listField
		}
		bad := false
		ir.Search{StopInstr: func(ins ssa.Instruction) bool { return ins.Block() == head }}.Reach([]ir.Point{ir.EdgeStart(b, other)}, func(ins ssa.Instruction, via *ssa.BasicBlock) {
			if r, ok := ins.(*ssa.Return); ok {
				if v, ok := ir.ConstBool(ir.ResultVia(r, 0, via)); !ok || !v {
					bad = true
				}
			}
		})
		if bad {
			return false, "the scan can give up (return false) before all elements were examined"
		}
	}
	return true, ""
}

// loopHead returns the innermost loop header dominating b that b can reach (nil if none).
func loopHead(b *ssa.BasicBlock) *ssa.BasicBlock {
	for d := b; d != nil; d = d.Idom() {
		// d is a loop head for b if some predecessor of d is reachable from b
		reach := map[*ssa.BasicBlock]bool{}
		var walk func(x *ssa.BasicBlock)
		walk = func(x *ssa.BasicBlock) {
			if reach[x] {
				return
			}
			reach[x] = true
			for _, s := range x.Succs {
				if s != d {
					walk(s)
				}
			}
		}
		walk(b)
		for _, p := range d.Preds {
			if reach[p] && d.Dominates(p) {
				return d
			}
		}
	}
	return nil
}

func (c *Ctx) ruleConfig(check *ssa.Function, tb *ir.TB) {
	validate := c.Func(PkgConf, "Validate")
	if validate == nil {
		return
	}
	cl := c.Closure([]*ssa.Function{validate}, false, nil)
	found := 0
	for _, fn := range c.SortedFuncs(cl) {
		var checkCall *ssa.Call
		Calls(fn, func(cc ssa.CallInstruction) {
			if call, ok := cc.(*ssa.Call); ok && ir.Callee(cc).Static == check {
				checkCall = call
			}
		})
		if checkCall == nil {
			continue
		}
		found++
		key := c.FK(fn)
		// argument must be the config path handed to Validate: a parameter of fn bound to Validate's parameter
		argT := tb.Of(checkCall.Call.Args[0], nil)
		pathOK := false
		if strings.HasPrefix(argT.Op, "param:") {
			par, _ := ir.Resolve(checkCall.Call.Args[0]).(*ssa.Parameter)
			if fn == validate {
				pathOK = true
			} else if par != nil {
				// find the call from Validate's closure passing Validate's own parameter
				for caller := range cl {
					Calls(caller, func(cc ssa.CallInstruction) {
						if ir.Callee(cc).Static == fn {
							for i, p := range fn.Params {
								if p == par && i < len(cc.Common().Args) {
									if pp, ok := ir.Resolve(cc.Common().Args[i]).(*ssa.Parameter); ok && pp.Parent() == validate {
										pathOK = true
									}
								}
							}
						}
					})
				}
			}
		}
		if pathOK {
			c.R.Ok("R-config", key+"|path", key, c.P.Pos(checkCall.Pos()), "the permission check is applied to the configuration path given to Validate")
		} else {
			c.R.Bad("R-config", key+"|path", key, c.P.Pos(checkCall.Pos()), "the permission check in the validator is not applied to the configuration path ("+argT.String()+")")
		}
		// failure => non-nil error
		c.checkErrorPropagation("R-config-err", fn, func(call *ssa.Call) bool { return call == checkCall })
		// skipping the check: every path from entry to a nil-error return that avoids the check call
		// must cross "no cmd sensors" and "no cmd fans"
		ei := errResultIndex(fn)
		for _, kind := range []string{"Sensors", "Fans"} {
			kind := kind
			helperOK := map[*ssa.Function]string{}
			est := func(fs []ir.Fact) bool {
				return ir.HasBool(fs, false, func(v ssa.Value) bool {
					call, ok := v.(*ssa.Call)
					if !ok {
						return false
					}
					h := ir.Callee(call).Static
					if h == nil || !c.P.IsRepoFunc(h) {
						return false
					}
					if _, done := helperOK[h]; !done {
						ok, why := c.cmdExistenceHelper(h, kind, tb)
						if ok {
							helperOK[h] = ""
						} else {
							helperOK[h] = why
						}
					}
					return helperOK[h] == ""
				})
			}
			bad := ""
			for _, rv := range returnsFrom([]ir.Point{{Block: fn.Blocks[0]}}, ir.Search{
				StopInstr: func(ins ssa.Instruction) bool { return ins == ssa.Instruction(checkCall) },
				StopEdge:  func(b *ssa.BasicBlock, si int) bool { return est(ir.EdgeFacts(b, si)) },
			}) {
				facts := factsAt(rv.ret.Block(), rv.via)
				if ei >= 0 && mayBeNilError(rv.ret.Results[ei], facts) && mayBeNilError(ir.ResultVia(rv.ret, ei, rv.via), facts) {
					bad = c.P.Pos(rv.ret.Pos())
				}
			}
			if bad != "" {
				why := ""
				for h, w := range helperOK {
					if w != "" {
						why += " [" + c.FK(h) + ": " + w + "]"
					}
				}
				c.R.Bad("R-config", key+"|skip-only-without-cmd-"+kind, key, bad, "the validator can succeed without checking the config file although a cmd entry may exist in "+kind+why)
			} else {
				c.R.Ok("R-config", key+"|skip-only-without-cmd-"+kind, key, c.P.Pos(checkCall.Pos()), "the check is skipped only on edges establishing that no element of "+kind+" has a Cmd block (helper scans the whole list)")
			}
		}
	}
	if found == 0 {
		c.R.Bad("R-config", "Validate|no-check", c.FK(validate), c.P.Pos(validate.Pos()), "configuration.Validate never applies the permission check to the configuration file")
	}
	c.R.Require("R-config", 3)
}

// ruleGate: every call of internal.RunDaemon is reachable only through the nil-error edge of configuration.Validate.
func (c *Ctx) ruleGate() {
	runDaemon := c.Func(PkgInternal, "RunDaemon")
	validate := c.Func(PkgConf, "Validate")
	if runDaemon == nil || validate == nil {
		return
	}
	n := 0
	for _, fn := range c.P.Funcs {
		Calls(fn, func(cc ssa.CallInstruction) {
			if ir.Callee(cc).Static != runDaemon {
				return
			}
			n++
			var ok []edge
			Calls(fn, func(vc ssa.CallInstruction) {
				if call, isCall := vc.(*ssa.Call); isCall && ir.Callee(vc).Static == validate {
					if ev := errValueOfCall(call); ev != nil {
						ok = append(ok, nilEdges(fn, ev, false)...)
					}
				}
			})
			reached := false
			ir.Search{StopEdge: func(b *ssa.BasicBlock, si int) bool {
				for _, e := range ok {
					if e.b == b && e.si == si {
						return true
					}
				}
				return false
			}}.Reach([]ir.Point{{Block: fn.Blocks[0]}}, func(ins ssa.Instruction, _ *ssa.BasicBlock) {
				if ins == cc.(ssa.Instruction) {
					reached = true
				}
			})
			if reached {
				c.R.Bad("R-gate", c.FK(fn), c.FK(fn), c.P.Pos(cc.Pos()), "RunDaemon can be entered without a successful configuration.Validate")
			} else {
				c.R.Ok("R-gate", c.FK(fn), c.FK(fn), c.P.Pos(cc.Pos()), "RunDaemon is reachable only through the nil-error edge of configuration.Validate")
			}
		})
	}
	c.R.Require("R-gate", 1)
	_ = types.Typ
}

// checkerFuncs computes the functions that guarantee the permission check: the
// base function, and inductively every repository function with a parameter p
// and an error result all of whose may-be-nil-error returns are reachable only
// through the nil-error edge of a checker call applied to p.
func (c *Ctx) checkerFuncs(base *ssa.Function) map[*ssa.Function]int {
	out := map[*ssa.Function]int{base: 0}
	for changed := true; changed; {
		changed = false
		for _, fn := range c.P.Funcs {
			if _, done := out[fn]; done || len(fn.Blocks) == 0 {
				continue
			}
			ei := errResultIndex(fn)
			if ei < 0 {
				continue
			}
			for pi, par := range fn.Params {
				var ok []edge
				Calls(fn, func(cc ssa.CallInstruction) {
					call, isCall := cc.(*ssa.Call)
					if !isCall || ir.Callee(cc).Static == nil {
						return
					}
					cpi, isChecker := out[ir.Callee(cc).Static]
					if !isChecker || cpi >= len(call.Call.Args) || ir.Resolve(call.Call.Args[cpi]) != ssa.Value(par) {
						return
					}
					if ev := errValueOfCall(call); ev != nil {
						ok = append(ok, nilEdges(fn, ev, false)...)
					}
				})
				if len(ok) == 0 {
					continue
				}
				good := true
				for _, rv := range returnsFrom([]ir.Point{{Block: fn.Blocks[0]}}, ir.Search{StopEdge: func(b *ssa.BasicBlock, si int) bool {
					for _, e := range ok {
						if e.b == b && e.si == si {
							return true
						}
					}
					return false
				}}) {
					facts := factsAt(rv.ret.Block(), rv.via)
					if mayBeNilError(rv.ret.Results[ei], facts) && mayBeNilError(ir.ResultVia(rv.ret, ei, rv.via), facts) {
						good = false
					}
				}
				if good {
					out[fn] = pi
					changed = true
					break
				}
			}
		}
	}
	return out
}
