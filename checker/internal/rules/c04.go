package rules

import (
	"go/token"
	"sort"
	"strings"

	"f2gcheck/internal/ir"
	"f2gcheck/internal/ranges"
	"f2gcheck/internal/units"

	"golang.org/x/tools/go/ssa"
)

func init() { Registry["C04"] = c04 }

// C04 - constant curve value: one steady target, the same for every algorithm. Only the clauses whose
// truth is in the shape of the code are decided (see DESIGN 4/C04): scale consistency of the feedback
// path (units-of-measure inference), provenance of the fed-back value, monotonicity of the steady value.
func c04(c *Ctx) {
	c.R.Explanation = "C04: three structural clauses are decided on the SSA of /repo; the dynamics are not. R-scale (engine E7, units-of-measure inference): every numeric value of the controller and control-loop packages gets a dimension vector over {loop scale 0..255, fan scale [min,max]/raw PWM}; +, -, phi, store/load of fields and cells, argument/parameter binding (helpers instantiated per call site) generate equalities, * and / add/subtract vectors, literals and unmodelled operations are free variables. Seeds come from the interfaces only: SpeedCurve.Evaluate -> loop; ControlLoop.Cycle(loop, loop) -> loop (also imposed on its implementations); Fan.GetPwm/GetMinPwm/GetMaxPwm/GetStartPwm -> fan; Fan.SetPwm/SetMinPwm/SetMaxPwm/SetStartPwm(fan). The system is solved by elimination; an impossible equality is a violation at the instruction that introduced it. This is a necessary condition of 'the steady request is determined by the curve value and the fan limits alone, identically with and without maxPwmChangePerCycle': a fan-scaled value fed back as the loop's current value moves the fixed point (the pinned tree did exactly that: min 100, curve 0, limit 10 -> 154, 187, ... 237; fixed in /repo, see KNOWN_FINDINGS). R-feedback: the value handed to Cycle as `current` comes (apart from a first-cycle initialiser) from a controller field whose every store is the (clamped) result of Cycle, and that store is passed on every path from the Cycle call to a successful return. R-mono-steady (engine E8): the request is non-decreasing in the curve value through the direct loop, clamp and rescale. R-ownloop: every fan controller is constructed with a control-loop object created for it (inside the per-fan iteration): a loop object shared by several controllers shares the PID memory, so one fan's error history moves another fan's requests. R-clock: a control-loop routine that measures elapsed time against a remembered time stamp (the PID loop's dt) stores this activation's time.Now() into that field on every path to a return - otherwise the next dt spans the whole idle period and the integral winds up in proportion to how long nothing happened ('depends only on the settings, not on what happened before'). NOT decided: settling time itself, PID wind-up bounds and 'within one step' for PID, exact equality of fixed points, the per-cycle difference bound in fan scale, monotone approach. R-clock also requires that a time-stamped loop routine is advanced only from control cycles / curve evaluations (who-may-call over the static callers): a call from a constructor or start-up code takes the first stamp long before the first cycle."
	c.R.Assumptions = append(c.R.Assumptions,
		"dimension seeds are the documented meaning of the Fan, SpeedCurve and ControlLoop interfaces",
		"literals and values from unmodelled operations may take any dimension (they can never cause a report)")
	c.ruleScale("R-scale")
	c.ruleFeedback("R-feedback")
	c.ruleClock("R-clock")
	c.ruleOwnLoop("R-ownloop")
	c.monoDirectLoop("R-mono-steady")
	c.monoRegulation("R-mono-steady")
	c.R.Require("R-mono-steady", 4)
}

func (c *Ctx) ruleScale(rule string) {
	s := units.NewSystem()
	s.Names = [units.NBase]string{"loop-scale", "fan-scale"}
	l, f := units.Base(0), units.Base(1)
	fanGet := map[string]bool{"GetPwm": true, "GetMinPwm": true, "GetMaxPwm": true, "GetStartPwm": true}
	fanSet := map[string]bool{"SetPwm": true, "SetMinPwm": true, "SetMaxPwm": true, "SetStartPwm": true}
	s.SeedCall = func(cc ssa.CallInstruction) (map[int]units.Dim, map[int]units.Dim, bool) {
		com := cc.Common()
		if !com.IsInvoke() {
			return nil, nil, false
		}
		m := com.Method.Name()
		switch {
		case ir.IsInvoke(cc, PkgCurves, "SpeedCurve", "Evaluate"):
			return nil, map[int]units.Dim{0: l}, true
		case ir.IsInvoke(cc, PkgLoop, "ControlLoop", "Cycle"):
			return map[int]units.Dim{0: l, 1: l}, map[int]units.Dim{0: l}, true
		case fanGet[m] && isFanInvoke(cc, m):
			return nil, map[int]units.Dim{0: f}, true
		case fanSet[m] && isFanInvoke(cc, m):
			return map[int]units.Dim{0: f}, nil, true
		}
		return nil, nil, false
	}
	loopImpl := map[*ssa.Function]bool{}
	for _, fn := range c.ImplMethods(PkgLoop, "ControlLoop", "Cycle") {
		loopImpl[fn] = true
	}
	s.SeedFunc = func(fn *ssa.Function) (map[int]units.Dim, map[int]units.Dim, bool) {
		if loopImpl[fn] && len(fn.Params) >= 3 {
			return map[int]units.Dim{1: l, 2: l}, map[int]units.Dim{0: l}, true
		}
		return nil, nil, false
	}
	s.Instantiate = func(fn *ssa.Function) bool {
		p := load_FuncPkgPath(fn)
		return c.P.IsRepoFunc(fn) && (p == PkgCtrl || p == PkgLoop || p == PkgUtil) && len(fn.Blocks) <= 60
	}
	s.SameDims = func(name string) bool {
		switch name {
		case "math.Round", "math.Floor", "math.Ceil", "math.Trunc", "math.Abs", "math.Min", "math.Max", "math.Mod", "math.RoundToEven":
			return true
		}
		return false
	}
	var tops []*ssa.Function
	for _, fn := range c.P.Funcs {
		p := load_FuncPkgPath(fn)
		if (p == PkgCtrl || p == PkgLoop) && len(fn.Blocks) > 0 {
			tops = append(tops, fn)
		}
	}
	sort.Slice(tops, func(i, j int) bool { return c.FK(tops[i]) < c.FK(tops[j]) })
	perFn := map[*ssa.Function]int{}
	for _, fn := range tops {
		before := s.NSites
		s.AnalyseTop(fn)
		perFn[fn] = s.NSites - before
	}
	bad := map[*ssa.Function]bool{}
	seen := map[string]bool{}
	for _, cf := range s.Conflicts {
		bad[cf.Fn] = true
		where := cf.Fn
		if cf.At != nil && cf.At.Parent() != nil {
			where = cf.At.Parent()
			bad[where] = true
		}
		fk := c.FK(where)
		key := fk + "|" + cf.What
		if seen[key] {
			continue
		}
		seen[key] = true
		in := ""
		if where != cf.Fn {
			in = " (reached from " + c.FK(cf.Fn) + ")"
		}
		pos := "-"
		if cf.At != nil {
			pos = c.P.Pos(cf.At.Pos())
		}
		c.R.Bad(rule, key, fk, pos, "scale mix-up at "+cf.What+in+": one side is on the "+cf.Left+" scale, the other on the "+cf.Right+" scale (loop scale = 0..255 of curve and control loop, fan scale = [minPwm,maxPwm] / raw PWM of the fan)")
	}
	n := 0
	for _, fn := range tops {
		if perFn[fn] == 0 || bad[fn] {
			continue
		}
		n++
		fk := c.FK(fn)
		c.R.Note("functions", fk)
		c.R.Ok(rule, fk, fk, c.P.Pos(fn.Pos()), sprintf("%d interface call(s) with a documented scale; all equalities between them are satisfiable", perFn[fn]))
	}
	c.R.Note("units", sprintf("%d equalities over %d top-level functions; solved field/cell scales: %s", s.NEq, len(tops), strings.Join(s.FieldDims(), "; ")))
	c.R.Require(rule, 8)
}

// ruleFeedback: what the loop gets as `current`.
func (c *Ctx) ruleFeedback(rule string) {
	tb := ir.NewTB(c.P.IsRepoFunc, c.P.FuncKey)
	tb.ParamCallers = c.StaticCallers
	nsite := 0
	for _, fn := range c.P.Funcs {
		if load_FuncPkgPath(fn) != PkgCtrl {
			continue
		}
		var cycles []*ssa.Call
		Calls(fn, func(cc ssa.CallInstruction) {
			if call, ok := cc.(*ssa.Call); ok && ir.IsInvoke(cc, PkgLoop, "ControlLoop", "Cycle") {
				cycles = append(cycles, call)
			}
		})
		for _, cyc := range cycles {
			nsite++
			fk := c.FK(fn)
			c.R.Note("functions", fk)
			if len(cyc.Call.Args) < 2 {
				c.R.Undecided(rule, fk, fk, c.P.Pos(cyc.Pos()), "unexpected Cycle signature")
				continue
			}
			// leaves of the value (through phis and local cells): loads of controller fields, and the rest
			fields := map[string]bool{}
			others := 0
			var unguarded []string
			type seenKey struct {
				v       ssa.Value
				guarded bool
			}
			seen := map[seenKey]bool{}
			// noPrevious: the edge is taken only while a receiver field says "nothing remembered yet" (nil / false)
			noPrevious := func(facts []ir.Fact) bool {
				isRecvFieldLoad := func(v ssa.Value) bool {
					u, ok := ir.Resolve(v).(*ssa.UnOp)
					if !ok {
						return false
					}
					_, ok = recvFieldOfLoad(u, tb)
					return ok
				}
				for _, f := range facts {
					if f.Op == token.EQL && ((ir.IsNilConst(f.Y) && isRecvFieldLoad(f.X)) || (ir.IsNilConst(f.X) && isRecvFieldLoad(f.Y))) {
						return true
					}
					if f.Bool != nil && !f.Truth && isRecvFieldLoad(f.Bool) {
						return true
					}
				}
				return false
			}
			var walk func(v ssa.Value, depth int, guarded bool)
			walk = func(v ssa.Value, depth int, guarded bool) {
				v = ir.Resolve(v)
				if seen[seenKey{v, guarded}] || depth > 8 {
					return
				}
				seen[seenKey{v, guarded}] = true
				switch x := v.(type) {
				case *ssa.Phi:
					for i, e := range x.Edges {
						walk(e, depth+1, guarded || noPrevious(ranges.FactsAt(x.Block(), x.Block().Preds[i])))
					}
					return
				case *ssa.UnOp:
					if n, ok := recvFieldOfLoad(x, tb); ok {
						fields[n] = true
						return
					}
				case *ssa.Call:
					// a helper of the controller that selects the feedback value: look at what it returns
					if cal := ir.Callee(x).Static; cal != nil && load_FuncPkgPath(cal) == PkgCtrl && len(cal.Blocks) > 0 && cal.Signature.Results().Len() == 1 && !x.Call.IsInvoke() {
						for _, rt := range ir.Returns(cal) {
							walk(rt.Results[0], depth+1, guarded || noPrevious(ranges.FactsAt(rt.Block(), nil)))
						}
						return
					}
				}
				others++
				if !guarded {
					unguarded = append(unguarded, tb.Of(v, nil).String())
				}
			}
			walk(cyc.Call.Args[1], 0, false)
			if len(fields) == 0 {
				c.R.Bad(rule, fk, fk, c.P.Pos(cyc.Pos()), "the `current` argument of Cycle does not come from a controller field that remembers the previous loop output: "+tb.Of(cyc.Call.Args[1], nil).String())
				continue
			}
			okAll := true
			if len(unguarded) > 0 {
				okAll = false
				u := unguarded[0]
				if len(u) > 200 {
					u = u[:200] + "…"
				}
				c.R.Bad(rule, fk+"|other-source", fk, c.P.Pos(cyc.Pos()), sprintf("besides the remembered loop output, Cycle's current value can be %s on a path that is not limited to 'nothing remembered yet' (field nil/false): the loop is fed something else than its own previous output", u))
			}
			var names []string
			for name := range fields {
				names = append(names, name)
			}
			sort.Strings(names)
			for _, name := range names {
				stores := c.storesToField(PkgCtrl, recvTypeName(fn), name)
				if len(stores) == 0 {
					okAll = false
					c.R.Bad(rule, fk+"|"+name, fk, c.P.Pos(cyc.Pos()), "field "+name+" is read as the loop's current value but never stored")
					continue
				}
				for _, st := range stores {
					// the stored value: a cell holding V, or V itself
					vals := []ssa.Value{st.Val}
					if al, ok := st.Val.(*ssa.Alloc); ok {
						vals = nil
						for _, s2 := range ir.StoresTo(al) {
							vals = append(vals, s2.Val)
						}
					}
					for _, v := range vals {
						t := tb.Of(v, nil)
						if !isLoopOutputTerm(t) {
							okAll = false
							c.R.Bad(rule, fk+"|"+name, c.FK(st.Parent()), c.P.Pos(st.Pos()), "field "+name+" is fed back to the control loop as its current value, but what is stored here is not the loop's (clamped) output: "+t.String())
						}
					}
				}
				// every successful path after the Cycle call updates the field
				ei := errResultIndex(fn)
				missed := false
				ir.Search{StopInstr: func(ins ssa.Instruction) bool {
					if isStoreToField(ins, name) {
						return true
					}
					if cc, ok := ins.(ssa.CallInstruction); ok {
						if cal := ir.Callee(cc).Static; cal != nil && load_FuncPkgPath(cal) == PkgCtrl && mustStoreField(cal, name, 2) {
							return true
						}
					}
					return false
				}}.Reach([]ir.Point{ir.After(cyc)}, func(ins ssa.Instruction, via *ssa.BasicBlock) {
					if rt, ok := ins.(*ssa.Return); ok {
						if ei < 0 || mayBeNilError(ir.ResultVia(rt, ei, via), ranges.FactsAt(rt.Block(), via)) {
							missed = true
						}
					}
				})
				if missed {
					okAll = false
					c.R.Bad(rule, fk+"|"+name+"|every-cycle", fk, c.P.Pos(cyc.Pos()), "a successful path from the Cycle call to the return does not store the loop output into "+name+": the next cycle would be fed a stale value")
				}
			}
			if okAll {
				c.R.Ok(rule, fk, fk, c.P.Pos(cyc.Pos()), sprintf("Cycle's current value is read from field(s) %s (plus %d first-cycle initialiser(s)); every store of the field is the clamped Cycle result and every successful path stores it", strings.Join(names, ","), others))
			}
		}
	}
	if nsite == 0 {
		c.R.Undecided(rule, "no-cycle-call", PkgCtrl, "-", "no ControlLoop.Cycle invoke in the controller package (anchor unresolved)")
	}
	c.R.Require(rule, 1)
}

// recvFieldOfLoad: u loads (possibly through a pointer stored in it) a field of the method receiver.
func recvFieldOfLoad(u *ssa.UnOp, tb *ir.TB) (string, bool) {
	addr := u.X
	if inner, ok := addr.(*ssa.UnOp); ok {
		addr = inner.X // *(*f.field)
	}
	fa, ok := addr.(*ssa.FieldAddr)
	if !ok {
		return "", false
	}
	if !strings.HasPrefix(tb.Of(fa.X, nil).Op, "recv:") {
		return "", false
	}
	_, name, ok := ir.FieldName(fa)
	return name, ok
}

// isLoopOutputTerm: the term is the result of ControlLoop.Cycle, possibly clamped (phi with constants,
// min/max with constants, conversions).
func isLoopOutputTerm(t *ir.Term) bool {
	isConst := func(x *ir.Term) bool { return strings.HasPrefix(x.Op, "const:") }
	var ok func(t *ir.Term, depth int) bool
	ok = func(t *ir.Term, depth int) bool {
		if depth > 6 {
			return false
		}
		switch {
		case strings.HasPrefix(t.Op, "invoke:") && strings.HasSuffix(t.Op, "ControlLoop.Cycle"):
			return true
		case t.Op == "phi":
			n := 0
			for _, a := range t.Args {
				if isConst(a) {
					continue
				}
				if !ok(a, depth+1) {
					return false
				}
				n++
			}
			return n > 0
		case (t.Op == "convert" || strings.HasPrefix(t.Op, "conv:")) && len(t.Args) == 1:
			return ok(t.Args[0], depth+1)
		case t.Op == "call:math.Min" || t.Op == "call:math.Max" || t.Op == "builtin:min" || t.Op == "builtin:max" || strings.HasSuffix(t.Op, "util.Coerce"):
			n := 0
			for _, a := range t.Args {
				if isConst(a) {
					continue
				}
				if !ok(a, depth+1) {
					return false
				}
				n++
			}
			return n == 1
		case strings.HasPrefix(t.Op, "call:math.Round") && len(t.Args) == 1:
			return ok(t.Args[0], depth+1)
		}
		return false
	}
	return ok(t, 0)
}

// ruleClock: routines under ControlLoop.Cycle that compute elapsed time against a remembered stamp
// refresh the stamp on every path.
func (c *Ctx) ruleClock(rule string) {
	var roots []*ssa.Function
	roots = append(roots, c.ImplMethods(PkgLoop, "ControlLoop", "Cycle")...)
	tree := c.Closure(roots, false, func(f *ssa.Function) bool {
		p := load_FuncPkgPath(f)
		return p != PkgLoop && p != PkgUtil
	})
	n := 0
	for _, fn := range c.SortedFuncs(tree) {
		if len(fn.Blocks) == 0 || fn.Signature.Recv() == nil {
			continue
		}
		// fields of the receiver holding a time stamp that elapsed time is measured against
		stamps := map[string]bool{}
		var nowCalls []ssa.Value
		Calls(fn, func(cc ssa.CallInstruction) {
			name := ir.CallName(cc)
			if call, ok := cc.(*ssa.Call); ok && name == "time.Now" {
				nowCalls = append(nowCalls, call)
			}
			if name != "(time.Time).Sub" && name != "time.Since" {
				return
			}
			for _, a := range cc.Common().Args {
				if u, ok := ir.Resolve(a).(*ssa.UnOp); ok {
					if fa, ok := u.X.(*ssa.FieldAddr); ok {
						if _, fname, ok := ir.FieldName(fa); ok {
							stamps[fname] = true
						}
					}
				}
			}
		})
		for name := range stamps {
			n++
			fk := c.FK(fn)
			c.R.Note("functions", fk)
			key := fk + "|" + name
			isNow := func(v ssa.Value) bool {
				v = ir.Resolve(v)
				for _, nc := range nowCalls {
					if v == nc {
						return true
					}
				}
				return false
			}
			isRefresh := func(ins ssa.Instruction) bool {
				// a bookkeeping helper that always stores the time stamp it is given
				if cc, ok := ins.(ssa.CallInstruction); ok {
					cal := ir.Callee(cc).Static
					if cal == nil || cal == fn || len(cal.Blocks) == 0 || load_FuncPkgPath(cal) != load_FuncPkgPath(fn) {
						return false
					}
					for i, a := range cc.Common().Args {
						if i < len(cal.Params) && isNow(a) {
							p := cal.Params[i]
							missedStore := false
							ir.Search{StopInstr: func(i2 ssa.Instruction) bool {
								return isStoreToField(i2, name) && ir.Resolve(i2.(*ssa.Store).Val) == ssa.Value(p)
							}}.Reach([]ir.Point{{Block: cal.Blocks[0], Idx: 0}}, func(i2 ssa.Instruction, _ *ssa.BasicBlock) {
								if _, isRet := i2.(*ssa.Return); isRet {
									missedStore = true
								}
							})
							if !missedStore {
								return true
							}
						}
					}
					return false
				}
				st, ok := ins.(*ssa.Store)
				if !ok {
					return false
				}
				fa, ok := st.Addr.(*ssa.FieldAddr)
				if !ok {
					return false
				}
				if _, fname, _ := ir.FieldName(fa); fname != name {
					return false
				}
				v := ir.Resolve(st.Val)
				for _, nc := range nowCalls {
					if v == nc {
						return true
					}
				}
				return false
			}
			// who advances the clock: the routine is called only from control cycles / curve evaluations. A call
			// from a constructor or from start-up code takes the first stamp long before the first cycle, whose dt
			// then covers the whole start-up (minutes of fan analysis): the integral starts wound up.
			allowed := c.Closure(append(append([]*ssa.Function{}, roots...), c.ImplMethods(PkgCurves, "SpeedCurve", "Evaluate")...), false, nil)
			for _, site := range c.StaticCallers(fn) {
				if site.Parent() == nil || allowed[site.Parent()] {
					continue
				}
				c.R.Bad(rule, key+"|callers", fk, c.P.Pos(site.Pos()), "the time-stamped loop routine is advanced from "+c.FK(site.Parent())+", which is not part of a control cycle or curve evaluation: the stamp elapsed time is measured against is taken outside regulation, so the first real cycle sees everything since then as one dt (history-dependent wind-up)")
			}
			var missed *ssa.Return
			ir.Search{StopInstr: isRefresh}.Reach([]ir.Point{{Block: fn.Blocks[0], Idx: 0}}, func(ins ssa.Instruction, _ *ssa.BasicBlock) {
				if rt, ok := ins.(*ssa.Return); ok && missed == nil {
					missed = rt
				}
			})
			if missed != nil {
				c.R.Bad(rule, key, fk, c.P.Pos(missed.Pos()), "elapsed time is measured against field "+name+", but this return is reachable without storing the current time.Now() into it: after an idle period the next dt covers the whole period (history-dependent wind-up)")
			} else {
				c.R.Ok(rule, key, fk, c.P.Pos(fn.Pos()), "every path to a return stores this activation's time.Now() into "+name+", the stamp elapsed time is measured against")
			}
		}
	}
	if n == 0 {
		c.R.Excluded(rule, "none", PkgLoop, "-", "no control-loop routine measures elapsed time against a remembered stamp")
	}
}

func isStoreToField(ins ssa.Instruction, name string) bool {
	if st, ok := ins.(*ssa.Store); ok {
		if fa, ok := st.Addr.(*ssa.FieldAddr); ok {
			if _, n, _ := ir.FieldName(fa); n == name {
				return true
			}
		}
	}
	return false
}

// mustStoreField: every path through fn to a return stores the field (directly or through a callee that must).
func mustStoreField(fn *ssa.Function, name string, depth int) bool {
	if len(fn.Blocks) == 0 {
		return false
	}
	missed := false
	ir.Search{StopInstr: func(ins ssa.Instruction) bool {
		if isStoreToField(ins, name) {
			return true
		}
		if cc, ok := ins.(ssa.CallInstruction); ok && depth > 0 {
			if cal := ir.Callee(cc).Static; cal != nil && cal != fn && load_FuncPkgPath(cal) == load_FuncPkgPath(fn) && mustStoreField(cal, name, depth-1) {
				return true
			}
		}
		return false
	}}.Reach([]ir.Point{{Block: fn.Blocks[0], Idx: 0}}, func(ins ssa.Instruction, _ *ssa.BasicBlock) {
		if _, ok := ins.(*ssa.Return); ok {
			missed = true
		}
	})
	return !missed
}

// ruleOwnLoop: the ControlLoop handed to NewFanController is created per controller.
func (c *Ctx) ruleOwnLoop(rule string) {
	newCtrl := c.FuncOpt(PkgCtrl, "NewFanController")
	n := 0
	for _, fn := range c.P.Funcs {
		if !c.P.IsRepoFunc(fn) {
			continue
		}
		Calls(fn, func(cc ssa.CallInstruction) {
			call, ok := cc.(*ssa.Call)
			if !ok || newCtrl == nil || ir.Callee(call).Static != newCtrl {
				return
			}
			// which argument is the control loop?
			var arg ssa.Value
			for i, p := range newCtrl.Params {
				if nt := ir.NamedOf(p.Type()); nt != nil && nt.Obj().Name() == "ControlLoop" && i < len(call.Call.Args) {
					arg = call.Call.Args[i]
				}
			}
			if arg == nil {
				return
			}
			n++
			key := c.FK(fn)
			head := loopHead(call.Block())
			if head == nil {
				c.R.Ok(rule, key, key, c.P.Pos(call.Pos()), "a single controller is constructed here (not in a loop): its control loop cannot be shared by this site")
				return
			}
			// every definition of the argument must be created inside the same loop iteration
			bad := ""
			seen := map[ssa.Value]bool{}
			var walk func(v ssa.Value, depth int)
			walk = func(v ssa.Value, depth int) {
				v = ir.Resolve(v)
				if seen[v] || depth > 8 {
					return
				}
				seen[v] = true
				switch x := v.(type) {
				case *ssa.Phi:
					for _, e := range x.Edges {
						walk(e, depth+1)
					}
				case *ssa.MakeInterface:
					walk(x.X, depth+1)
				case *ssa.Const:
					// nil: no algorithm selected (validated configurations do not get here: C11)
				case *ssa.Call:
					inLoop := x.Block() == head || (head.Dominates(x.Block()) && loopHead(x.Block()) != nil && reachesWithinLoop(x.Block(), head))
					if !inLoop {
						bad = "the control loop object created at " + c.P.Pos(x.Pos()) + " (outside the per-fan loop) is handed to every controller constructed in the loop"
					}
					// a helper must itself create the object
					if st := ir.Callee(x).Static; st != nil && c.P.IsRepoFunc(st) && load_FuncPkgPath(st) != PkgLoop {
						for _, rt := range ir.Returns(st) {
							if len(rt.Results) > 0 {
								switch r := ir.Resolve(rt.Results[0]).(type) {
								case *ssa.UnOp:
									if _, isGlobal := r.X.(*ssa.Global); isGlobal {
										bad = "the helper " + c.FK(st) + " returns a package-level control loop object"
									}
								}
							}
						}
					}
				default:
					bad = "the control loop handed to the controller is not created in the per-fan iteration: " + v.String()
				}
			}
			walk(arg, 0)
			if bad != "" {
				c.R.Bad(rule, key, key, c.P.Pos(call.Pos()), bad+": controllers share one loop state (PID integral / last error / time stamp), so a fan's request depends on what other fans did")
			} else {
				c.R.Ok(rule, key, key, c.P.Pos(call.Pos()), "every control loop handed to NewFanController is created inside the per-fan iteration")
			}
		})
	}
	if n == 0 {
		c.R.Undecided(rule, "none", PkgInternal, "-", "no call of controller.NewFanController found (anchor unresolved)")
	}
	c.R.Require(rule, 1)
}
