// Package ir holds the SSA-level helpers shared by all rules: callee
// resolution, store->load forwarding, branch-edge facts, path search.
package ir

import (
	"go/constant"
	"go/token"
	"go/types"
	"sort"
	"strings"

	"golang.org/x/tools/go/ssa"
)

// ---------------------------------------------------------------------------
// callee resolution

// CalleeInfo describes the target of a call instruction.
type CalleeInfo struct {
	Static  *ssa.Function // non-nil for static calls and calls of a known closure
	Method  *types.Func   // non-nil for interface invokes
	Builtin string        // non-empty for builtins (close, panic, len, append, ...)
	Closure *ssa.MakeClosure
}

// Callee resolves a call through type information (never by name matching on text).
func Callee(c ssa.CallInstruction) CalleeInfo {
	cc := c.Common()
	if cc.IsInvoke() {
		return CalleeInfo{Method: cc.Method}
	}
	switch v := cc.Value.(type) {
	case *ssa.Builtin:
		return CalleeInfo{Builtin: v.Name()}
	case *ssa.Function:
		return CalleeInfo{Static: v}
	case *ssa.MakeClosure:
		return CalleeInfo{Static: v.Fn.(*ssa.Function), Closure: v}
	}
	// a local variable holding a function value: resolve through forwarding
	if r := Resolve(cc.Value); r != cc.Value {
		switch v := r.(type) {
		case *ssa.Function:
			return CalleeInfo{Static: v}
		case *ssa.MakeClosure:
			return CalleeInfo{Static: v.Fn.(*ssa.Function), Closure: v}
		}
	}
	return CalleeInfo{}
}

// FullName returns "pkgpath.Name" or "(pkgpath.T).Name" for a function object.
func FullName(f *types.Func) string {
	if f == nil {
		return ""
	}
	return f.FullName()
}

// IsFunc reports whether the static callee of c is the function pkgPath.name
// (name may be "T.Method" or "*T.Method" for methods).
func IsFunc(c ssa.CallInstruction, pkgPath, name string) bool {
	ci := Callee(c)
	if ci.Static == nil {
		return false
	}
	return FuncIs(ci.Static, pkgPath, name)
}

// FuncIs compares a function against pkgPath + name ("Func", "T.M" or "*T.M").
func FuncIs(fn *ssa.Function, pkgPath, name string) bool {
	if fn == nil {
		return false
	}
	if fn.Origin() != nil {
		fn = fn.Origin()
	}
	obj, _ := fn.Object().(*types.Func)
	if obj == nil || obj.Pkg() == nil || obj.Pkg().Path() != pkgPath {
		return false
	}
	sig := obj.Type().(*types.Signature)
	if sig.Recv() == nil {
		return obj.Name() == name
	}
	rt := sig.Recv().Type()
	ptr := ""
	if p, ok := rt.(*types.Pointer); ok {
		rt = p.Elem()
		ptr = "*"
	}
	n, ok := rt.(*types.Named)
	if !ok {
		return false
	}
	full := n.Obj().Name() + "." + obj.Name()
	return name == full || name == ptr+full || name == "*"+full
}

// IsInvoke reports whether c is an interface invoke of method `method` on an
// interface type named ifacePkg.ifaceName (or any interface that embeds it and
// resolves to the same *types.Func).
func IsInvoke(c ssa.CallInstruction, ifacePkg, ifaceName, method string) bool {
	cc := c.Common()
	if !cc.IsInvoke() || cc.Method.Name() != method {
		return false
	}
	return MethodOfIface(cc.Method, ifacePkg, ifaceName)
}

// MethodOfIface reports whether m is declared by interface ifacePkg.ifaceName.
func MethodOfIface(m *types.Func, ifacePkg, ifaceName string) bool {
	if m.Pkg() == nil || m.Pkg().Path() != ifacePkg {
		return false
	}
	obj := m.Pkg().Scope().Lookup(ifaceName)
	if obj == nil {
		return false
	}
	it, ok := obj.Type().Underlying().(*types.Interface)
	if !ok {
		return false
	}
	for i := 0; i < it.NumMethods(); i++ {
		if it.Method(i) == m {
			return true
		}
	}
	return false
}

// ---------------------------------------------------------------------------
// value canonicalisation

// Strip removes value-preserving wrappers (interface/type changes).
func Strip(v ssa.Value) ssa.Value {
	for {
		switch x := v.(type) {
		case *ssa.ChangeType:
			v = x.X
		case *ssa.ChangeInterface:
			v = x.X
		case *ssa.MakeInterface:
			v = x.X
		default:
			return v
		}
	}
}

// Resolve forwards loads from local variables to the value stored, when that
// is unambiguous: (a) the nearest preceding store to the same address in the
// same block with no intervening call/store that could change it (for
// non-escaping allocs calls are ignored), (b) an Alloc with exactly one store.
// It also strips value-preserving wrappers. Otherwise returns v (stripped).
func Resolve(v ssa.Value) ssa.Value {
	for i := 0; i < 16; i++ {
		v = Strip(v)
		// a pass-through helper: every return hands back the same parameter unchanged (`publish(v) int`
		// stores v somewhere and returns it): the call's value is the argument's value
		if c, isCall := v.(*ssa.Call); isCall {
			if a := passThroughArg(c, 0, true); a != nil {
				v = a
				continue
			}
			return v
		}
		// one result of a helper that hands a parameter back in that position (`failed(err) (float64, error)`)
		if ex, isEx := v.(*ssa.Extract); isEx {
			if c, isCall := ex.Tuple.(*ssa.Call); isCall {
				if a := passThroughArg(c, ex.Index, false); a != nil {
					v = a
					continue
				}
			}
			return v
		}
		u, ok := v.(*ssa.UnOp)
		if !ok || u.Op != token.MUL {
			return v
		}
		if s := forwardLoad(u); s != nil {
			v = s
			continue
		}
		return v
	}
	return v
}

// passThroughArg: c calls a small function all of whose returns yield the same parameter as result #idx
// (single: the function has exactly one result); returns the corresponding argument (nil otherwise).
func passThroughArg(c *ssa.Call, idx int, single bool) ssa.Value {
	fn := c.Call.StaticCallee()
	if fn == nil || len(fn.Blocks) == 0 || len(fn.Blocks) > 8 {
		return nil
	}
	nres := fn.Signature.Results().Len()
	if (single && nres != 1) || (!single && nres < 2) || idx >= nres {
		return nil
	}
	pidx := -1
	n := 0
	for _, b := range fn.Blocks {
		r, ok := b.Instrs[len(b.Instrs)-1].(*ssa.Return)
		if !ok {
			continue
		}
		n++
		if idx >= len(r.Results) {
			return nil
		}
		p, isParam := Strip(r.Results[idx]).(*ssa.Parameter)
		if !isParam {
			return nil
		}
		k := -1
		for i, q := range fn.Params {
			if q == p {
				k = i
			}
		}
		if k < 0 || (pidx >= 0 && pidx != k) {
			return nil
		}
		pidx = k
	}
	if n == 0 || pidx < 0 || pidx >= len(c.Call.Args) {
		return nil
	}
	return c.Call.Args[pidx]
}

func forwardLoad(u *ssa.UnOp) ssa.Value {
	addr := u.X
	b := u.Block()
	if b == nil {
		return nil
	}
	alloc, isAlloc := addr.(*ssa.Alloc)
	// (a) nearest preceding store in the same block
	idx := -1
	for i, ins := range b.Instrs {
		if ins == ssa.Instruction(u) {
			idx = i
			break
		}
	}
	for i := idx - 1; i >= 0; i-- {
		switch ins := b.Instrs[i].(type) {
		case *ssa.Store:
			if ins.Addr == addr {
				return ins.Val
			}
			if !isAlloc {
				// a store through another pointer may alias a non-local address
				if _, otherAlloc := ins.Addr.(*ssa.Alloc); !otherAlloc {
					if sameFieldAddr(ins.Addr, addr) {
						return ins.Val
					}
				}
			}
		case ssa.CallInstruction:
			if !isAlloc || alloc.Heap {
				i = -1 // stop: the callee may write the location
			}
		}
	}
	// (b) local alloc with exactly one store (anywhere in the function, closures included)
	if isAlloc {
		stores := StoresTo(alloc)
		if len(stores) == 1 {
			return stores[0].Val
		}
		// (c) several stores, but exactly one of them reaches this load on every path (named results
		// spilled to memory because of a defer: `*err = x; if *err != nil { return *err }`)
		if st := uniqueReachingStore(u, alloc); st != nil {
			return st.Val
		}
	}
	return nil
}

// uniqueReachingStore: the one store to alloc that reaches the load on every path from the entry, or nil.
// Only for allocs used by nothing but direct loads and stores in their own function (not captured, no
// address escaping), so that calls in between cannot change them.
func uniqueReachingStore(u *ssa.UnOp, alloc *ssa.Alloc) *ssa.Store {
	refs := alloc.Referrers()
	if refs == nil {
		return nil
	}
	for _, r := range *refs {
		switch x := r.(type) {
		case *ssa.Store:
			if x.Addr != ssa.Value(alloc) {
				return nil // the address itself is stored somewhere
			}
		case *ssa.UnOp:
			if x.Op != token.MUL {
				return nil
			}
		case *ssa.DebugRef:
		default:
			return nil
		}
	}
	var found *ssa.Store
	ok := true
	seen := map[*ssa.BasicBlock]bool{}
	// scan block b backwards starting before instruction index idx (idx == len: whole block)
	var scan func(b *ssa.BasicBlock, idx int)
	scan = func(b *ssa.BasicBlock, idx int) {
		if !ok {
			return
		}
		for i := idx - 1; i >= 0; i-- {
			if st, isStore := b.Instrs[i].(*ssa.Store); isStore && st.Addr == ssa.Value(alloc) {
				if found != nil && found != st {
					ok = false
				}
				found = st
				return
			}
		}
		if len(b.Preds) == 0 {
			ok = false // reaches the entry without a store: the zero value
			return
		}
		for _, p := range b.Preds {
			if seen[p] {
				continue
			}
			seen[p] = true
			scan(p, len(p.Instrs))
		}
	}
	b := u.Block()
	idx := -1
	for i, ins := range b.Instrs {
		if ins == ssa.Instruction(u) {
			idx = i
		}
	}
	if idx < 0 {
		return nil
	}
	scan(b, idx)
	if !ok {
		return nil
	}
	return found
}

func sameFieldAddr(a, b ssa.Value) bool {
	fa, ok1 := a.(*ssa.FieldAddr)
	fb, ok2 := b.(*ssa.FieldAddr)
	return ok1 && ok2 && fa.Field == fb.Field && fa.X == fb.X
}

// StoresTo lists every store to the alloc, including stores made by closures
// that capture it by reference.
func StoresTo(a *ssa.Alloc) []*ssa.Store {
	var out []*ssa.Store
	seen := map[ssa.Value]bool{}
	var visit func(addr ssa.Value)
	visit = func(addr ssa.Value) {
		if seen[addr] {
			return
		}
		seen[addr] = true
		refs := addr.Referrers()
		if refs == nil {
			return
		}
		for _, r := range *refs {
			switch r := r.(type) {
			case *ssa.Store:
				if r.Addr == addr {
					out = append(out, r)
				}
			case *ssa.MakeClosure:
				fn := r.Fn.(*ssa.Function)
				for i, bnd := range r.Bindings {
					if bnd == addr && i < len(fn.FreeVars) {
						visit(fn.FreeVars[i])
					}
				}
			}
		}
	}
	visit(a)
	return out
}

// ConstInt returns the integer value of a constant (through Convert/ChangeType).
func ConstInt(v ssa.Value) (int64, bool) {
	for {
		switch x := v.(type) {
		case *ssa.Convert:
			v = x.X
			continue
		case *ssa.ChangeType:
			v = x.X
			continue
		case *ssa.MakeInterface:
			v = x.X
			continue
		}
		break
	}
	c, ok := v.(*ssa.Const)
	if !ok || c.Value == nil {
		return 0, false
	}
	if c.Value.Kind() == constant.Int {
		i, ok := constant.Int64Val(c.Value)
		return i, ok
	}
	if c.Value.Kind() == constant.Float {
		f, _ := constant.Float64Val(c.Value)
		if f == float64(int64(f)) {
			return int64(f), true
		}
	}
	return 0, false
}

// ConstFloat returns the numeric value of a numeric constant.
func ConstFloat(v ssa.Value) (float64, bool) {
	for {
		switch x := v.(type) {
		case *ssa.Convert:
			v = x.X
			continue
		case *ssa.ChangeType:
			v = x.X
			continue
		}
		break
	}
	c, ok := v.(*ssa.Const)
	if !ok || c.Value == nil {
		return 0, false
	}
	if c.Value.Kind() == constant.Int || c.Value.Kind() == constant.Float {
		f, _ := constant.Float64Val(c.Value)
		return f, true
	}
	return 0, false
}

// ConstBool returns the value of a boolean constant.
func ConstBool(v ssa.Value) (bool, bool) {
	c, ok := v.(*ssa.Const)
	if !ok || c.Value == nil || c.Value.Kind() != constant.Bool {
		return false, false
	}
	return constant.BoolVal(c.Value), true
}

// ConstString returns the value of a string constant.
func ConstString(v ssa.Value) (string, bool) {
	c, ok := Strip(v).(*ssa.Const)
	if !ok || c.Value == nil || c.Value.Kind() != constant.String {
		return "", false
	}
	return constant.StringVal(c.Value), true
}

// IsNilConst reports whether v is the nil constant.
func IsNilConst(v ssa.Value) bool {
	c, ok := v.(*ssa.Const)
	return ok && c.IsNil()
}

// FieldName returns the name of the field selected by a FieldAddr / Field.
func FieldName(v ssa.Value) (owner *types.Named, name string, ok bool) {
	var xt types.Type
	var idx int
	switch f := v.(type) {
	case *ssa.FieldAddr:
		xt = f.X.Type()
		idx = f.Field
	case *ssa.Field:
		xt = f.X.Type()
		idx = f.Field
	default:
		return nil, "", false
	}
	if p, isPtr := xt.Underlying().(*types.Pointer); isPtr {
		xt = p.Elem()
	}
	st, isStruct := xt.Underlying().(*types.Struct)
	if !isStruct {
		return nil, "", false
	}
	n, _ := xt.(*types.Named)
	return n, st.Field(idx).Name(), true
}

// NamedOf returns the named type behind pointers.
func NamedOf(t types.Type) *types.Named {
	for {
		switch x := t.(type) {
		case *types.Pointer:
			t = x.Elem()
		case *types.Named:
			return x
		default:
			return nil
		}
	}
}

// ---------------------------------------------------------------------------
// branch-edge facts

// Fact is an atomic relation established on a CFG edge: X Op Y.
// For boolean calls (e.g. Supports(x), errors.Is(..)) Op is EQL, X the call
// value and Y a bool constant stand-in: Truth holds the polarity instead.
type Fact struct {
	Op    token.Token // EQL NEQ LSS LEQ GTR GEQ; ILLEGAL for plain boolean truth
	X, Y  ssa.Value   // resolved (store->load forwarded, wrappers stripped)
	Bool  ssa.Value   // for Op==ILLEGAL: the boolean value itself
	Truth bool        // for Op==ILLEGAL: its truth on this edge
	// Via: the fact was derived inside the small boolean helper called here; its operands may be values
	// of that helper (parameters stand for the call's arguments: see ArgFor).
	Via *ssa.Call
}

// ArgFor maps a parameter of the helper a fact was derived in to the argument at the helper call
// (any other value is returned unchanged).
func (f Fact) ArgFor(v ssa.Value) ssa.Value {
	if f.Via == nil {
		return v
	}
	p, ok := v.(*ssa.Parameter)
	if !ok {
		return v
	}
	fn := Callee(f.Via).Static
	if fn == nil || p.Parent() != fn {
		return v
	}
	for i, q := range fn.Params {
		if q == p && i < len(f.Via.Call.Args) {
			return f.Via.Call.Args[i]
		}
	}
	return v
}

func negate(op token.Token) token.Token {
	switch op {
	case token.EQL:
		return token.NEQ
	case token.NEQ:
		return token.EQL
	case token.LSS:
		return token.GEQ
	case token.LEQ:
		return token.GTR
	case token.GTR:
		return token.LEQ
	case token.GEQ:
		return token.LSS
	}
	return op
}

// Flip mirrors a comparison operator (a op b == b Flip(op) a).
func Flip(op token.Token) token.Token {
	switch op {
	case token.LSS:
		return token.GTR
	case token.LEQ:
		return token.GEQ
	case token.GTR:
		return token.LSS
	case token.GEQ:
		return token.LEQ
	}
	return op
}

// CondFacts decomposes "cond has truth value pol" into atomic facts that all hold.
func CondFacts(cond ssa.Value, pol bool) []Fact {
	var out []Fact
	var rec func(c ssa.Value, pol bool, depth int)
	rec = func(c ssa.Value, pol bool, depth int) {
		if depth > 8 {
			return
		}
		c = Resolve(c)
		switch v := c.(type) {
		case *ssa.BinOp:
			switch v.Op {
			case token.EQL, token.NEQ, token.LSS, token.LEQ, token.GTR, token.GEQ:
				op := v.Op
				if !pol {
					op = negate(op)
				}
				out = append(out, Fact{Op: op, X: Resolve(v.X), Y: Resolve(v.Y)})
				// comparing a boolean with a constant: a == true etc.
				if b, ok := ConstBool(v.Y); ok && (v.Op == token.EQL || v.Op == token.NEQ) {
					rec(v.X, (v.Op == token.EQL) == (b == pol), depth+1)
				}
				return
			}
		case *ssa.UnOp:
			if v.Op == token.NOT {
				rec(v.X, !pol, depth+1)
				return
			}
		case *ssa.Call:
			// a small boolean helper (e.g. equalsPtr(x, y)): the facts that hold whenever it returns pol,
			// with its parameters replaced by the call's arguments
			if hf := helperFacts(v, 0, pol, depth); hf != nil && v.Call.Signature().Results().Len() == 1 {
				out = append(out, Fact{Bool: c, Truth: pol})
				out = append(out, hf...)
				return
			}
		case *ssa.Extract:
			// v, ok := helper(): the facts that hold whenever the helper returns ok == pol
			if call, isCall := v.Tuple.(*ssa.Call); isCall {
				if hf := helperFacts(call, v.Index, pol, depth); hf != nil {
					out = append(out, Fact{Bool: c, Truth: pol})
					out = append(out, hf...)
					return
				}
			}
		case *ssa.Phi:
			// boolean phi from && / ||: edges that are the constant !pol cannot be the source
			var cands []ssa.Value
			for _, e := range v.Edges {
				if b, ok := ConstBool(e); ok {
					if b == pol {
						cands = append(cands, nil)
					}
					continue
				}
				cands = append(cands, e)
			}
			out = append(out, Fact{Bool: c, Truth: pol})
			if len(cands) == 1 && cands[0] != nil {
				// the value came through that edge; additionally the phi's block was
				// entered from the predecessor of that edge: add the facts guarding it
				for i, e := range v.Edges {
					if e == cands[0] {
						pred := v.Block().Preds[i]
						out = append(out, EdgeFacts(pred, succIndex(pred, v.Block()))...)
						out = append(out, BlockFacts(pred)...)
					}
				}
				rec(cands[0], pol, depth+1)
			}
			return
		}
		out = append(out, Fact{Bool: c, Truth: pol})
	}
	rec(cond, pol, 0)
	return out
}

func succIndex(pred, succ *ssa.BasicBlock) int {
	for i, s := range pred.Succs {
		if s == succ {
			return i
		}
	}
	return -1
}

// EdgeFacts returns the facts established by taking successor #si of block b.
func EdgeFacts(b *ssa.BasicBlock, si int) []Fact {
	if si < 0 || len(b.Instrs) == 0 {
		return nil
	}
	iff, ok := b.Instrs[len(b.Instrs)-1].(*ssa.If)
	if !ok || b.Succs[0] == b.Succs[1] {
		return nil
	}
	return CondFacts(iff.Cond, si == 0)
}

// BlockFacts returns the facts that hold on every path reaching block b
// (collected from dominating edges into single-predecessor blocks).
func BlockFacts(b *ssa.BasicBlock) []Fact {
	var out []Fact
	for x := b; x != nil && x.Idom() != nil; x = x.Idom() {
		d := x.Idom()
		if len(x.Preds) == 1 && x.Preds[0] == d {
			out = append(out, EdgeFacts(d, succIndex(d, x))...)
		}
	}
	return out
}

// ---------------------------------------------------------------------------
// path search

// Point is a position in a function: before instruction Idx of Block.
type Point struct {
	Block *ssa.BasicBlock
	Idx   int
}

// After returns the point just after an instruction.
func After(ins ssa.Instruction) Point {
	b := ins.Block()
	for i, x := range b.Instrs {
		if x == ins {
			return Point{b, i + 1}
		}
	}
	return Point{b, len(b.Instrs)}
}

// EdgeStart returns the point at the start of successor #si of b.
func EdgeStart(b *ssa.BasicBlock, si int) Point { return Point{b.Succs[si], 0} }

// Search describes a forward reachability query inside one function.
type Search struct {
	// StopInstr: the path ends (is satisfied / blocked) when it reaches such an instruction.
	StopInstr func(ssa.Instruction) bool
	// StopEdge: the path may not cross this edge.
	StopEdge func(from *ssa.BasicBlock, si int) bool
	// TrackBools makes the search path-sensitive in boolean flag variables
	// (phi nodes of boolean constants, e.g. `found := false; ...; found = true`):
	// a branch on a flag whose value is known on the current path is followed
	// only in the consistent direction.
	TrackBools bool
	// StopEdgeF (with TrackBools): like StopEdge, but also receives the facts that hold on this edge because of
	// the path taken so far: when the branch condition is a boolean phi (a short-circuit expression kept in a
	// local: `ok := a || b; if !ok {...}`) whose value on this path is a known non-constant definition d, the
	// facts are CondFacts(d, direction).
	StopEdgeF func(from *ssa.BasicBlock, si int, pathFacts []Fact) bool
	// TrackPhis (with VisitAlias): remember, for every phi met on the path, the definition that arrived over the
	// edge taken (`err = f(); if err == nil { err = g() }; ...; return err`: which call's error is returned
	// depends on the path).
	TrackPhis bool
	// VisitAlias, when set with TrackPhis, is called (besides visit) with a resolver that maps a phi to the
	// definition it holds on the current path (other values and unknown phis are returned unchanged).
	VisitAlias func(ins ssa.Instruction, via *ssa.BasicBlock, resolve func(ssa.Value) ssa.Value)
	// VisitEnv, when set, is called (besides visit) with the boolean flags known on the current path.
	VisitEnv func(ins ssa.Instruction, via *ssa.BasicBlock, known func(ssa.Value) (bool, bool))
}

type boolEnv map[*ssa.Phi]bool

// aliasEnv: boolean phis whose value on the current path is a known non-constant definition
type aliasEnv map[*ssa.Phi]ssa.Value

func (a aliasEnv) key() string {
	if len(a) == 0 {
		return ""
	}
	parts := make([]string, 0, len(a))
	for p, v := range a {
		parts = append(parts, p.Name()+"="+v.Name())
	}
	sort.Strings(parts)
	return strings.Join(parts, ",")
}

// enterAlias computes the alias environment after taking the edge pred -> succ.
func (a aliasEnv) enter(pred, succ *ssa.BasicBlock) aliasEnv { return a.enterT(pred, succ, false) }

// enterT: all = track phis of every type (constants included), not only non-constant boolean ones.
func (a aliasEnv) enterT(pred, succ *ssa.BasicBlock, all bool) aliasEnv {
	idx := -1
	for i, p := range succ.Preds {
		if p == pred {
			idx = i
		}
	}
	out := aliasEnv{}
	for k, v := range a {
		out[k] = v
	}
	if idx < 0 {
		return out
	}
	for _, ins := range succ.Instrs {
		phi, ok := ins.(*ssa.Phi)
		if !ok {
			break
		}
		if b, isB := phi.Type().Underlying().(*types.Basic); !all && (!isB || b.Kind() != types.Bool) {
			continue
		}
		in := phi.Edges[idx]
		if _, isConst := ConstBool(in); isConst && !all {
			delete(out, phi)
			continue
		}
		if src, isPhi := in.(*ssa.Phi); isPhi {
			if v, known := a[src]; known {
				out[phi] = v
			} else if all {
				out[phi] = in
			} else {
				delete(out, phi)
			}
			continue
		}
		out[phi] = in
	}
	return out
}

// factsFor returns the facts a branch on cond in the given direction adds because of the aliases.
func (a aliasEnv) factsFor(cond ssa.Value, truth bool) []Fact {
	for i := 0; i < 4; i++ {
		if u, ok := cond.(*ssa.UnOp); ok && u.Op == token.NOT {
			cond = u.X
			truth = !truth
			continue
		}
		break
	}
	if phi, ok := cond.(*ssa.Phi); ok {
		if d, known := a[phi]; known {
			return CondFacts(d, truth)
		}
	}
	return nil
}

func (e boolEnv) key() string {
	if len(e) == 0 {
		return ""
	}
	parts := make([]string, 0, len(e))
	for p, v := range e {
		if v {
			parts = append(parts, p.Name()+"=T")
		} else {
			parts = append(parts, p.Name()+"=F")
		}
	}
	sort.Strings(parts)
	return strings.Join(parts, ",")
}

func (e boolEnv) enter(pred, succ *ssa.BasicBlock) boolEnv {
	idx := -1
	for i, p := range succ.Preds {
		if p == pred {
			idx = i
		}
	}
	out := boolEnv{}
	for k, v := range e {
		out[k] = v
	}
	if idx < 0 {
		return out
	}
	// phis are evaluated simultaneously: read from e, write to out
	for _, ins := range succ.Instrs {
		phi, ok := ins.(*ssa.Phi)
		if !ok {
			break
		}
		if b, isB := phi.Type().Underlying().(*types.Basic); !isB || b.Kind() != types.Bool {
			continue
		}
		in := phi.Edges[idx]
		if c, ok := ConstBool(in); ok {
			out[phi] = c
		} else if src, ok := in.(*ssa.Phi); ok {
			if v, known := e[src]; known {
				out[phi] = v
			} else {
				delete(out, phi)
			}
		} else {
			delete(out, phi)
		}
	}
	return out
}

// decide returns (value, known) of a branch condition under env.
func (e boolEnv) decide(cond ssa.Value) (bool, bool) {
	neg := false
	for i := 0; i < 4; i++ {
		if u, ok := cond.(*ssa.UnOp); ok && u.Op == token.NOT {
			cond = u.X
			neg = !neg
			continue
		}
		break
	}
	if phi, ok := cond.(*ssa.Phi); ok {
		if v, known := e[phi]; known {
			return v != neg, true
		}
	}
	return false, false
}

// Reach runs the search from the given start points and calls visit for every
// instruction reachable without passing a stop instruction or a stop edge.
// visit receives the predecessor block through which the instruction's block
// was entered (nil when the path started inside the block).
func (s Search) Reach(starts []Point, visit func(ins ssa.Instruction, via *ssa.BasicBlock)) {
	type key struct {
		b   *ssa.BasicBlock
		via *ssa.BasicBlock
		env string
	}
	seen := map[key]bool{}
	type item struct {
		p     Point
		via   *ssa.BasicBlock
		env   boolEnv
		alias aliasEnv
	}
	var work []item
	for _, p := range starts {
		work = append(work, item{p, nil, boolEnv{}, aliasEnv{}})
	}
	for len(work) > 0 {
		it := work[len(work)-1]
		work = work[:len(work)-1]
		b := it.p.Block
		if it.p.Idx == 0 {
			k := key{b, it.via, it.env.key() + "|" + it.alias.key()}
			if seen[k] {
				continue
			}
			seen[k] = true
		}
		stopped := false
		for i := it.p.Idx; i < len(b.Instrs); i++ {
			ins := b.Instrs[i]
			if s.StopInstr != nil && s.StopInstr(ins) {
				stopped = true
				break
			}
			visit(ins, it.via)
			if s.VisitAlias != nil {
				al := it.alias
				s.VisitAlias(ins, it.via, func(v ssa.Value) ssa.Value {
					for i := 0; i < 8; i++ {
						phi, ok := v.(*ssa.Phi)
						if !ok {
							return v
						}
						d, known := al[phi]
						if !known {
							return v
						}
						v = d
					}
					return v
				})
			}
			if s.VisitEnv != nil {
				env := it.env
				s.VisitEnv(ins, it.via, func(v ssa.Value) (bool, bool) {
					if c, ok := ConstBool(v); ok {
						return c, true
					}
					return env.decide(v)
				})
			}
		}
		if stopped {
			continue
		}
		only := -1
		if s.TrackBools && len(b.Instrs) > 0 {
			if iff, ok := b.Instrs[len(b.Instrs)-1].(*ssa.If); ok {
				if v, known := it.env.decide(iff.Cond); known {
					if v {
						only = 0
					} else {
						only = 1
					}
				}
			}
		}
		for si, succ := range b.Succs {
			if only >= 0 && si != only {
				continue
			}
			if s.StopEdge != nil && s.StopEdge(b, si) {
				continue
			}
			if s.StopEdgeF != nil {
				var pf []Fact
				if s.TrackBools && len(b.Instrs) > 0 && len(b.Succs) == 2 {
					if iff, ok := b.Instrs[len(b.Instrs)-1].(*ssa.If); ok {
						pf = it.alias.factsFor(iff.Cond, si == 0)
					}
				}
				if s.StopEdgeF(b, si, pf) {
					continue
				}
			}
			env := it.env
			alias := it.alias
			if s.TrackBools {
				env = it.env.enter(b, succ)
				if s.StopEdgeF != nil {
					alias = it.alias.enter(b, succ)
				}
			}
			if s.TrackPhis {
				alias = it.alias.enterT(b, succ, true)
			}
			work = append(work, item{Point{succ, 0}, b, env, alias})
		}
	}
}

// Returns lists the Return instructions of fn.
func Returns(fn *ssa.Function) []*ssa.Return {
	var out []*ssa.Return
	for _, b := range fn.Blocks {
		if len(b.Instrs) == 0 {
			continue
		}
		if r, ok := b.Instrs[len(b.Instrs)-1].(*ssa.Return); ok {
			out = append(out, r)
		}
	}
	return out
}

// ResultVia returns the value returned as result #i when the return block is
// entered through `via` (selecting the phi edge when the result is a phi of the
// return block itself). Named results spilled to allocs are forwarded.
func ResultVia(r *ssa.Return, i int, via *ssa.BasicBlock) ssa.Value {
	v := Resolve(r.Results[i])
	if phi, ok := v.(*ssa.Phi); ok && phi.Block() == r.Block() && via != nil {
		for k, p := range r.Block().Preds {
			if p == via {
				return Resolve(phi.Edges[k])
			}
		}
	}
	return v
}

// HasFact reports whether facts contain `x op y` (in either orientation).
func HasFact(facts []Fact, op token.Token, match func(x, y ssa.Value) bool) bool {
	for _, f := range facts {
		if f.Op == token.ILLEGAL {
			continue
		}
		if f.Op == op && match(f.X, f.Y) {
			return true
		}
		if Flip(f.Op) == op && match(f.Y, f.X) {
			return true
		}
	}
	return false
}

// HasBool reports whether facts contain the boolean truth of a value satisfying match.
func HasBool(facts []Fact, truth bool, match func(v ssa.Value) bool) bool {
	for _, f := range facts {
		if f.Op == token.ILLEGAL && f.Truth == truth && match(f.Bool) {
			return true
		}
	}
	return false
}

// Root chases a value through store->load forwarding, closure free-variable
// bindings and single-store locals to a canonical defining value, so that the
// same variable seen from a function and from its closures compares equal.
func Root(v ssa.Value) ssa.Value {
	for i := 0; i < 16; i++ {
		v = Resolve(v)
		switch x := v.(type) {
		case *ssa.FreeVar:
			if b := FreeVarBinding(x); b != nil {
				v = b
				continue
			}
			return v
		case *ssa.UnOp:
			if x.Op != token.MUL {
				return v
			}
			addr := x.X
			if fv, ok := addr.(*ssa.FreeVar); ok {
				if b := FreeVarBinding(fv); b != nil {
					addr = b
				}
			}
			if al, ok := addr.(*ssa.Alloc); ok {
				st := StoresTo(al)
				if len(st) == 1 {
					v = st[0].Val
					continue
				}
				return al
			}
			return v
		default:
			return v
		}
	}
	return v
}

// helperFacts returns the facts implied by "call returns pol" for a static callee with a body,
// a single boolean result and at most 8 blocks, when exactly one return can produce pol.
// HelperFacts exports helperFacts: the facts that hold inside a small boolean helper whenever its result
// #idx is pol (in terms of the helper's own values; direct parameter operands are replaced by the arguments).
func HelperFacts(call *ssa.Call, idx int, pol bool) []Fact { return helperFacts(call, idx, pol, 0) }

func helperFacts(call *ssa.Call, idx int, pol bool, depth int) []Fact {
	if depth > 3 {
		return nil
	}
	ci := Callee(call)
	fn := ci.Static
	if fn == nil || ci.Closure != nil || len(fn.Blocks) == 0 || len(fn.Blocks) > 8 || idx >= fn.Signature.Results().Len() {
		return nil
	}
	if b, ok := fn.Signature.Results().At(idx).Type().Underlying().(*types.Basic); !ok || b.Kind() != types.Bool {
		return nil
	}
	var cand []Fact
	n := 0
	for _, r := range Returns(fn) {
		v := r.Results[idx]
		if k, isConst := ConstBool(v); isConst {
			if k != pol {
				continue
			}
			n++
			cand = BlockFacts(r.Block())
			continue
		}
		n++
		cand = append(BlockFacts(r.Block()), CondFacts(v, pol)...)
	}
	if n != 1 {
		return nil
	}
	args := call.Call.Args
	subst := func(v ssa.Value) ssa.Value {
		if p, ok := v.(*ssa.Parameter); ok && p.Parent() == fn {
			for i, q := range fn.Params {
				if q == p && i < len(args) {
					return Resolve(args[i])
				}
			}
		}
		return v
	}
	out := make([]Fact, 0, len(cand))
	for _, f := range cand {
		via := f.Via
		if via == nil {
			via = call
		}
		if f.Op == token.ILLEGAL {
			out = append(out, Fact{Bool: subst(f.Bool), Truth: f.Truth, Via: via})
			continue
		}
		out = append(out, Fact{Op: f.Op, X: subst(f.X), Y: subst(f.Y), Via: via})
	}
	return out
}

// SameLoad reports whether a and b are the same SSA value or two loads of the same struct field
// reached through structurally identical field-address chains from the same base value, in a
// function that never stores to that field. (go/ssa does no CSE: `len(c.Args)` and `c.Args[i]`
// load the field twice. Calls between the loads are assumed not to change the field: the
// objects concerned are configuration records, which are not mutated at run time.)
func SameLoad(a, b ssa.Value) bool {
	a, b = Resolve(a), Resolve(b)
	if a == b {
		return true
	}
	la, ok1 := a.(*ssa.UnOp)
	lb, ok2 := b.(*ssa.UnOp)
	if !ok1 || !ok2 || la.Op != token.MUL || lb.Op != token.MUL {
		return false
	}
	fa, ok1 := la.X.(*ssa.FieldAddr)
	fb, ok2 := lb.X.(*ssa.FieldAddr)
	if !ok1 || !ok2 || fa.Field != fb.Field || !types.Identical(fa.X.Type(), fb.X.Type()) {
		return false
	}
	if !sameAddrBase(fa.X, fb.X, 4) {
		return false
	}
	fn := la.Parent()
	if fn == nil || fn != lb.Parent() {
		return false
	}
	for _, blk := range fn.Blocks {
		for _, ins := range blk.Instrs {
			if st, ok := ins.(*ssa.Store); ok {
				if sa, ok := st.Addr.(*ssa.FieldAddr); ok && sa.Field == fa.Field && types.Identical(sa.X.Type(), fa.X.Type()) {
					return false
				}
			}
		}
	}
	return true
}

func sameAddrBase(a, b ssa.Value, depth int) bool {
	if a == b {
		return true
	}
	if depth == 0 {
		return false
	}
	switch x := a.(type) {
	case *ssa.FieldAddr:
		y, ok := b.(*ssa.FieldAddr)
		return ok && x.Field == y.Field && types.Identical(x.X.Type(), y.X.Type()) && sameAddrBase(x.X, y.X, depth-1)
	case *ssa.UnOp:
		y, ok := b.(*ssa.UnOp)
		if !ok || x.Op != token.MUL || y.Op != token.MUL {
			return false
		}
		return SameLoad(x, y)
	}
	return Resolve(a) == Resolve(b)
}
