package mono_test

import (
	"testing"

	"f2gcheck/internal/ir"
	"f2gcheck/internal/mono"
	"f2gcheck/internal/testutil"

	"golang.org/x/tools/go/ssa"
)

const src = `package fx

import "math"

func ramp(t, lo, hi float64) int {
	if t >= hi {
		return 255
	} else if t <= lo {
		return 0
	}
	ratio := (t - lo) / (hi - lo)
	return int(ratio * 255)
}

func rampPhi(t, lo, hi float64) (value int) {
	if t >= hi {
		value = 255
	} else if t <= lo {
		value = 0
	} else {
		ratio := (t - lo) / (hi - lo)
		value = int(ratio * 255)
	}
	return value
}

// wrong: falling ramp
func rampDown(t, lo, hi float64) int {
	if t >= hi {
		return 255
	} else if t <= lo {
		return 0
	}
	ratio := (hi - t) / (hi - lo)
	return int(ratio * 255)
}

// wrong: the saturated ends are swapped
func rampSwapped(t, lo, hi float64) int {
	if t >= hi {
		return 0
	} else if t <= lo {
		return 255
	}
	ratio := (t - lo) / (hi - lo)
	return int(ratio * 255)
}

// wrong: the middle piece overshoots the upper end (300 > 255 -> a dip at hi)
func rampOvershoot(t, lo, hi float64) int {
	if t >= hi {
		return 255
	} else if t <= lo {
		return 0
	}
	ratio := (t - lo) / (hi - lo)
	return int(ratio * 300)
}

func clamp(t int) int {
	if t > 255 {
		t = 255
	} else if t < 0 {
		t = 0
	}
	return t
}

func coerce(v, lo, hi float64) float64 {
	if v > hi {
		return hi
	}
	if v < lo {
		return lo
	}
	return v
}

func cycle(target, current int, limit *int) int {
	step := float64(target)
	if limit != nil {
		m := *limit
		e := float64(target - current)
		c := coerce(e, -float64(m), +float64(m))
		step = float64(current) + c
	}
	return int(math.Round(coerce(step, 0, 255)))
}

func sum(vs []int) int {
	s := 0
	for _, v := range vs {
		s += v
	}
	return int(math.Min(255, float64(s)))
}

func diff(vs []int) int {
	d := 0
	for i, v := range vs {
		if i == 0 {
			d = v
		} else {
			d -= v
		}
	}
	return d
}

func maxOf(vs []int) int {
	var m float64
	for _, v := range vs {
		m = math.Max(m, float64(v))
	}
	return int(m)
}

func maxIf(vs []int) int {
	m := 0
	for _, v := range vs {
		if v > m {
			m = v
		}
	}
	return m
}

func avg(vs []int) int {
	t := 0
	for _, v := range vs {
		t += v
	}
	return t / len(vs)
}

// not monotone: values above 10 are skipped
func sumSkip(vs []int) int {
	s := 0
	for _, v := range vs {
		if v > 10 {
			continue
		}
		s += v
	}
	return s
}

func bump(t, last int, stalled bool) int {
	if stalled && last == t {
		t++
	}
	return t
}

func rescale(t, lo, hi int) int {
	return lo + int((float64(t)/255)*(float64(hi)-float64(lo)))
}
`

func param(f *ssa.Function, name string) ssa.Value {
	for _, p := range f.Params {
		if p.Name() == name {
			return p
		}
	}
	return nil
}

func elems(f *ssa.Function, name string) func(v ssa.Value) (mono.Dir, bool) {
	p := param(f, name)
	return func(v ssa.Value) (mono.Dir, bool) {
		if ex, ok := v.(*ssa.Extract); ok && ex.Index == 1 {
			if nx, ok := ex.Tuple.(*ssa.Next); ok {
				if rg, ok := nx.Iter.(*ssa.Range); ok && rg.X == p {
					return mono.Up, true
				}
			}
		}
		if u, ok := v.(*ssa.UnOp); ok {
			if ia, ok := u.X.(*ssa.IndexAddr); ok && ia.X == p {
				return mono.Up, true
			}
		}
		return mono.Indep, false
	}
}

func TestMono(t *testing.T) {
	p := testutil.Load(t, src)
	inline := func(f *ssa.Function) bool { return f.Name() == "coerce" }
	cases := []struct {
		fn, in string
		elems  bool
		want   mono.Dir
		sign   string // parameter-difference assumed >= 0: "hi-lo"
	}{
		{"ramp", "t", false, mono.Up, ""},
		{"rampPhi", "t", false, mono.Up, ""},
		{"rampDown", "t", false, mono.Unknown, ""},
		{"rampSwapped", "t", false, mono.Unknown, ""},
		{"rampOvershoot", "t", false, mono.Unknown, ""},
		{"clamp", "t", false, mono.Up, ""},
		{"coerce", "v", false, mono.Unknown, ""},     // not monotone when lo > hi
		{"cycle", "target", false, mono.Unknown, ""}, // limit may be negative
		{"cycle", "target", false, mono.Up, "limit"},
		{"sum", "vs", true, mono.Up, ""},
		{"diff", "vs", true, mono.Unknown, ""},
		{"maxOf", "vs", true, mono.Up, ""},
		{"maxIf", "vs", true, mono.Up, ""},
		{"avg", "vs", true, mono.Up, ""},
		{"sumSkip", "vs", true, mono.Unknown, ""},
		{"bump", "t", false, mono.Up, ""},
		{"rescale", "t", false, mono.Unknown, ""},
	}
	for _, c := range cases {
		f := p.Func(c.fn)
		an := mono.New(f)
		an.Inline = inline
		if c.elems {
			an.Source = elems(f, c.in)
		} else {
			in := param(f, c.in)
			an.Source = func(v ssa.Value) (mono.Dir, bool) {
				if v == in {
					return mono.Up, true
				}
				return mono.Indep, false
			}
		}
		if c.sign != "" {
			lim := param(f, c.sign)
			an.Sign = func(v ssa.Value, _ []ir.Fact) (bool, bool, bool) {
				if u, ok := v.(*ssa.UnOp); ok && u.X == lim {
					return true, false, true
				}
				return false, false, false
			}
		}
		got := an.Result(0)
		if got != c.want {
			t.Errorf("%s in %s: got %v, want %v (%s)", c.fn, c.in, got, c.want, an.Explain())
		}
	}
}
