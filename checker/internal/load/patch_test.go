package load

import (
	"os"
	"path/filepath"
	"strings"
	"testing"
)

func TestOverlayFromPatch(t *testing.T) {
	dir := t.TempDir()
	os.MkdirAll(filepath.Join(dir, "a"), 0o755)
	os.WriteFile(filepath.Join(dir, "a", "x.go"), []byte("package a\n\nfunc f() int {\n\treturn 1\n}\n\nfunc g() int {\n\treturn 2\n}\n"), 0o644)
	patch := "--- a/a/x.go\n+++ b/a/x.go\n@@ -6,4 +6,5 @@ func f() int {\n \n func g() int {\n-\treturn 2\n+\tv := 3\n+\treturn v\n }\n"
	pf := filepath.Join(dir, "p.diff")
	os.WriteFile(pf, []byte(patch), 0o644)
	ov, err := OverlayFromPatch(dir, pf)
	if err != nil {
		t.Fatal(err)
	}
	got := string(ov[filepath.Join(dir, "a", "x.go")])
	if !strings.Contains(got, "v := 3") || strings.Contains(got, "return 2") || !strings.Contains(got, "return 1") {
		t.Errorf("patch not applied correctly:\n%s", got)
	}
	// a patch whose context does not match must be refused
	bad := strings.Replace(patch, "func g() int {", "func h() int {", 1)
	os.WriteFile(pf, []byte(bad), 0o644)
	if _, err := OverlayFromPatch(dir, pf); err == nil {
		t.Errorf("a non-applying patch must be an error")
	}
}
