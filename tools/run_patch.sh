#!/bin/bash
# usage: tools/run_patch.sh <patch-file> <property> [tier]  — apply a patch to /repo, run the check, undo.
PF=$1; P=$2; T=${3:-quick}
if ! git -C /repo diff --quiet; then echo "/repo has uncommitted changes"; exit 2; fi
git -C /repo apply $PF || { echo "patch does not apply"; exit 2; }
/verif/bin/f2gcheck -prop $P -tier $T > /root/.runpatch.$$ 2>&1; rc=$?
git -C /repo checkout -- . ; git -C /repo clean -qfd
grep -E "VIOLATION|UNDECIDED|KNOWN-FINDING|obligations,|panic" /root/.runpatch.$$ | grep -v "^VIOLATION property" | cut -c1-420
echo "exit=$rc"; rm -f /root/.runpatch.$$
exit $rc
