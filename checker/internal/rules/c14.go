package rules

import (
	"go/token"
	"sort"
	"strings"

	"f2gcheck/internal/ir"

	"golang.org/x/tools/go/ssa"
)

func init() { Registry["C14"] = c14 }

const boltPkg = "go.etcd.io/bbolt"

type boltOp struct {
	call *ssa.Call
	kind string // Bucket, CreateBucketIfNotExists, CreateBucket, DeleteBucket, Put, Get, Delete
	fn   *ssa.Function
}

func boltOpKind(call *ssa.Call) string {
	n := ir.CallName(call)
	for _, k := range []string{"Bucket", "CreateBucketIfNotExists", "CreateBucket", "DeleteBucket"} {
		if n == "(*"+boltPkg+".Tx)."+k || n == "(*"+boltPkg+".Bucket)."+k {
			return k
		}
	}
	for _, k := range []string{"Put", "Get", "Delete"} {
		if n == "(*"+boltPkg+".Bucket)."+k {
			return k
		}
	}
	return ""
}

func c14(c *Ctx) {
	c.R.Explanation = "C14: isolation and transaction structure (necessary conditions) decided on the SSA of /repo for every implementation of persistence.Persistence. R-bucket = every bucket name used by a method is the string constant of that method's kind (the constant used by Save<Kind>), the two kinds use different constants, and every key handed to Put/Get/Delete is the fan id (fan.GetId() of the fan parameter / the fanId parameter), never anything else; the six methods are cross-checked pairwise. R-txn = all bucket operations of a method happen inside one closure passed to (*bolt.DB).Update or View, and mutating operations (Put, Delete, CreateBucket*) only inside Update. R-results = Load returns os.ErrNotExist from the nil-bucket and nil-value edges and, from the error edge of json.Unmarshal, every path calls Delete(key) (the corrupt entry is discarded); Delete returns the nil constant on the missing-bucket and missing-key edges; the transaction's error is what the method returns. R-data = Save puts json.Marshal of data derived from its parameter, Load unmarshals into the variable it returns. Not decided: value equality after the JSON round trip, durability and SIGKILL atomicity (bbolt run-time behaviour)."
	c.R.Assumptions = append(c.R.Assumptions, "bbolt: Update/View run the closure synchronously in one transaction; a write inside View fails with 'tx not writable'")
	tb := ir.NewTB(c.P.IsRepoFunc, c.P.FuncKey)
	tb.InlineMaxBlocks = 0

	impls := c.Impls(PkgPersist, "Persistence")
	if len(impls) == 0 {
		c.R.Undecided("R-bucket", "no-impl", "Persistence", "-", "no implementation found")
		return
	}
	kinds := []string{"FanPwmData", "FanPwmMap"}
	verbs := []string{"Save", "Load", "Delete"}
	for _, impl := range impls {
		bucketOf := map[string]string{} // kind -> constant
		type minfo struct {
			fn      *ssa.Function
			ops     []boltOp
			buckets map[string]bool
			tb      *ir.TB
			tree    map[*ssa.Function]bool
		}
		methods := map[string]*minfo{}
		for _, k := range kinds {
			for _, v := range verbs {
				name := v + k
				fn := c.Method(impl, name)
				if fn == nil || len(fn.Blocks) == 0 {
					c.R.Undecided("R-bucket", impl.Obj().Name()+"."+name, name, "-", "method not found")
					continue
				}
				mi := &minfo{fn: fn, buckets: map[string]bool{}}
				methods[name] = mi
				fk := c.FK(fn)
				c.R.Note("functions", fk)
				// collect bolt operations in the method and its closures
				// the method's own code: static callees inside the package and function literals nested in them.
				// Calls through function-typed parameters (withDB(func(db) error {...})) are not resolved through
				// the call graph - that would pull in the literals every other method passes to the same helper;
				// the literal this method passes is lexically nested in it and is included that way.
				tree := map[*ssa.Function]bool{}
				var grow func(f *ssa.Function)
				grow = func(f *ssa.Function) {
					if f == nil || tree[f] || len(f.Blocks) == 0 || load_FuncPkgPath(f) != PkgPersist {
						return
					}
					tree[f] = true
					for _, a := range f.AnonFuncs {
						grow(a)
					}
					Calls(f, func(cc ssa.CallInstruction) {
						if st := ir.Callee(cc).Static; st != nil && ir.Callee(cc).Closure == nil {
							grow(st)
						}
					})
				}
				grow(fn)
				mi.tree = tree
				// terms are built in the context of this method: parameters of helpers shared by several
				// methods are resolved through the call site inside this method's own call tree
				tb := ir.NewTB(c.P.IsRepoFunc, c.P.FuncKey)
				tb.InlineMaxBlocks = 0
				tb.ParamCallers = c.CallersIn(tree)
				mi.tb = tb
				for _, f := range c.SortedFuncs(tree) {
					Calls(f, func(cc ssa.CallInstruction) {
						if call, ok := cc.(*ssa.Call); ok {
							if kind := boltOpKind(call); kind != "" {
								mi.ops = append(mi.ops, boltOp{call, kind, f})
								return
							}
							// any other bbolt API (cursors, ForEach, sequences, nested buckets ...) has no summary here
							if n := ir.CallName(call); strings.Contains(n, boltPkg+".") {
								switch n {
								case boltPkg + ".Open", "(*" + boltPkg + ".DB).Close", "(*" + boltPkg + ".DB).Update", "(*" + boltPkg + ".DB).View":
								default:
									c.R.Undecided("R-bucket", c.FK(mi.fn)+"|unmodelled|"+n, c.FK(f), c.P.Pos(call.Pos()), "bbolt operation "+n+" has no summary in this check (keys touched through it cannot be tied to the fan id): isolation is not decided")
								}
							}
						}
					})
				}
				if len(mi.ops) == 0 {
					c.R.Bad("R-txn", fk+"|no-ops", fk, c.P.Pos(fn.Pos()), "method performs no bucket operation")
					continue
				}
				// ---- R-txn -----------------------------------------------------------
				closures := map[*ssa.Function]bool{}
				for _, op := range mi.ops {
					closures[op.fn] = true
				}
				if len(closures) != 1 {
					c.R.Bad("R-txn", fk+"|single-txn", fk, c.P.Pos(fn.Pos()), sprintf("bucket operations are spread over %d functions (not one transaction closure)", len(closures)))
				}
				for cl := range closures {
					mc := ir.MakeClosureOf(cl)
					mode := ""
					if mc != nil {
						if refs := mc.Referrers(); refs != nil {
							for _, r := range *refs {
								if call, ok := r.(*ssa.Call); ok {
									switch ir.CallName(call) {
									case "(*" + boltPkg + ".DB).Update":
										mode = "Update"
									case "(*" + boltPkg + ".DB).View":
										mode = "View"
									case "(*" + boltPkg + ".DB).Batch":
										mode = "Batch"
									}
								}
							}
						}
					}
					mutates := ""
					for _, op := range mi.ops {
						if op.fn == cl && (op.kind == "Put" || op.kind == "Delete" || strings.HasPrefix(op.kind, "CreateBucket") || op.kind == "DeleteBucket") {
							mutates = op.kind + " at " + c.P.Pos(op.call.Pos())
						}
					}
					switch {
					case mode == "":
						c.R.Bad("R-txn", fk+"|in-txn", fk, c.P.Pos(cl.Pos()), "bucket operations are not inside a closure passed to (*bolt.DB).Update/View")
					case mutates != "" && mode != "Update":
						c.R.Bad("R-txn", fk+"|in-txn", fk, c.P.Pos(cl.Pos()), "a mutating bucket operation ("+mutates+") runs inside db."+mode+": it fails with 'tx not writable' (e.g. a corrupt entry is never discarded)")
					default:
						c.R.Ok("R-txn", fk+"|in-txn", fk, c.P.Pos(cl.Pos()), sprintf("%d bucket operation(s) inside one db.%s closure", len(mi.ops), mode))
					}
				}
				// ---- R-bucket: names and keys ---------------------------------------------
				for _, op := range mi.ops {
					switch op.kind {
					case "Bucket", "CreateBucketIfNotExists", "CreateBucket", "DeleteBucket":
						t := tb.Of(op.call.Call.Args[1], nil)
						if strings.HasPrefix(t.Op, "const:") {
							mi.buckets[strings.Trim(strings.TrimPrefix(t.Op, "const:"), "\"")] = true
						} else {
							c.R.Bad("R-bucket", fk+"|bucket-name", fk, c.P.Pos(op.call.Pos()), "bucket name is not a constant: "+t.String())
						}
					case "Put", "Get", "Delete":
						t := tb.Of(op.call.Call.Args[1], nil)
						isId := false
						if strings.HasPrefix(t.Op, "invoke:") && strings.HasSuffix(t.Op, "fans.Fan.GetId") && len(t.Args) == 1 && strings.HasPrefix(t.Args[0].Op, "param:") {
							isId = true
						}
						if strings.HasPrefix(t.Op, "param:") && strings.Contains(strings.ToLower(t.Op), "id") {
							isId = true
						}
						if isId {
							c.R.Ok("R-bucket", fk+"|key|"+op.kind, fk, c.P.Pos(op.call.Pos()), op.kind+" key = "+t.String())
						} else {
							c.R.Bad("R-bucket", fk+"|key|"+op.kind, fk, c.P.Pos(op.call.Pos()), op.kind+" key is not the fan id of the method's parameter: "+t.String())
						}
					}
				}
				var bs []string
				for b := range mi.buckets {
					bs = append(bs, b)
				}
				sort.Strings(bs)
				if v == "Save" {
					if len(bs) == 1 {
						bucketOf[k] = bs[0]
					} else {
						c.R.Bad("R-bucket", fk+"|bucket-name", fk, c.P.Pos(fn.Pos()), sprintf("Save uses %d bucket names %v", len(bs), bs))
					}
				}
			}
		}
		// kinds must be disjoint, siblings must agree
		if bucketOf["FanPwmData"] != "" && bucketOf["FanPwmData"] == bucketOf["FanPwmMap"] {
			c.R.Bad("R-bucket", impl.Obj().Name()+"|kinds-disjoint", impl.Obj().Name(), "-", "both kinds of data are stored in the same bucket "+bucketOf["FanPwmMap"])
		} else {
			c.R.Ok("R-bucket", impl.Obj().Name()+"|kinds-disjoint", impl.Obj().Name(), "-", sprintf("bucket constants: %v", bucketOf))
		}
		for _, k := range kinds {
			for _, v := range verbs {
				mi := methods[v+k]
				if mi == nil {
					continue
				}
				fk := c.FK(mi.fn)
				ok := len(mi.buckets) == 1 && mi.buckets[bucketOf[k]]
				if ok {
					c.R.Ok("R-bucket", fk+"|bucket-name", fk, c.P.Pos(mi.fn.Pos()), "uses only bucket \""+bucketOf[k]+"\" (the constant of Save"+k+")")
				} else {
					var bs []string
					for b := range mi.buckets {
						bs = append(bs, b)
					}
					sort.Strings(bs)
					c.R.Bad("R-bucket", fk+"|bucket-name", fk, c.P.Pos(mi.fn.Pos()), sprintf("uses bucket(s) %v, but Save%s uses \"%s\": entries of one kind/fan would be read, overwritten or deleted by operations of the other", bs, k, bucketOf[k]))
				}
			}
		}
		// sibling agreement on operation structure
		for _, v := range verbs {
			a, b := methods[v+"FanPwmData"], methods[v+"FanPwmMap"]
			if a == nil || b == nil {
				continue
			}
			sig := func(m *minfo) string {
				var ks []string
				for _, op := range m.ops {
					ks = append(ks, op.kind)
				}
				sort.Strings(ks)
				return strings.Join(ks, ",")
			}
			if sig(a) == sig(b) {
				c.R.Ok("R-siblings", impl.Obj().Name()+"|"+v, v+"*", "-", "both kinds perform the same bucket operations: "+sig(a))
			} else {
				c.R.Bad("R-siblings", impl.Obj().Name()+"|"+v, v+"*", "-", "the two kinds differ in their bucket operations: "+sig(a)+" vs "+sig(b))
			}
		}

		// outcome of an error value: does it (on every path that can yield nil) stem from the transaction?
		//   txn    - the value is the result of DB.Update/View (possibly handed through helpers that
		//            return what the function literal they are given returns)
		//   silent - position of a nil-capable result that did not come from the transaction
		fn0 := func(ins ssa.Instruction) *ssa.Function { return ins.Parent() }
		var errOutcomes func(fn *ssa.Function, bind map[*ssa.Parameter]ssa.Value, depth int) (txn bool, silent string)
		var valueOutcome func(ev ssa.Value, facts []ir.Fact, pos string, bind map[*ssa.Parameter]ssa.Value, depth int) (bool, string)
		valueOutcome = func(ev ssa.Value, facts []ir.Fact, pos string, bind map[*ssa.Parameter]ssa.Value, depth int) (bool, string) {
			rv := ir.Resolve(ev)
			if !mayBeNilError(ev, facts) || !mayBeNilError(rv, facts) {
				return false, "" // a failure is handed on: nothing to show
			}
			if phi, ok := rv.(*ssa.Phi); ok && depth < 6 {
				txn, silent := false, ""
				for i, e := range phi.Edges {
					t2, s2 := valueOutcome(e, factsAt(phi.Block(), phi.Block().Preds[i]), pos, bind, depth+1)
					txn = txn || t2
					if s2 != "" {
						silent = s2
					}
				}
				return txn, silent
			}
			call, isCall := rv.(*ssa.Call)
			if ex, isEx := rv.(*ssa.Extract); isEx {
				// `return helper(...)` with several results: the error component of the helper's tuple
				if tc, ok := ex.Tuple.(*ssa.Call); ok {
					if st := ir.Callee(tc).Static; st != nil && errResultIndex(st) == ex.Index {
						call, isCall = tc, true
					}
				}
			}
			if ok := isCall; ok && depth < 6 {
				if strings.HasPrefix(ir.CallName(call), "(*"+boltPkg+".DB).") {
					return true, ""
				}
				// the function literal handed to a helper, invoked through the helper's parameter
				if p, isParam := call.Call.Value.(*ssa.Parameter); isParam && bind != nil {
					if fv, ok := bind[p]; ok {
						switch f := ir.Resolve(fv).(type) {
						case *ssa.MakeClosure:
							return errOutcomes(f.Fn.(*ssa.Function), nil, depth+1)
						case *ssa.Function:
							return errOutcomes(f, nil, depth+1)
						}
					}
				}
				if st := ir.Callee(call).Static; st != nil && ir.Callee(call).Closure == nil && load_FuncPkgPath(st) == PkgPersist && len(st.Blocks) > 0 && errResultIndex(st) >= 0 {
					nb := map[*ssa.Parameter]ssa.Value{}
					for i, q := range st.Params {
						if i < len(call.Call.Args) {
							nb[q] = call.Call.Args[i]
						}
					}
					return errOutcomes(st, nb, depth+1)
				}
			}
			// a named result spilled to memory (functions with defers): any of the values stored into it
			if u, ok := rv.(*ssa.UnOp); ok && u.Op == token.MUL && depth < 6 {
				if al, ok := u.X.(*ssa.Alloc); ok {
					if stores := ir.StoresTo(al); len(stores) > 0 {
						txn, silent := false, ""
						for _, st := range stores {
							if ir.IsNilConst(st.Val) && st.Block() == fn0(st).Blocks[0] {
								continue // zero initialisation of the named result
							}
							t2, s2 := valueOutcome(st.Val, ir.BlockFacts(st.Block()), c.P.Pos(st.Pos()), bind, depth+1)
							txn = txn || t2
							if s2 != "" {
								silent = s2
							}
						}
						return txn, silent
					}
				}
			}
			if mayBeNilError(ev, facts) {
				return false, pos
			}
			return false, ""
		}
		errOutcomes = func(fn *ssa.Function, bind map[*ssa.Parameter]ssa.Value, depth int) (bool, string) {
			ei := errResultIndex(fn)
			txn, silent := false, ""
			if ei < 0 || depth > 6 {
				return false, ""
			}
			for _, r := range ir.Returns(fn) {
				if r.Block() == fn.Recover {
					continue // the compiler-generated return taken after a recovered panic
				}
				vias := []*ssa.BasicBlock{nil}
				if phi, ok := ir.Resolve(r.Results[ei]).(*ssa.Phi); ok && phi.Block() == r.Block() {
					vias = r.Block().Preds
				}
				for _, via := range vias {
					t2, s2 := valueOutcome(ir.ResultVia(r, ei, via), factsAt(r.Block(), via), c.P.Pos(r.Pos()), bind, depth)
					txn = txn || t2
					if s2 != "" {
						silent = s2
					}
				}
			}
			return txn, silent
		}
		checkTxnReturn := func(mi *minfo, fk string) {
			// the method returns the transaction's error
			okRet, silent := errOutcomes(mi.fn, nil, 0)
			if okRet && silent != "" {
				c.R.Bad("R-results", fk+"|txn-error-returned", fk, silent, "the method can report success (nil error) on a path that never ran the transaction: the operation is silently skipped and a later load returns something else than what was saved")
			} else if okRet {
				c.R.Ok("R-results", fk+"|txn-error-returned", fk, c.P.Pos(mi.fn.Pos()), "the method returns the transaction's result")
			} else {
				c.R.Bad("R-results", fk+"|txn-error-returned", fk, c.P.Pos(mi.fn.Pos()), "the result of the transaction is not returned")
			}
		}
		// ---- R-results -------------------------------------------------------------------
		for _, k := range kinds {
			for _, v := range []string{"Load", "Delete"} {
				mi := methods[v+k]
				if mi == nil || len(mi.ops) == 0 {
					continue
				}
				cl := mi.ops[0].fn
				fk := c.FK(mi.fn)
				var bucketV, getV ssa.Value
				var getCall *ssa.Call
				for _, op := range mi.ops {
					if op.kind == "Bucket" {
						bucketV = op.call
					}
					if op.kind == "Get" {
						getV = op.call
						getCall = op.call
					}
				}
				_ = getCall
				wantNotExist := v == "Load"
				for name, val := range map[string]ssa.Value{"missing-bucket": bucketV, "missing-key": getV} {
					if val == nil {
						c.R.Bad("R-results", fk+"|"+name, fk, c.P.Pos(cl.Pos()), "no "+name+" test: bucket/value is used without a nil check")
						continue
					}
					var es []edge
					for _, b := range cl.Blocks {
						for si := range b.Succs {
							if ir.HasFact(ir.EdgeFacts(b, si), token.EQL, func(x, y ssa.Value) bool { return x == val && ir.IsNilConst(y) }) {
								es = append(es, edge{b, si})
							}
						}
					}
					if len(es) == 0 {
						c.R.Bad("R-results", fk+"|"+name, fk, c.P.Pos(cl.Pos()), "the "+name+" case is not tested")
						continue
					}
					bad := ""
					for _, rv := range returnsFrom(edgeStarts(es), ir.Search{}) {
						t := mi.tb.Of(ir.ResultVia(rv.ret, 0, rv.via), nil)
						if wantNotExist && t.Op != "global:os.ErrNotExist" {
							bad = "returns " + t.String() + " at " + c.P.Pos(rv.ret.Pos())
						}
						if !wantNotExist && t.Op != "nil" {
							bad = "returns " + t.String() + " at " + c.P.Pos(rv.ret.Pos())
						}
					}
					want := "nil (idempotent delete)"
					if wantNotExist {
						want = "os.ErrNotExist"
					}
					if bad != "" {
						c.R.Bad("R-results", fk+"|"+name, fk, c.P.Pos(cl.Pos()), "on the "+name+" edge the transaction "+bad+" instead of "+want)
					} else {
						c.R.Ok("R-results", fk+"|"+name, fk, c.P.Pos(cl.Pos()), "the "+name+" edge returns "+want)
					}
				}
				if v == "Load" {
					// corrupt entry discarded
					var um *ssa.Call
					Calls(cl, func(cc ssa.CallInstruction) {
						if call, ok := cc.(*ssa.Call); ok && ir.CallName(call) == "encoding/json.Unmarshal" {
							um = call
						}
					})
					if um == nil {
						c.R.Bad("R-results", fk+"|corrupt-discarded", fk, c.P.Pos(cl.Pos()), "Load does not decode with json.Unmarshal inside the transaction")
					} else {
						es := nilEdges(cl, um, true)
						isDel := func(ins ssa.Instruction) bool {
							call, ok := ins.(*ssa.Call)
							return ok && boltOpKind(call) == "Delete"
						}
						rets := returnsFrom(edgeStarts(es), ir.Search{StopInstr: isDel})
						if len(es) == 0 || len(rets) > 0 {
							c.R.Bad("R-results", fk+"|corrupt-discarded", fk, c.P.Pos(um.Pos()), "after a failed json.Unmarshal the transaction can return without deleting the undecodable entry")
						} else {
							c.R.Ok("R-results", fk+"|corrupt-discarded", fk, c.P.Pos(um.Pos()), "every path from the error edge of json.Unmarshal calls Delete(key)")
						}
						// unmarshal target is the variable the method returns
						tgt := ir.RootP(um.Call.Args[1], mi.tb.ParamCallers)
						var returnsTarget func(fn *ssa.Function, depth int) bool
						returnsTarget = func(fn *ssa.Function, depth int) bool {
							for _, r := range ir.Returns(fn) {
								if len(r.Results) == 0 {
									continue
								}
								rv := ir.Resolve(r.Results[0])
								if u, ok := rv.(*ssa.UnOp); ok && u.Op == token.MUL && (ir.Root(u.X) == tgt || u.X == tgt) {
									return true
								}
								if al, ok := tgt.(*ssa.Alloc); ok {
									t := tb.Of(r.Results[0], nil)
									if t.Has(func(x *ir.Term) bool { return x.Val != nil && x.Val == ssa.Value(al) }) || strings.Contains(t.String(), al.Comment) {
										return true
									}
								}
								// `return helper(...)`: the helper (of this method's own code) returns the target
								var hc *ssa.Call
								switch x := rv.(type) {
								case *ssa.Call:
									hc = x
								case *ssa.Extract:
									if x.Index == 0 {
										hc, _ = x.Tuple.(*ssa.Call)
									}
								}
								if hc != nil && depth < 3 {
									if st := ir.Callee(hc).Static; st != nil && mi.tree[st] && st != fn && returnsTarget(st, depth+1) {
										return true
									}
								}
							}
							return false
						}
						returned := returnsTarget(mi.fn, 0)
						if returned {
							c.R.Ok("R-data", fk+"|decode-target", fk, c.P.Pos(um.Pos()), "json.Unmarshal decodes into the variable that Load returns")
						} else {
							c.R.Bad("R-data", fk+"|decode-target", fk, c.P.Pos(um.Pos()), "the decoded value is not what Load returns")
						}
					}
				}
				checkTxnReturn(mi, fk)
			}
			if mi := methods["Save"+k]; mi != nil && len(mi.ops) > 0 {
				checkTxnReturn(mi, c.FK(mi.fn))
			}
			// R-data for Save
			if mi := methods["Save"+k]; mi != nil {
				fk := c.FK(mi.fn)
				for _, op := range mi.ops {
					if op.kind != "Put" {
						continue
					}
					t := mi.tb.Of(op.call.Call.Args[2], nil)
					m := t.Find(func(x *ir.Term) bool { return x.Op == "call:encoding/json.Marshal" })
					if m == nil {
						c.R.Bad("R-data", fk+"|put-value", fk, c.P.Pos(op.call.Pos()), "the stored value is not the json.Marshal of the data: "+t.String())
					} else {
						c.R.Ok("R-data", fk+"|put-value", fk, c.P.Pos(op.call.Pos()), "Put stores json.Marshal(...) of the method's data")
					}
				}
			}
		}
	}
	c.R.Require("R-bucket", 12)
	c.R.Require("R-txn", 6)
	c.R.Require("R-results", 10)
}
