package rules

import (
	"go/token"
	"go/types"
	"strings"

	"f2gcheck/internal/ir"

	"golang.org/x/tools/go/ssa"
)

func init() { Registry["C15"] = c15 }

func isPersistInvoke(cc ssa.CallInstruction, method string) bool {
	return ir.IsInvoke(cc, PkgPersist, "Persistence", method)
}

// cobraCommands maps the `Use` string of every cobra.Command literal in pkg to its Run/RunE function.
func (c *Ctx) cobraCommands(pkgPath string) map[string]*ssa.Function {
	out := map[string]*ssa.Function{}
	pk := c.P.SSAPkgs[pkgPath]
	if pk == nil {
		return out
	}
	initFn := pk.Func("init")
	if initFn == nil {
		return out
	}
	type lit struct {
		use string
		run *ssa.Function
	}
	lits := map[ssa.Value]*lit{}
	Instrs(initFn, func(ins ssa.Instruction) {
		st, ok := ins.(*ssa.Store)
		if !ok {
			return
		}
		fa, ok := st.Addr.(*ssa.FieldAddr)
		if !ok {
			return
		}
		n := ir.NamedOf(fa.X.Type())
		if n == nil || n.Obj().Pkg() == nil || n.Obj().Pkg().Path() != "github.com/spf13/cobra" || n.Obj().Name() != "Command" {
			return
		}
		_, fname, _ := ir.FieldName(fa)
		l := lits[fa.X]
		if l == nil {
			l = &lit{}
			lits[fa.X] = l
		}
		switch fname {
		case "Use":
			if s, ok := ir.ConstString(st.Val); ok {
				l.use = s
			}
		case "RunE", "Run":
			if f := fnOfValue(st.Val); f != nil {
				l.run = f
			}
		}
	})
	for _, l := range lits {
		if l.use != "" && l.run != nil {
			out[strings.Fields(l.use)[0]] = l.run
		}
	}
	return out
}

func c15(c *Ctx) {
	c.R.Explanation = "C15 decided with guarded-path rules on the SSA of /repo. R-map = in every function that loads the stored PWM map (Persistence.LoadFanPwmMap) every path from that call to a call that can sweep the fan (a function that stores the controller's map field and reaches Fan.SetPwm) crosses an edge establishing err != nil or loaded map == nil. R-override = interprocedural typestate from FanController.Run and RunInitializationSequence: LoadFanPwmMap and the sweep are reachable only in state 'configured pwmMap established nil' (set on edges establishing <Config.PwmMap-derived value> == nil); and on the non-nil edge the configured map is stored into the controller's map field before returning. R-data = in Run every path from LoadFanPwmData to RunInitializationSequence crosses the err != nil edge of that load. R-readme = the RunInitializationSequence call in Run is control-dependent on a test of the configured minPwm and maxPwm (README promise). R-reset = the cobra commands 'reset' and 'init' of cmd/fan delete both stored entries on every path to a nil-error return, and 'init' deletes them before running the initialisation. R-keep = in the call tree of FanController.Run (including the transaction closures of the persistence methods it uses) a bbolt Delete / DeleteBucket is reachable only on the error edge of json.Unmarshal: the daemon never discards stored characterisation on a condition of its own. Not decided: the database's run-time behaviour."
	tb := ir.NewTB(c.P.IsRepoFunc, c.P.FuncKey)
	tb.InlineMaxBlocks = 0

	runs := c.ImplMethods(PkgCtrl, "FanController", "Run")
	inits := c.ImplMethods(PkgCtrl, "FanController", "RunInitializationSequence")
	if len(runs) == 0 || len(inits) == 0 {
		c.R.Undecided("R-map", "no-impl", "FanController", "-", "no FanController implementation found")
		return
	}
	c.ruleKeepStored("R-keep", runs)

	// map fields of the controller(s): fields of type map[int]int of the receiver struct
	isMapField := func(fa *ssa.FieldAddr) bool {
		p, ok := fa.Type().(*types.Pointer)
		if !ok {
			return false
		}
		m, ok := p.Elem().Underlying().(*types.Map)
		if !ok {
			return false
		}
		kb, ok1 := m.Key().Underlying().(*types.Basic)
		vb, ok2 := m.Elem().Underlying().(*types.Basic)
		if !(ok1 && ok2 && kb.Kind() == types.Int && vb.Kind() == types.Int) {
			return false
		}
		n := ir.NamedOf(fa.X.Type())
		return n != nil && n.Obj().Pkg() != nil && n.Obj().Pkg().Path() == PkgCtrl
	}
	storesMapField := func(fn *ssa.Function) bool {
		found := false
		Instrs(fn, func(ins ssa.Instruction) {
			if st, ok := ins.(*ssa.Store); ok {
				if fa, ok := st.Addr.(*ssa.FieldAddr); ok && isMapField(fa) {
					found = true
				}
			}
		})
		return found
	}
	// sweep functions: store the map field and drive the fan themselves
	sweeps := map[*ssa.Function]bool{}
	for _, fn := range c.P.Funcs {
		if load_FuncPkgPath(fn) != PkgCtrl || !storesMapField(fn) {
			continue
		}
		direct := false
		Calls(fn, func(cc ssa.CallInstruction) {
			if isFanInvoke(cc, "SetPwm") {
				direct = true
			}
		})
		if direct {
			sweeps[fn] = true
			c.R.Note("sweep functions", c.FK(fn))
		}
	}
	if len(sweeps) == 0 {
		c.R.Undecided("R-map", "no-sweep", "controller", "-", "no function that sweeps the fan and stores the PWM map found (anchor unresolved)")
	}
	isSweepCall := func(ins ssa.Instruction) bool {
		cc, ok := ins.(ssa.CallInstruction)
		if !ok {
			return false
		}
		for _, cal := range c.Callees(cc) {
			if sweeps[cal] {
				return true
			}
		}
		return false
	}

	// ---- R-map -----------------------------------------------------------------
	nmap := 0
	for _, fn := range c.P.Funcs {
		if load_FuncPkgPath(fn) != PkgCtrl {
			continue
		}
		Calls(fn, func(cc ssa.CallInstruction) {
			call, ok := cc.(*ssa.Call)
			if !ok || !isPersistInvoke(cc, "LoadFanPwmMap") {
				return
			}
			nmap++
			key := c.FK(fn)
			errv := ir.Resolve(resultOfCall(call, 1))
			mapv := ir.Resolve(resultOfCall(call, 0))
			stop := func(b *ssa.BasicBlock, si int) bool {
				fs := ir.EdgeFacts(b, si)
				return ir.HasFact(fs, token.NEQ, func(x, y ssa.Value) bool { return x == errv && ir.IsNilConst(y) }) ||
					ir.HasFact(fs, token.EQL, func(x, y ssa.Value) bool { return x == mapv && ir.IsNilConst(y) })
			}
			reached := ""
			var path []string
			ir.Search{StopEdge: stop}.Reach([]ir.Point{ir.After(call)}, func(ins ssa.Instruction, _ *ssa.BasicBlock) {
				if isSweepCall(ins) {
					reached = c.P.Pos(ins.Pos())
					path = append(path, sprintf("block %d: %s", ins.Block().Index, ins.String()))
				}
			})
			if reached != "" {
				c.R.Bad("R-map", key, key, reached, "the PWM sweep is reachable from a successful LoadFanPwmMap (err == nil, loaded map != nil): the stored map is not reused and the fan is swept again on start-up", path...)
			} else {
				c.R.Ok("R-map", key, key, c.P.Pos(call.Pos()), "every path from LoadFanPwmMap to the sweep crosses err != nil or loaded map == nil")
			}
			// the loaded map must be the one put to use on the success path
			used := false
			Instrs(fn, func(ins ssa.Instruction) {
				if st, ok := ins.(*ssa.Store); ok {
					if fa, ok := st.Addr.(*ssa.FieldAddr); ok && isMapField(fa) && ir.Resolve(st.Val) == mapv {
						used = true
					}
				}
				if r, ok := ins.(*ssa.Return); ok {
					for _, v := range r.Results {
						if ir.Resolve(v) == mapv {
							used = true
						}
					}
				}
			})
			if used {
				c.R.Ok("R-map-use", key, key, c.P.Pos(call.Pos()), "the loaded map is stored into the controller's map field (or returned to the caller)")
			} else {
				c.R.Bad("R-map-use", key, key, c.P.Pos(call.Pos()), "the map returned by LoadFanPwmMap is never put to use")
			}
		})
	}
	c.R.Require("R-map", 1)

	// ---- R-override ----------------------------------------------------------------
	const stU, stN = 0, 1
	// terms for the override are built with inlining of controller helpers, so that an extracted
	// helper returning the configured map reads like the inline type switch
	tbi := ir.NewTB(c.P.IsRepoFunc, c.P.FuncKey)
	tbi.InlineMaxBlocks = 24
	tbi.NoInline = func(f *ssa.Function) bool { return load_FuncPkgPath(f) != PkgCtrl }
	isOverrideVal := func(v ssa.Value) bool {
		t := tbi.Of(v, nil)
		return t.Has(func(x *ir.Term) bool { return x.Op == "field:PwmMap" })
	}
	spec := ir.TSpec{
		N: 2,
		Edge: func(b *ssa.BasicBlock, si int) []ir.Mask {
			fs := ir.EdgeFacts(b, si)
			if ir.HasFact(fs, token.EQL, func(x, y ssa.Value) bool { return ir.IsNilConst(y) && isOverrideVal(x) }) {
				return ir.AllTo(2, stN)
			}
			return nil
		},
		Callees:  func(call ssa.CallInstruction) []*ssa.Function { return c.Callees(call) },
		NoReturn: func(ins ssa.Instruction) bool { return c.noReturnCall(ins) },
	}
	for _, entry := range append(append([]*ssa.Function{}, runs...), inits...) {
		ts := ir.NewTS(spec)
		var bad []string
		nsink := 0
		ts.Run(entry, ir.Bit(stU), func(fn *ssa.Function, ins ssa.Instruction, m ir.Mask) {
			cc, ok := ins.(ssa.CallInstruction)
			if !ok || m == 0 {
				return
			}
			isSink := isPersistInvoke(cc, "LoadFanPwmMap") || isSweepCall(ins)
			if !isSink {
				return
			}
			nsink++
			if m.Has(stU) {
				bad = append(bad, c.FK(fn)+" at "+c.P.Pos(ins.Pos())+": "+ir.CallName(cc))
			}
		})
		key := c.FK(entry)
		if len(bad) > 0 {
			c.R.Bad("R-override", key, key, "-", "the stored map is loaded / the fan is swept on a path that did not establish that no pwmMap is configured: a configured pwmMap can be ignored or overridden", bad...)
		} else if nsink == 0 {
			c.R.Undecided("R-override", key, key, c.P.Pos(entry.Pos()), "no LoadFanPwmMap / sweep site reached from this entry (anchor unresolved)")
		} else {
			c.R.Ok("R-override", key, key, c.P.Pos(entry.Pos()), sprintf("%d load/sweep site(s) reachable only after an edge establishing <configured pwmMap> == nil", nsink))
		}
	}
	// on the non-nil edge the configured map is stored as is
	nuse := 0
	for _, fn := range c.P.Funcs {
		if load_FuncPkgPath(fn) != PkgCtrl {
			continue
		}
		var es []edge
		for _, b := range fn.Blocks {
			for si := range b.Succs {
				if ir.HasFact(ir.EdgeFacts(b, si), token.NEQ, func(x, y ssa.Value) bool {
					_, isPhi := x.(*ssa.Phi)
					_, isCall := x.(*ssa.Call)
					return ir.IsNilConst(y) && (isPhi || isCall) && isOverrideVal(x)
				}) {
					es = append(es, edge{b, si})
				}
			}
		}
		if len(es) == 0 {
			continue
		}
		nuse++
		isUse := func(ins ssa.Instruction) bool {
			st, ok := ins.(*ssa.Store)
			if !ok {
				return false
			}
			fa, ok := st.Addr.(*ssa.FieldAddr)
			return ok && isMapField(fa) && isOverrideVal(st.Val)
		}
		rets := returnsFrom(edgeStarts(es), ir.Search{StopInstr: isUse})
		key := c.FK(fn)
		if len(rets) > 0 {
			c.R.Bad("R-override-use", key, key, c.P.Pos(rets[0].ret.Pos()), "with a configured pwmMap the function can return without storing that map into the controller's map field")
		} else {
			c.R.Ok("R-override-use", key, key, c.P.Pos(fn.Pos()), "on the configured-pwmMap path the configured map is stored as is before returning")
		}
	}
	if nuse == 0 {
		c.R.Undecided("R-override-use", "none", "controller", "-", "no test of the configured pwmMap found (anchor unresolved)")
	}

	// ---- R-persist: a measured map is stored before regulation starts / the entry returns ----
	{
		const clean, unsaved = 0, 1
		pspec := ir.TSpec{
			N: 2,
			Instr: func(ins ssa.Instruction) []ir.Mask {
				cc, ok := ins.(ssa.CallInstruction)
				if !ok {
					return nil
				}
				if isPersistInvoke(cc, "SaveFanPwmMap") {
					return ir.AllTo(2, clean)
				}
				return nil
			},
			Callees:  func(call ssa.CallInstruction) []*ssa.Function { return c.Callees(call) },
			NoReturn: func(ins ssa.Instruction) bool { return c.noReturnCall(ins) },
		}
		// the sweep itself is the event "unsaved": model it at the call sites of sweep functions
		inner := pspec.Instr
		pspec.Instr = func(ins ssa.Instruction) []ir.Mask {
			if isSweepCall(ins) {
				return ir.AllTo(2, unsaved)
			}
			return inner(ins)
		}
		for _, entry := range append(append([]*ssa.Function{}, runs...), inits...) {
			ts := ir.NewTS(pspec)
			var bad []string
			ei := errResultIndex(entry)
			ts.Run(entry, ir.Bit(clean), func(fn *ssa.Function, ins ssa.Instruction, m ir.Mask) {
				if !m.Has(unsaved) {
					return
				}
				if cc, ok := ins.(ssa.CallInstruction); ok && ir.CallName(cc) == "(*github.com/oklog/run.Group).Run" {
					bad = append(bad, "regulation starts at "+c.P.Pos(ins.Pos())+" with a measured but unsaved PWM map")
				}
				if r, ok := ins.(*ssa.Return); ok && fn == entry && ei >= 0 && mayBeNilError(r.Results[ei], ir.BlockFacts(r.Block())) {
					bad = append(bad, "returns successfully at "+c.P.Pos(r.Pos())+" with a measured but unsaved PWM map")
				}
			})
			key := c.FK(entry)
			if len(bad) > 0 {
				c.R.Bad("R-persist", key, key, "-", "after sweeping the fan the measured PWM map is not stored (Persistence.SaveFanPwmMap) on every path: the next start has nothing to reuse and sweeps again", bad...)
			} else {
				c.R.Ok("R-persist", key, key, c.P.Pos(entry.Pos()), "every path from the sweep to the start of regulation / a successful return passes SaveFanPwmMap")
			}
		}
		c.R.Require("R-persist", 2)
	}

	// ---- R-data / R-readme --------------------------------------------------------------
	for _, run := range runs {
		var load *ssa.Call
		var initCalls []ssa.CallInstruction
		Calls(run, func(cc ssa.CallInstruction) {
			if call, ok := cc.(*ssa.Call); ok && isPersistInvoke(cc, "LoadFanPwmData") && load == nil {
				load = call
			}
			if isControllerCall(cc, "RunInitializationSequence") {
				initCalls = append(initCalls, cc)
			}
		})
		key := c.FK(run)
		if load == nil || len(initCalls) == 0 {
			c.R.Undecided("R-data", key, key, c.P.Pos(run.Pos()), "Run has no LoadFanPwmData / RunInitializationSequence call (anchor unresolved)")
			continue
		}
		// first load = the one that dominates the init call
		var loads []*ssa.Call
		Calls(run, func(cc ssa.CallInstruction) {
			if call, ok := cc.(*ssa.Call); ok && isPersistInvoke(cc, "LoadFanPwmData") {
				loads = append(loads, call)
			}
		})
		for _, ic := range initCalls {
			ok := false
			for _, l := range loads {
				errv := ir.Resolve(resultOfCall(l, 1))
				reached := false
				ir.Search{StopEdge: func(b *ssa.BasicBlock, si int) bool {
					return ir.HasFact(ir.EdgeFacts(b, si), token.NEQ, func(x, y ssa.Value) bool { return x == errv && ir.IsNilConst(y) })
				}}.Reach([]ir.Point{ir.After(l)}, func(ins ssa.Instruction, _ *ssa.BasicBlock) {
					if ins == ic.(ssa.Instruction) {
						reached = true
					}
				})
				// and the init call must be reachable only after that load at all
				before := false
				ir.Search{StopInstr: func(ins ssa.Instruction) bool { return ins == ssa.Instruction(l) }}.Reach([]ir.Point{{Block: run.Blocks[0]}}, func(ins ssa.Instruction, _ *ssa.BasicBlock) {
					if ins == ic.(ssa.Instruction) {
						before = true
					}
				})
				if !reached && !before {
					ok = true
				}
			}
			if ok {
				c.R.Ok("R-data", key, key, c.P.Pos(ic.Pos()), "RunInitializationSequence is reachable only across the err != nil edge of a preceding LoadFanPwmData")
			} else {
				c.R.Bad("R-data", key, key, c.P.Pos(ic.Pos()), "RunInitializationSequence is reachable although stored fan data was loaded successfully (or without trying to load it): the fan is analysed again on start-up")
			}
			// R-readme
			facts := ir.BlockFacts(ic.Block())
			hasMin, hasMax := false, false
			for _, f := range facts {
				for _, v := range []ssa.Value{f.X, f.Y, f.Bool} {
					if v == nil {
						continue
					}
					t := tb.Of(v, nil)
					if t.Has(func(x *ir.Term) bool { return x.Op == "field:MinPwm" }) {
						hasMin = true
					}
					if t.Has(func(x *ir.Term) bool { return x.Op == "field:MaxPwm" }) {
						hasMax = true
					}
				}
			}
			if hasMin && hasMax {
				c.R.Ok("R-readme", key, key, c.P.Pos(ic.Pos()), "the initialisation is control-dependent on a test of the configured minPwm and maxPwm")
			} else {
				c.R.Bad("R-readme", key, key, c.P.Pos(ic.Pos()), "the call of RunInitializationSequence in Run does not depend on whether minPwm and maxPwm are configured: the README promise 'if both are set the initialization phase will be skipped' is not implemented")
			}
		}
	}
	c.R.Require("R-data", 1)
	c.R.Require("R-readme", 1)

	// ---- R-reset ------------------------------------------------------------------------
	cmds := c.cobraCommands(PkgCmdFan)
	for _, use := range []string{"reset", "init"} {
		fn := cmds[use]
		key := "fan " + use
		if fn == nil {
			c.R.Undecided("R-reset", key, key, "-", "cobra command not found in cmd/fan (anchor unresolved)")
			continue
		}
		ei := errResultIndex(fn)
		for _, del := range []string{"DeleteFanPwmData", "DeleteFanPwmMap"} {
			del := del
			isDel := func(ins ssa.Instruction) bool {
				cc, ok := ins.(ssa.CallInstruction)
				return ok && isPersistInvoke(cc, del)
			}
			bad := ""
			for _, rv := range returnsFrom([]ir.Point{{Block: fn.Blocks[0]}}, ir.Search{StopInstr: isDel}) {
				if ei < 0 {
					bad = c.P.Pos(rv.ret.Pos())
					continue
				}
				facts := factsAt(rv.ret.Block(), rv.via)
				if mayBeNilError(rv.ret.Results[ei], facts) && mayBeNilError(ir.ResultVia(rv.ret, ei, rv.via), facts) {
					bad = c.P.Pos(rv.ret.Pos())
				}
			}
			if use == "init" {
				ir.Search{StopInstr: isDel}.Reach([]ir.Point{{Block: fn.Blocks[0]}}, func(ins ssa.Instruction, _ *ssa.BasicBlock) {
					if cc, ok := ins.(ssa.CallInstruction); ok && isControllerCall(cc, "RunInitializationSequence") {
						bad = c.P.Pos(ins.Pos()) + " (initialisation runs before the delete)"
					}
				})
			}
			if bad != "" {
				c.R.Bad("R-reset", key+"|"+del, c.FK(fn), bad, "'fan "+use+"' can succeed without calling "+del)
			} else {
				c.R.Ok("R-reset", key+"|"+del, c.FK(fn), c.P.Pos(fn.Pos()), "every nil-error return of 'fan "+use+"' is preceded by "+del)
			}
			// the delete must concern the selected fan: its error is propagated
		}
		c.checkErrorPropagation("R-reset-err", fn, func(call *ssa.Call) bool {
			return isPersistInvoke(call, "DeleteFanPwmData") || isPersistInvoke(call, "DeleteFanPwmMap")
		})
	}
	c.R.Require("R-reset", 4)
}

// ruleKeepStored: the daemon never discards stored characterisation on its own. In the call tree of
// FanController.Run (VTA call graph, so the persistence implementation behind the interface is included) a bbolt
// Delete / DeleteBucket is reachable only on the error edge of json.Unmarshal (an entry that cannot be decoded
// is useless). Deleting on any other condition - a changed snapshot, an age, a version - makes the next start
// repeat the analysis although the user did not ask for it (that is what `fan init` / `fan reset` are for).
func (c *Ctx) ruleKeepStored(rule string, runs []*ssa.Function) {
	tree := c.Closure(runs, false, nil)
	// the persistence methods run their transaction bodies as closures handed to the database library: add the
	// closures (and their callees inside the package) of every persistence function in the tree
	for changed := true; changed; {
		changed = false
		for f := range tree {
			if load_FuncPkgPath(f) != PkgPersist {
				continue
			}
			for _, a := range f.AnonFuncs {
				if !tree[a] {
					tree[a] = true
					changed = true
				}
			}
			Calls(f, func(cc ssa.CallInstruction) {
				if st := ir.Callee(cc).Static; st != nil && load_FuncPkgPath(st) == PkgPersist && !tree[st] {
					tree[st] = true
					changed = true
				}
			})
		}
	}
	// a closure belongs to the tree only with the function it is written in: a shared "with the database open"
	// helper calls whatever closure it is handed, and the context-insensitive call graph would otherwise pull in
	// the closures of the CLI-only Delete* methods
	for f := range tree {
		if f.Parent() == nil {
			continue
		}
		root := f
		for root.Parent() != nil {
			root = root.Parent()
		}
		if !tree[root] {
			delete(tree, f)
		}
	}
	n, nbad := 0, 0
	for _, fn := range c.SortedFuncs(tree) {
		if !c.P.IsRepoFunc(fn) {
			continue
		}
		Calls(fn, func(cc ssa.CallInstruction) {
			name := ir.CallName(cc)
			if !strings.HasSuffix(name, "bbolt.Bucket).Delete") && !strings.HasSuffix(name, "bbolt.Bucket).DeleteBucket") && !strings.HasSuffix(name, "bbolt.Tx).DeleteBucket") {
				return
			}
			n++
			facts := ir.BlockFacts(cc.Block())
			onDecodeError := ir.HasFact(facts, token.NEQ, func(x, y ssa.Value) bool {
				if !ir.IsNilConst(y) {
					return false
				}
				call, ok := ir.Resolve(x).(*ssa.Call)
				return ok && (ir.CallName(call) == "encoding/json.Unmarshal" || strings.HasSuffix(ir.CallName(call), ".Decode"))
			})
			key := c.FK(fn) + "|" + name[strings.LastIndex(name, ".")+1:]
			if onDecodeError {
				c.R.Ok(rule, key, c.FK(fn), c.P.Pos(cc.Pos()), "stored data is deleted on the daemon's path only where it could not be decoded")
			} else {
				nbad++
				c.R.Bad(rule, key, c.FK(fn), c.P.Pos(cc.Pos()), "stored fan data can be deleted on the daemon's own start-up / regulation path on a condition other than 'the entry cannot be decoded': the next start analyses the fan again although the user did not discard the data")
			}
		})
	}
	c.R.Ok(rule, "summary", "(call graph)", "-", sprintf("%d bbolt delete sites reachable from FanController.Run, %d not on a decode-error edge", n, nbad))
}
