package rules

import (
	"go/token"
	"go/types"
	"strings"

	"f2gcheck/internal/ir"

	"golang.org/x/tools/go/ssa"
)

var errorType = types.Universe.Lookup("error").Type()

func isErrorType(t types.Type) bool { return types.Identical(t, errorType) }

// mayBeNilError reports whether an error-typed operand may be nil, given the
// facts known to hold (dominating edges). Conservative: unknown => true.
func mayBeNilError(v ssa.Value, facts []ir.Fact) bool {
	if ir.IsNilConst(v) {
		return true
	}
	if _, ok := v.(*ssa.MakeInterface); ok {
		return false // a concrete value boxed into an interface is a non-nil interface
	}
	rv := ir.Resolve(v)
	if ir.IsNilConst(rv) {
		return true
	}
	switch x := rv.(type) {
	case *ssa.Call:
		n := ir.CallName(x)
		if n == "errors.New" || n == "fmt.Errorf" {
			return false
		}
	case *ssa.UnOp:
		if g, ok := x.X.(*ssa.Global); ok && x.Op == token.MUL && isErrorType(g.Type().(*types.Pointer).Elem()) {
			return false // sentinel error variable (os.ErrInvalid, ErrFanStalledAtMaxPwm, ...)
		}
	case *ssa.Phi:
		for _, e := range x.Edges {
			if mayBeNilError(e, facts) {
				// a phi edge may still be excluded by facts on the phi value itself
				goto check
			}
		}
		return false
	}
check:
	if ir.HasFact(facts, token.NEQ, func(a, b ssa.Value) bool { return a == rv && ir.IsNilConst(b) }) {
		return false
	}
	if rv != v && ir.HasFact(facts, token.NEQ, func(a, b ssa.Value) bool { return a == v && ir.IsNilConst(b) }) {
		return false
	}
	return true
}

// errResultIndex returns the index of the last result of fn if it is of type error, else -1.
func errResultIndex(fn *ssa.Function) int {
	res := fn.Signature.Results()
	if res.Len() == 0 {
		return -1
	}
	if isErrorType(res.At(res.Len() - 1).Type()) {
		return res.Len() - 1
	}
	return -1
}

// errValueOfCall returns the SSA value holding the error result of a call
// (the call itself for single-result calls, the Extract for tuples), or nil.
func errValueOfCall(call *ssa.Call) ssa.Value {
	sig := call.Common().Signature()
	res := sig.Results()
	if res.Len() == 0 || !isErrorType(res.At(res.Len()-1).Type()) {
		return nil
	}
	if res.Len() == 1 {
		return call
	}
	if refs := call.Referrers(); refs != nil {
		for _, r := range *refs {
			if e, ok := r.(*ssa.Extract); ok && e.Index == res.Len()-1 {
				return e
			}
		}
	}
	return nil
}

// resultOfCall returns the Extract #i of a tuple call (or the call for i==0 of single-result calls).
func resultOfCall(call *ssa.Call, i int) ssa.Value {
	res := call.Common().Signature().Results()
	if res.Len() == 1 && i == 0 {
		return call
	}
	if refs := call.Referrers(); refs != nil {
		for _, r := range *refs {
			if e, ok := r.(*ssa.Extract); ok && e.Index == i {
				return e
			}
		}
	}
	return nil
}

// errEdges lists the CFG edges (block, succ index) of fn on which `errv != nil`
// (pol=true) or `errv == nil` (pol=false) is established.
type edge struct {
	b  *ssa.BasicBlock
	si int
}

func nilEdges(fn *ssa.Function, errv ssa.Value, nonNil bool) []edge {
	var out []edge
	want := token.EQL
	if nonNil {
		want = token.NEQ
	}
	rv := ir.Resolve(errv)
	for _, b := range fn.Blocks {
		for si := range b.Succs {
			fs := ir.EdgeFacts(b, si)
			if ir.HasFact(fs, want, func(x, y ssa.Value) bool { return (x == rv || x == errv) && ir.IsNilConst(y) }) {
				out = append(out, edge{b, si})
			}
		}
	}
	return out
}

// returnsAfter lists (return, via) pairs reachable from the given edges,
// optionally not crossing stop edges / stop instructions.
type retVia struct {
	ret *ssa.Return
	via *ssa.BasicBlock
}

func returnsFrom(starts []ir.Point, s ir.Search) []retVia {
	var out []retVia
	seen := map[retVia]bool{}
	s.Reach(starts, func(ins ssa.Instruction, via *ssa.BasicBlock) {
		if r, ok := ins.(*ssa.Return); ok {
			k := retVia{r, via}
			if !seen[k] {
				seen[k] = true
				out = append(out, k)
			}
		}
	})
	return out
}

// retAlias: a return reached on some path, with the value result #idx holds on that path (phis met on the way
// replaced by the definition that arrived over the edges taken).
type retAlias struct {
	ret *ssa.Return
	via *ssa.BasicBlock
	val ssa.Value
}

// returnsFromEdgesAlias: like returnsFromAlias, for paths that begin by taking one of the given edges (the search
// starts at the branch instruction of the edge's source block, so the phis of the target block are resolved too).
func returnsFromEdgesAlias(es []edge, idx int) []retAlias {
	var out []retAlias
	for _, e := range es {
		e := e
		if len(e.b.Instrs) == 0 {
			continue
		}
		out = append(out, returnsFromAliasS([]ir.Point{{Block: e.b, Idx: len(e.b.Instrs) - 1}}, idx, func(b *ssa.BasicBlock, si int) bool {
			return b == e.b && si != e.si
		})...)
	}
	return out
}

func returnsFromAlias(starts []ir.Point, idx int) []retAlias {
	return returnsFromAliasS(starts, idx, nil)
}

func returnsFromAliasS(starts []ir.Point, idx int, stopEdge func(*ssa.BasicBlock, int) bool) []retAlias {
	var out []retAlias
	type k struct {
		r   *ssa.Return
		via *ssa.BasicBlock
		v   ssa.Value
	}
	seen := map[k]bool{}
	ir.Search{TrackPhis: true, StopEdge: stopEdge, VisitAlias: func(ins ssa.Instruction, via *ssa.BasicBlock, resolve func(ssa.Value) ssa.Value) {
		r, ok := ins.(*ssa.Return)
		if !ok || idx >= len(r.Results) {
			return
		}
		v := resolve(ir.Resolve(ir.ResultVia(r, idx, via)))
		v = ir.Resolve(v)
		key := k{r, via, v}
		if !seen[key] {
			seen[key] = true
			out = append(out, retAlias{r, via, v})
		}
	}}.Reach(starts, func(ssa.Instruction, *ssa.BasicBlock) {})
	return out
}

func edgeStarts(es []edge) []ir.Point {
	var out []ir.Point
	for _, e := range es {
		out = append(out, ir.EdgeStart(e.b, e.si))
	}
	return out
}

// factsAt returns the facts that hold when a return block is entered through via.
func factsAt(b *ssa.BasicBlock, via *ssa.BasicBlock) []ir.Fact {
	fs := ir.BlockFacts(b)
	if via != nil {
		for si, s := range via.Succs {
			if s == b {
				fs = append(fs, ir.EdgeFacts(via, si)...)
			}
		}
		fs = append(fs, ir.BlockFacts(via)...)
	}
	return fs
}

// checkErrorPropagation: for every call in fn selected by pick, every return
// reachable from the `err != nil` edge of its error result must carry a non-nil
// error. Reports one obligation per (fn, callee).
func (c *Ctx) checkErrorPropagation(rule string, fn *ssa.Function, pick func(*ssa.Call) bool) int {
	ei := errResultIndex(fn)
	n := 0
	if ei < 0 {
		return 0
	}
	for _, b := range fn.Blocks {
		for _, ins := range b.Instrs {
			call, ok := ins.(*ssa.Call)
			if !ok || !pick(call) {
				continue
			}
			errv := errValueOfCall(call)
			if errv == nil {
				continue
			}
			es := nilEdges(fn, errv, true)
			key := c.FK(fn) + "|" + ir.CallName(call)
			if len(es) == 0 {
				// the error is never tested: every return reachable from the call must then
				// carry this very value (or a definitely non-nil error), unless the path
				// established it nil - otherwise a later assignment silently drops it
				lost := ""
				rets := returnsFromAlias([]ir.Point{ir.After(call)}, ei)
				for _, rv := range rets {
					v := rv.val
					if ir.Resolve(v) == ir.Resolve(errv) {
						continue
					}
					facts := factsAt(rv.ret.Block(), rv.via)
					if !mayBeNilError(rv.ret.Results[ei], facts) || !mayBeNilError(v, facts) {
						continue
					}
					if ir.HasFact(facts, token.EQL, func(x, y ssa.Value) bool { return x == ir.Resolve(errv) && ir.IsNilConst(y) }) {
						continue
					}
					lost = c.P.Pos(rv.ret.Pos())
				}
				if lost != "" {
					c.R.Bad(rule, key, c.FK(fn), c.P.Pos(call.Pos()), "the error result of "+ir.CallName(call)+" is never tested and can be overwritten before the return at "+lost+": a failure is silently dropped")
				} else if len(rets) > 0 {
					c.R.Ok(rule, key, c.FK(fn), c.P.Pos(call.Pos()), "error of "+ir.CallName(call)+" is untested but reaches every return that could otherwise be nil")
				} else {
					c.R.Bad(rule, key, c.FK(fn), c.P.Pos(call.Pos()), "error result of "+ir.CallName(call)+" is neither tested nor returned: a failure is turned into a value")
				}
				n++
				continue
			}
			bad := ""
			for _, rv := range returnsFromEdgesAlias(es, ei) {
				v := rv.val
				raw := rv.ret.Results[ei]
				facts := factsAt(rv.ret.Block(), rv.via)
				for _, e := range es {
					facts = append(facts, ir.EdgeFacts(e.b, e.si)...)
				}
				if mayBeNilError(raw, facts) && mayBeNilError(v, facts) {
					bad = c.P.Pos(rv.ret.Pos())
				}
			}
			if bad != "" {
				c.R.Bad(rule, key, c.FK(fn), c.P.Pos(call.Pos()), "after "+ir.CallName(call)+" failed (err != nil edge) the function can return a nil error at "+bad+": the failure is converted into a value")
			} else {
				c.R.Ok(rule, key, c.FK(fn), c.P.Pos(call.Pos()), "every return reachable from the err != nil edge of "+ir.CallName(call)+" carries a non-nil error")
			}
			n++
		}
	}
	return n
}

// termHasCall reports whether the term contains a call/invoke whose name has the given suffix.
func termHasCall(t *ir.Term, name string) bool {
	return t.Has(func(x *ir.Term) bool {
		return (strings.HasPrefix(x.Op, "call:") || strings.HasPrefix(x.Op, "invoke:")) && strings.HasSuffix(x.Op, name)
	})
}

// noReturnCall reports whether ins is a call that never returns:
// builtin panic, os.Exit, log.Fatal*, pterm Fatal printers, and repository
// wrappers that end in such a call on every path (ui.Fatal, ui.FatalWithoutStacktrace).
func (c *Ctx) noReturnCall(ins ssa.Instruction) bool {
	if _, ok := ins.(*ssa.Panic); ok {
		return true
	}
	call, ok := ins.(ssa.CallInstruction)
	if !ok {
		return false
	}
	if _, isGo := ins.(*ssa.Go); isGo {
		return false
	}
	if _, isDefer := ins.(*ssa.Defer); isDefer {
		return false
	}
	ci := ir.Callee(call)
	if ci.Builtin == "panic" {
		return true
	}
	if ci.Static == nil {
		return false
	}
	return c.noReturnFunc(ci.Static, map[*ssa.Function]bool{})
}

func (c *Ctx) noReturnFunc(fn *ssa.Function, seen map[*ssa.Function]bool) bool {
	if seen[fn] {
		return false
	}
	seen[fn] = true
	name := ""
	if fn.Object() != nil {
		name = fn.Object().(*types.Func).FullName()
	}
	switch name {
	case "os.Exit", "log.Fatal", "log.Fatalf", "log.Fatalln", "log.Panic", "log.Panicf", "log.Panicln", "runtime.Goexit",
		"(*github.com/pterm/pterm.PrefixPrinter).Printfln", "(*github.com/pterm/pterm.PrefixPrinter).Println", "(*github.com/pterm/pterm.PrefixPrinter).Printf":
		if strings.Contains(name, "pterm") {
			return false // only fatal when the receiver is pterm.Fatal; handled below at the call site
		}
		return true
	}
	if !c.P.IsRepoFunc(fn) || len(fn.Blocks) == 0 {
		return false
	}
	// a repository function never returns if no Return is reachable without
	// passing a no-return call
	reached := false
	ir.Search{StopInstr: func(ins ssa.Instruction) bool {
		if _, ok := ins.(*ssa.Panic); ok {
			return true
		}
		call, ok := ins.(*ssa.Call)
		if !ok {
			return false
		}
		if c.isPtermFatalCall(call) {
			return true
		}
		ci := ir.Callee(call)
		if ci.Builtin == "panic" {
			return true
		}
		return ci.Static != nil && c.noReturnFunc(ci.Static, seen)
	}}.Reach([]ir.Point{{Block: fn.Blocks[0], Idx: 0}}, func(ins ssa.Instruction, _ *ssa.BasicBlock) {
		if _, ok := ins.(*ssa.Return); ok {
			reached = true
		}
	})
	return !reached
}

// isPtermFatalCall: a Print* call on the package-level pterm.Fatal printer
// (its Fatal flag is true: checkFatal panics), unless derived via WithFatal(false).
func (c *Ctx) isPtermFatalCall(call *ssa.Call) bool {
	ci := ir.Callee(call)
	if ci.Static == nil || ci.Static.Object() == nil {
		return false
	}
	full := ci.Static.Object().(*types.Func).FullName()
	if !strings.HasPrefix(full, "(*github.com/pterm/pterm.PrefixPrinter).Print") {
		return false
	}
	if len(call.Call.Args) == 0 {
		return false
	}
	recv := call.Call.Args[0]
	// &pterm.Fatal  or  load/addr of the global
	for i := 0; i < 4; i++ {
		switch x := recv.(type) {
		case *ssa.Global:
			return x.Pkg.Pkg.Path() == "github.com/pterm/pterm" && x.Name() == "Fatal"
		case *ssa.UnOp:
			recv = x.X
		case *ssa.Alloc:
			st := ir.StoresTo(x)
			if len(st) == 1 {
				recv = st[0].Val
				continue
			}
			return false
		default:
			return false
		}
	}
	return false
}
