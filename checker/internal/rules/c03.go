package rules

import (
	"sort"
	"go/token"
	"strings"

	"f2gcheck/internal/ir"

	"golang.org/x/tools/go/ssa"
)

func init() { Registry["C03"] = c03 }

// actor is one run.Group.Add registration.
type actor struct {
	add     *ssa.Call
	execute *ssa.Function
	intr    *ssa.Function
	in      *ssa.Function
}

func fnOfValue(v ssa.Value) *ssa.Function {
	switch x := ir.Resolve(v).(type) {
	case *ssa.Function:
		return x
	case *ssa.MakeClosure:
		return unwrapBound(x.Fn.(*ssa.Function))
	}
	return nil
}

// unwrapBound: a method value (f.method) is a closure over a synthetic "bound method wrapper" that only
// forwards to the method; the method itself is the function of interest.
func unwrapBound(fn *ssa.Function) *ssa.Function {
	if fn == nil || fn.Synthetic == "" || !strings.Contains(fn.Synthetic, "bound method wrapper") || len(fn.Blocks) != 1 {
		return fn
	}
	var target *ssa.Function
	n := 0
	Calls(fn, func(cc ssa.CallInstruction) {
		n++
		target = ir.Callee(cc).Static
	})
	if n == 1 && target != nil {
		return target
	}
	return fn
}

// groupActors lists the run.Group.Add registrations made by fn, directly or through
// helper functions of the same package that it calls statically (registrations
// extracted into helpers); bodies of closures are not entered.
func groupActors(fn *ssa.Function) []actor {
	var out []actor
	seen := map[*ssa.Function]bool{}
	var visit func(f *ssa.Function, depth int)
	visit = func(f *ssa.Function, depth int) {
		if seen[f] || depth > 4 || len(f.Blocks) == 0 {
			return
		}
		seen[f] = true
		Calls(f, func(cc ssa.CallInstruction) {
			call, ok := cc.(*ssa.Call)
			if !ok {
				return
			}
			if ir.CallName(call) == "(*github.com/oklog/run.Group).Add" && len(call.Call.Args) == 3 {
				out = append(out, actor{add: call, execute: fnOfValue(call.Call.Args[1]), intr: fnOfValue(call.Call.Args[2]), in: f})
				return
			}
			if st := ir.Callee(call).Static; st != nil && ir.Callee(call).Closure == nil && st.Parent() == nil && load_FuncPkgPath(st) == load_FuncPkgPath(fn) && st != fn {
				// only helpers that receive the group: a *run.Group parameter
				for _, p := range st.Params {
					if n := ir.NamedOf(p.Type()); n != nil && n.Obj().Name() == "Group" && n.Obj().Pkg() != nil && n.Obj().Pkg().Path() == "github.com/oklog/run" {
						visit(st, depth+1)
						break
					}
				}
			}
		})
	}
	visit(fn, 0)
	return out
}

// reaches reports whether the call closure of fn contains a call satisfying pred.
func (c *Ctx) reaches(fn *ssa.Function, pred func(ssa.CallInstruction) bool) bool {
	found := false
	for f := range c.Closure([]*ssa.Function{fn}, false, nil) {
		Calls(f, func(cc ssa.CallInstruction) {
			if pred(cc) {
				found = true
			}
		})
	}
	return found
}

func isFanInvoke(cc ssa.CallInstruction, method string) bool {
	return ir.IsInvoke(cc, PkgFans, "Fan", method)
}

// isCallTo: static call or invoke of FanController method `name` (UpdateFanSpeed, RunInitializationSequence, Run).
func isControllerCall(cc ssa.CallInstruction, name string) bool {
	if ir.IsInvoke(cc, PkgCtrl, "FanController", name) {
		return true
	}
	ci := ir.Callee(cc)
	if ci.Static != nil && ci.Static.Name() == name && ci.Static.Signature.Recv() != nil {
		// a concrete implementation of the interface method
		return load_FuncPkgPath(ci.Static) == PkgCtrl
	}
	return false
}

const (
	stNot = 0
	stOK  = 1
)

// restoreSpec builds the typestate of "fan handed back or at full speed".
// origField: name of the controller field holding the recorded original mode.
func (c *Ctx) restoreSpec(origFields map[string]bool, tb *ir.TB) ir.TSpec {
	modePWM := int64(1)
	return ir.TSpec{
		N: 2,
		Instr: func(ins ssa.Instruction) []ir.Mask {
			cc, ok := ins.(ssa.CallInstruction)
			if !ok {
				return nil
			}
			if isFanInvoke(cc, "SetPwm") {
				if k, isConst := ir.ConstInt(cc.Common().Args[0]); isConst && k == 255 {
					return ir.AllTo(2, stOK)
				}
				return ir.AllTo(2, stNot)
			}
			if isFanInvoke(cc, "SetPwmEnabled") {
				if k, isConst := ir.ConstInt(cc.Common().Args[0]); isConst && k == modePWM {
					return ir.AllTo(2, stNot)
				}
				return ir.Ident(2) // decided on the success edge
			}
			return nil
		},
		Edge: func(b *ssa.BasicBlock, si int) []ir.Mask {
			for _, f := range ir.EdgeFacts(b, si) {
				if f.Op != token.EQL || !ir.IsNilConst(f.Y) {
					continue
				}
				call, ok := f.X.(*ssa.Call)
				if !ok || !isFanInvoke(call, "SetPwmEnabled") {
					continue
				}
				arg := call.Call.Args[0]
				t := tb.Of(arg, nil)
				if !strings.HasPrefix(t.Op, "field:") || !origFields[strings.TrimPrefix(t.Op, "field:")] {
					continue
				}
				// the call must be dominated by  <same term> != ControlModePWM
				guarded := ir.HasFact(ir.BlockFacts(call.Block()), token.NEQ, func(x, y ssa.Value) bool {
					k, isConst := ir.ConstInt(y)
					return isConst && k == modePWM && tb.Of(x, nil).String() == t.String()
				})
				if guarded {
					return ir.AllTo(2, stOK)
				}
			}
			return nil
		},
		Callees:  func(call ssa.CallInstruction) []*ssa.Function { return c.Callees(call) },
		NoReturn: func(ins ssa.Instruction) bool { return c.noReturnCall(ins) },
	}
}

func c03(c *Ctx) {
	c.R.Explanation = "C03: structural necessary conditions decided on the SSA of /repo. R-exit = in the control goroutine of every FanController.Run implementation (the run.Group actor whose call tree reaches UpdateFanSpeed) every path from entry to a return ends in state 'restored' of a typestate whose accepting events are (a) the success edge (err == nil) of Fan.SetPwmEnabled(x) with x = the controller field recorded from GetPwmEnabled() at start and the call dominated by x != ControlModePWM, or (b) Fan.SetPwm(255); any other Fan.SetPwm / SetPwmEnabled(manual) resets it. Helper functions are followed with state-relation summaries (this is R-shape: the restore routine itself must reach 'restored' on all paths). R-init = from the error edge of RunInitializationSequence in Run every return is preceded by a call that establishes 'restored'. R-readback = every Fan.SetPwmEnabled implementation that writes a mode file returns nil after a successful write only across an edge establishing read-back == requested value (or the documented ErrPermission exception). R-signal = the signal actor receives from a channel registered with signal.Notify for SIGTERM and SIGINT, an interrupt function of the same run.Group calls the cancel function of the context.WithCancel whose context is handed to every FanController.Run, and that channel is closed only after signal.Stop on all paths. R-actor-nil (shared with C09) = every actor of the per-fan groups and the sensor monitor returns the nil constant: a non-nil actor error reaches panic(err) / ui.Fatal and kills the process during shutdown before the fans are restored. R-write = every Fan.SetPwm implementation passes a write to the device (a library Write*/exec run, directly or through a repository helper) on every path that can return a nil error: the typestate takes a nil result of SetPwm(255) for 'the fan is at full speed'. R-single-writer = of the actors of the per-fan run.Group at most one (the control loop, which also hands the fan back) can reach Fan.SetPwm / SetPwmEnabled: the actors stop independently, so a write from a sibling actor can land after the final restore. Not decided: driver behaviour, timing, a final PWM write that itself fails, crashes (C09)."
	c.R.Assumptions = append(c.R.Assumptions,
		"oklog/run: Add(execute, interrupt): when the first actor returns every interrupt function is called once",
		"os/signal sends non-blockingly to every channel registered with Notify until Stop; a send on a closed channel panics",
		"a Fan.SetPwm(255) call counts as 'full speed requested' regardless of its returned error (not decided)")
	tb := ir.NewTB(c.P.IsRepoFunc, c.P.FuncKey)
	tb.InlineMaxBlocks = 0

	c.ruleRestore(tb, func(r string) string { return r })
	c.ruleFanWrites("R-write")
	c.R.Require("R-exit", 1)
	c.R.Require("R-init", 1)

	c.ruleReadback(tb)
	c.ruleSignal(tb)
	// an actor that returns a non-nil error makes the daemon's actor wrapper panic(err): the process dies
	// while the controllers are still restoring their fans (shared with C09 R-actor-nil)
	for _, run := range c.ImplMethods(PkgCtrl, "FanController", "Run") {
		for _, a := range groupActors(run) {
			if a.execute != nil {
				c.actorNil(a.execute, "per-fan actor")
			}
		}
	}
	for _, f := range c.ConvertedImplMethods(PkgInternal, "SensorMonitor", "Run") {
		c.actorNil(f, "sensor monitor")
	}
	// R-single-writer: of the actors of the per-fan group only the one that hands the fan back (the control loop)
	// may drive the fan. The group's actors end independently: a sibling actor that can still write a PWM value or
	// the mode (a kick-start from the RPM monitor) can do so after the control actor's final restore.
	isDrive := func(cc ssa.CallInstruction) bool {
		return isFanInvoke(cc, "SetPwm") || isFanInvoke(cc, "SetPwmEnabled")
	}
	for _, run := range c.ImplMethods(PkgCtrl, "FanController", "Run") {
		actors := groupActors(run)
		var drivers []*ssa.Function
		for _, a := range actors {
			for _, f := range []*ssa.Function{a.execute, a.intr} {
				if f != nil && c.reaches(f, isDrive) {
					drivers = append(drivers, f)
				}
			}
		}
		key := c.FK(run)
		switch {
		case len(actors) == 0:
			c.R.Undecided("R-single-writer", key, key, c.P.Pos(run.Pos()), "no run.Group actors found in the controller's Run (anchor unresolved)")
		case len(drivers) > 1:
			var names []string
			for _, d := range drivers {
				names = append(names, c.FK(d))
			}
			sort.Strings(names)
			c.R.Bad("R-single-writer", key, key, c.P.Pos(run.Pos()), "more than one actor of the per-fan group can write the fan's PWM or mode ("+strings.Join(names, ", ")+"): the actors stop independently, so a write from the sibling can land after the control actor handed the fan back, leaving it in manual mode at a regulation value")
		default:
			c.R.Ok("R-single-writer", key, key, c.P.Pos(run.Pos()), sprintf("%d actors, %d of them can write the fan's PWM / mode", len(actors), len(drivers)))
		}
	}
}

// ruleRestore holds R-record / R-exit / R-init (the fan is handed back on every exit of the control
// goroutine and after a failed initialisation). rn maps the rule names (C09 reuses the rules under
// its own names for its clause "... or stops regulating the fan after restoring it").
func (c *Ctx) ruleRestore(tb *ir.TB, rn func(string) string) {
	runs := c.ImplMethods(PkgCtrl, "FanController", "Run")
	if len(runs) == 0 {
		c.R.Undecided(rn("R-exit"), "no-impl", "FanController.Run", "-", "no implementation of FanController.Run found")
		return
	}
	for _, run := range runs {
		c.R.Note("functions", c.FK(run))
		// field(s) recorded from GetPwmEnabled at start
		orig := map[string]bool{}
		Instrs(run, func(ins ssa.Instruction) {
			st, ok := ins.(*ssa.Store)
			if !ok {
				return
			}
			fa, ok := st.Addr.(*ssa.FieldAddr)
			if !ok {
				return
			}
			t := tb.Of(st.Val, nil)
			if termHasCall(t, "fans.Fan.GetPwmEnabled") {
				_, name, _ := ir.FieldName(fa)
				orig[name] = true
			}
		})
		if len(orig) == 0 {
			c.R.Bad(rn("R-record"), c.FK(run), c.FK(run), c.P.Pos(run.Pos()), "Run does not record the fan's original control mode (GetPwmEnabled) in a controller field")
			continue
		}
		for f := range orig {
			c.R.Ok(rn("R-record"), c.FK(run)+"|"+f, c.FK(run), c.P.Pos(run.Pos()), "original control mode recorded in field "+f)
		}
		spec := c.restoreSpec(orig, tb)

		// ---- R-exit ---------------------------------------------------------
		nctl := 0
		for _, a := range groupActors(run) {
			if a.execute == nil {
				c.R.Undecided(rn("R-exit"), c.FK(run)+"|actor", c.FK(run), c.P.Pos(a.add.Pos()), "actor function value not resolvable")
				continue
			}
			if !c.reaches(a.execute, func(cc ssa.CallInstruction) bool { return isControllerCall(cc, "UpdateFanSpeed") }) {
				continue
			}
			nctl++
			ts := ir.NewTS(spec)
			var badRet []string
			ts.Run(a.execute, ir.Bit(stNot), func(fn *ssa.Function, ins ssa.Instruction, m ir.Mask) {
				if fn != a.execute {
					return
				}
				if r, ok := ins.(*ssa.Return); ok && m.Has(stNot) {
					badRet = append(badRet, c.P.Pos(r.Pos()))
				}
			})
			key := c.FK(run) + "|control-goroutine"
			if len(badRet) > 0 {
				c.R.Bad(rn("R-exit"), key, c.FK(a.execute), badRet[0], "the control goroutine can return ("+strings.Join(badRet, ", ")+") on a path that neither restored the recorded non-manual mode successfully nor requested PWM 255 last", c.explainRestore(ts, a.execute)...)
			} else {
				c.R.Ok(rn("R-exit"), key, c.FK(a.execute), c.P.Pos(a.execute.Pos()), "every return of the control goroutine is in state 'restored' (mode switch-back confirmed or SetPwm(255))")
			}
		}
		if nctl == 0 {
			c.R.Undecided(rn("R-exit"), c.FK(run)+"|control-goroutine", c.FK(run), c.P.Pos(run.Pos()), "no run.Group actor reaching UpdateFanSpeed found in Run (anchor unresolved)")
		}

		// ---- R-init ---------------------------------------------------------
		ninit := 0
		Calls(run, func(cc ssa.CallInstruction) {
			call, ok := cc.(*ssa.Call)
			if !ok || !isControllerCall(cc, "RunInitializationSequence") {
				return
			}
			ninit++
			key := c.FK(run) + "|after-failed-initialisation"
			ev := errValueOfCall(call)
			if ev == nil {
				c.R.Bad(rn("R-init"), key, c.FK(run), c.P.Pos(call.Pos()), "the result of RunInitializationSequence is ignored")
				return
			}
			es := nilEdges(run, ev, true)
			ts := ir.NewTS(spec)
			restores := func(ins ssa.Instruction) bool {
				cc2, ok := ins.(*ssa.Call)
				if !ok {
					return false
				}
				for _, cal := range c.Callees(cc2) {
					if ts.Summary(cal, stNot) != ir.Bit(stOK) {
						return false
					}
				}
				return len(c.Callees(cc2)) > 0
			}
			rets := returnsFrom(edgeStarts(es), ir.Search{StopInstr: restores})
			if len(es) == 0 {
				c.R.Bad(rn("R-init"), key, c.FK(run), c.P.Pos(call.Pos()), "the error of RunInitializationSequence is never tested")
			} else if len(rets) > 0 {
				c.R.Bad(rn("R-init"), key, c.FK(run), c.P.Pos(rets[0].ret.Pos()), "Run returns after a failed initialisation without passing through the restore routine")
			} else {
				c.R.Ok(rn("R-init"), key, c.FK(run), c.P.Pos(call.Pos()), "every return reachable from the error edge of RunInitializationSequence is preceded by a call that establishes 'restored'")
			}
		})
		if ninit == 0 {
			c.R.Ok(rn("R-init"), c.FK(run)+"|no-initialisation-call", c.FK(run), c.P.Pos(run.Pos()), "Run does not call RunInitializationSequence")
		}
	}
}

// explainRestore lists, for diagnosis, the repository callees of fn whose summary does not guarantee 'restored'.
func (c *Ctx) explainRestore(ts *ir.TS, fn *ssa.Function) []string {
	var out []string
	seen := map[*ssa.Function]bool{}
	Calls(fn, func(cc ssa.CallInstruction) {
		for _, cal := range c.Callees(cc) {
			if seen[cal] {
				continue
			}
			seen[cal] = true
			m := ts.Summary(cal, stNot)
			if m.Has(stNot) && m.Has(stOK) {
				out = append(out, c.FK(cal)+" can return both restored and not restored")
			}
		}
	})
	return out
}

func (c *Ctx) ruleReadback(tb *ir.TB) {
	n := 0
	for _, fn := range c.ImplMethods(PkgFans, "Fan", "SetPwmEnabled") {
		var writes []*ssa.Call
		Calls(fn, func(cc ssa.CallInstruction) {
			if call, ok := cc.(*ssa.Call); ok {
				nme := ir.CallName(call)
				if strings.HasPrefix(nme, PkgUtil+".WriteIntToFile") || nme == "os.WriteFile" {
					writes = append(writes, call)
				}
			}
		})
		fk := c.FK(fn)
		if len(writes) == 0 {
			c.R.Ok("R-readback", fk+"|no-mode-file", fk, c.P.Pos(fn.Pos()), "implementation writes no mode file (nothing to read back)")
			continue
		}
		n++
		ei := errResultIndex(fn)
		if ei < 0 || len(fn.Params) < 2 {
			c.R.Undecided("R-readback", fk, fk, c.P.Pos(fn.Pos()), "unexpected signature")
			continue
		}
		valueParam := fn.Params[1]
		established := func(fs []ir.Fact) bool {
			// read-back == value
			if ir.HasFact(fs, token.EQL, func(x, y ssa.Value) bool {
				if ir.Resolve(y) != ssa.Value(valueParam) {
					return false
				}
				t := tb.Of(x, nil)
				return termHasCall(t, "GetPwmEnabled") || termHasCall(t, "util.ReadIntFromFile")
			}) {
				return true
			}
			// documented exception: errors.Is(err, os.ErrPermission)
			return ir.HasBool(fs, true, func(v ssa.Value) bool {
				call, ok := v.(*ssa.Call)
				if !ok || ir.CallName(call) != "errors.Is" {
					return false
				}
				return tb.Of(call.Call.Args[1], nil).Op == "global:os.ErrPermission"
			})
		}
		for _, w := range writes {
			var starts []ir.Point
			if ev := errValueOfCall(w); ev != nil {
				starts = edgeStarts(nilEdges(fn, ev, false))
			}
			if len(starts) == 0 {
				starts = []ir.Point{ir.After(w)}
			}
			bad := ""
			for _, rv := range returnsFrom(starts, ir.Search{StopEdge: func(b *ssa.BasicBlock, si int) bool { return established(ir.EdgeFacts(b, si)) }}) {
				facts := factsAt(rv.ret.Block(), rv.via)
				v := ir.ResultVia(rv.ret, ei, rv.via)
				if ev := errValueOfCall(w); ev != nil && (ir.Resolve(v) == ir.Resolve(ev)) {
					// returning the (nil) write error itself
					bad = c.P.Pos(rv.ret.Pos())
					continue
				}
				if mayBeNilError(rv.ret.Results[ei], facts) && mayBeNilError(v, facts) {
					bad = c.P.Pos(rv.ret.Pos())
				}
			}
			if bad != "" {
				c.R.Bad("R-readback", fk, fk, bad, "after a successful mode write the function can return nil without having compared the read-back value with the requested one (a silently ignored mode switch is reported as success)")
			} else {
				c.R.Ok("R-readback", fk, fk, c.P.Pos(w.Pos()), "every nil return after a successful mode write crossed an edge establishing read-back == requested (or the ErrPermission exception)")
			}
		}
	}
	if n == 0 {
		c.R.Undecided("R-readback", "none", "Fan.SetPwmEnabled", "-", "no Fan.SetPwmEnabled implementation writes a mode file (anchor unresolved)")
	}
}

func (c *Ctx) ruleSignal(tb *ir.TB) {
	n := 0
	rootP := func(v ssa.Value) ssa.Value { return ir.RootP(v, c.StaticCallers) }
	for _, nfn := range c.P.Funcs {
		var notify *ssa.Call
		Calls(nfn, func(cc ssa.CallInstruction) {
			if call, ok := cc.(*ssa.Call); ok && ir.CallName(call) == "os/signal.Notify" {
				notify = call
			}
		})
		if notify == nil {
			continue
		}
		n++
		// the daemon function: walk up through unique static callers (registrations may live in helpers)
		fn := nfn
		hasWithCancel := func(f *ssa.Function) bool {
			found := false
			for g := range c.Closure([]*ssa.Function{f}, true, func(x *ssa.Function) bool { return load_FuncPkgPath(x) != load_FuncPkgPath(f) }) {
				Calls(g, func(cc ssa.CallInstruction) {
					if ir.CallName(cc) == "context.WithCancel" {
						found = true
					}
				})
			}
			return found
		}
		for i := 0; i < 4 && !hasWithCancel(fn); i++ {
			cs := c.StaticCallers(fn)
			if len(cs) != 1 || fn.Parent() != nil {
				break
			}
			fn = cs[0].Parent()
		}
		fk := c.FK(fn)
		scope := c.Closure([]*ssa.Function{fn}, true, func(f *ssa.Function) bool { return load_FuncPkgPath(f) != load_FuncPkgPath(fn) })
		ch := rootP(notify.Call.Args[0])
		// (1) signals
		sigs := map[string]bool{}
		if va := ir.VarArgs(notify.Call.Args[1]); va != nil {
			for _, v := range va {
				t := tb.Of(v, nil)
				sigs[t.Op] = true
			}
		}
		hasTerm := sigs["const:15"]
		hasInt := sigs["const:2"] || sigs["global:os.Interrupt"]
		if hasTerm && hasInt {
			c.R.Ok("R-signal", fk+"|notify-signals", c.FK(nfn), c.P.Pos(notify.Pos()), "signal.Notify registers SIGTERM and SIGINT")
		} else {
			c.R.Bad("R-signal", fk+"|notify-signals", c.FK(nfn), c.P.Pos(notify.Pos()), sprintf("signal.Notify does not register both SIGTERM and SIGINT (has %v)", sigs))
		}
		// context.WithCancel anywhere in the daemon's scope
		var withCancel *ssa.Call
		for f := range scope {
			Calls(f, func(cc ssa.CallInstruction) {
				if call, ok := cc.(*ssa.Call); ok && ir.CallName(call) == "context.WithCancel" {
					withCancel = call
				}
			})
		}
		if withCancel == nil {
			c.R.Bad("R-signal", fk+"|cancel-context", fk, c.P.Pos(fn.Pos()), "no context.WithCancel in the daemon function that registers the signal channel")
			continue
		}
		ctxV, cancelV := resultOfCall(withCancel, 0), resultOfCall(withCancel, 1)
		actors := groupActors(fn)
		// (2) an actor returns only after receiving from ch
		sigActor := false
		for _, a := range actors {
			if a.execute == nil {
				continue
			}
			isRecv := func(ins ssa.Instruction) bool {
				u, ok := ins.(*ssa.UnOp)
				return ok && u.Op == token.ARROW && rootP(u.X) == ch
			}
			// the receive may sit in a helper that always performs it (waitForSignal(sig))
			isRecv0 := isRecv
			isRecv = func(ins ssa.Instruction) bool {
				return isRecv0(ins) || mustPassHelper(ins, a.execute, isRecv0, 2)
			}
			hasRecv := false
			Instrs(a.execute, func(ins ssa.Instruction) {
				if isRecv(ins) {
					hasRecv = true
				}
			})
			if !hasRecv {
				continue
			}
			early := returnsFrom([]ir.Point{{Block: a.execute.Blocks[0]}}, ir.Search{StopInstr: isRecv})
			if len(early) == 0 && len(ir.Returns(a.execute)) > 0 {
				sigActor = true
				c.R.Ok("R-signal", fk+"|signal-actor", c.FK(a.execute), c.P.Pos(a.execute.Pos()), "an actor of the group returns exactly after receiving from the notify channel")
			}
		}
		if !sigActor {
			c.R.Bad("R-signal", fk+"|signal-actor", fk, c.P.Pos(notify.Pos()), "no run.Group actor returns upon receiving from the notify channel")
		}
		// (3) an interrupt function calls cancel on all paths
		cancelled := false
		for _, a := range actors {
			if a.intr == nil || len(a.intr.Blocks) == 0 {
				continue
			}
			isCancel := func(ins ssa.Instruction) bool {
				cc, ok := ins.(ssa.CallInstruction)
				if !ok {
					return false
				}
				if _, isGo := ins.(*ssa.Go); isGo {
					return false
				}
				return cancelV != nil && rootP(cc.Common().Value) == ssa.Value(cancelV)
			}
			isCancel0 := isCancel
			isCancel = func(ins ssa.Instruction) bool {
				return isCancel0(ins) || mustPassHelper(ins, a.intr, isCancel0, 2)
			}
			has := false
			Instrs(a.intr, func(ins ssa.Instruction) {
				if isCancel(ins) {
					has = true
				}
			})
			if !has {
				continue
			}
			if len(returnsFrom([]ir.Point{{Block: a.intr.Blocks[0]}}, ir.Search{StopInstr: isCancel})) == 0 {
				cancelled = true
			}
		}
		if cancelled {
			c.R.Ok("R-signal", fk+"|interrupt-cancels", fk, c.P.Pos(withCancel.Pos()), "an interrupt function of the group calls the cancel function of the shared context on every path")
		} else {
			c.R.Bad("R-signal", fk+"|interrupt-cancels", fk, c.P.Pos(withCancel.Pos()), "no interrupt function of the run.Group calls the context's cancel function on all paths")
		}
		// (4) FanController.Run receives that context
		nrun := 0
		for f := range scope {
			Calls(f, func(cc ssa.CallInstruction) {
				if !isControllerCall(cc, "Run") {
					return
				}
				nrun++
				args := cc.Common().Args
				if len(args) == 0 {
					return
				}
				arg := args[len(args)-1]
				if ctxV != nil && rootP(arg) == ssa.Value(ctxV) {
					c.R.Ok("R-signal", fk+"|controller-context", c.FK(f), c.P.Pos(cc.Pos()), "FanController.Run is given the cancellable context")
				} else {
					c.R.Bad("R-signal", fk+"|controller-context", c.FK(f), c.P.Pos(cc.Pos()), "FanController.Run is not given the context cancelled on shutdown: "+tb.Of(arg, nil).String())
				}
			})
		}
		if nrun == 0 {
			c.R.Undecided("R-signal", fk+"|controller-context", fk, c.P.Pos(fn.Pos()), "no FanController.Run call found next to the signal handling (anchor unresolved)")
		}
		// (5) close(ch) only after signal.Stop(ch)
		for f := range scope {
			isStop := func(ins ssa.Instruction) bool {
				call, ok := ins.(*ssa.Call)
				return ok && ir.CallName(call) == "os/signal.Stop" && rootP(call.Call.Args[0]) == ch
			}
			ff := f
			Instrs(f, func(ins ssa.Instruction) {
				cc, ok := ins.(ssa.CallInstruction)
				if !ok || ir.Callee(cc).Builtin != "close" || rootP(cc.Common().Args[0]) != ch {
					return
				}
				key := fk + "|close-after-stop"
				reached := false
				_, deferred := ins.(*ssa.Defer)
				ir.Search{StopInstr: isStop}.Reach([]ir.Point{{Block: ff.Blocks[0]}}, func(x ssa.Instruction, _ *ssa.BasicBlock) {
					if deferred {
						if _, isRD := x.(*ssa.RunDefers); isRD {
							reached = true
						}
					} else if x == ins {
						reached = true
					}
				})
				if reached {
					c.R.Bad("R-signal", key, c.FK(ff), c.P.Pos(ins.Pos()), "the channel registered with signal.Notify is closed on a path without a preceding signal.Stop: a further SIGTERM/SIGINT makes os/signal send on a closed channel (panic)")
				} else {
					c.R.Ok("R-signal", key, c.FK(ff), c.P.Pos(ins.Pos()), "signal.Stop precedes the close of the notify channel on every path")
				}
			})
		}
	}
	if n == 0 {
		c.R.Undecided("R-signal", "no-notify", "(whole program)", "-", "no signal.Notify call found (anchor unresolved)")
	}
	c.R.Require("R-signal", 4)
}

// mustPassHelper: ins is a static call (not go/defer-less check: plain call or defer) to a helper of the same
// package as `from` in which every path from the entry to a return passes an instruction satisfying pred
// (directly or through such a helper again).
func mustPassHelper(ins ssa.Instruction, from *ssa.Function, pred func(ssa.Instruction) bool, depth int) bool {
	cc, ok := ins.(ssa.CallInstruction)
	if !ok || depth < 0 {
		return false
	}
	if _, isGo := ins.(*ssa.Go); isGo {
		return false
	}
	h := ir.Callee(cc).Static
	if h == nil || ir.Callee(cc).Closure != nil || len(h.Blocks) == 0 || load_FuncPkgPath(h) != load_FuncPkgPath(from) || h == from {
		return false
	}
	missed := false
	ir.Search{StopInstr: func(i2 ssa.Instruction) bool {
		return pred(i2) || mustPassHelper(i2, h, pred, depth-1)
	}}.Reach([]ir.Point{{Block: h.Blocks[0], Idx: 0}}, func(i2 ssa.Instruction, _ *ssa.BasicBlock) {
		if _, isRet := i2.(*ssa.Return); isRet {
			missed = true
		}
	})
	return !missed
}

// ruleFanWrites: every Fan.SetPwm implementation performs the write on every path that reports success. The
// typestates of C03 (final SetPwm(255)) and the value rules of C01/C05 treat an invoke of Fan.SetPwm as "the
// value is now in the fan"; an implementation that returns nil without writing (a cached "already there"
// shortcut on a value it read some time ago) makes that false: the restore's full-speed fallback is skipped.
func (c *Ctx) ruleFanWrites(rule string) {
	// a library call that writes: any function or method named Write* (os.WriteFile, (*os.File).Write,
	// io.WriteString, atomic.WriteFile, ...), fmt.Fprint*, os.Rename, or running an external command
	isSinkName := func(n string) bool {
		switch n {
		case "(*os/exec.Cmd).Run", "(*os/exec.Cmd).Output", "(*os/exec.Cmd).CombinedOutput", "(*os/exec.Cmd).Start",
			"fmt.Fprint", "fmt.Fprintf", "fmt.Fprintln", "os.Rename":
			return true
		}
		if strings.HasPrefix(n, "github.com/markusressel/fan2go/") || strings.HasPrefix(n, "(*github.com/markusressel/fan2go/") || strings.HasPrefix(n, "(github.com/markusressel/fan2go/") {
			return false
		}
		last := n
		if k := strings.LastIndex(last, "."); k >= 0 {
			last = last[k+1:]
		}
		return strings.HasPrefix(last, "Write")
	}
	writes := map[*ssa.Function]bool{}
	var doesWrite func(f *ssa.Function, depth int) bool
	doesWrite = func(f *ssa.Function, depth int) bool {
		if v, ok := writes[f]; ok {
			return v
		}
		if depth > 4 || len(f.Blocks) == 0 {
			return false
		}
		writes[f] = false
		found := false
		Calls(f, func(cc ssa.CallInstruction) {
			if found {
				return
			}
			if _, isGo := cc.(*ssa.Go); isGo {
				return
			}
			if isSinkName(ir.CallName(cc)) {
				found = true
				return
			}
			if st := ir.Callee(cc).Static; st != nil && c.P.IsRepoFunc(st) && load_FuncPkgPath(st) != PkgUI && doesWrite(st, depth+1) {
				found = true
			}
		})
		writes[f] = found
		return found
	}
	n := 0
	for _, fn := range c.ImplMethods(PkgFans, "Fan", "SetPwm") {
		if len(fn.Blocks) == 0 || load_FuncPkgPath(fn) != PkgFans {
			continue
		}
		n++
		fk := c.FK(fn)
		ei := errResultIndex(fn)
		isWrite := func(ins ssa.Instruction) bool {
			cc, ok := ins.(ssa.CallInstruction)
			if !ok {
				return false
			}
			if _, isDefer := ins.(*ssa.Defer); isDefer {
				return false
			}
			if isSinkName(ir.CallName(cc)) {
				return true
			}
			st := ir.Callee(cc).Static
			return st != nil && c.P.IsRepoFunc(st) && load_FuncPkgPath(st) != PkgUI && doesWrite(st, 0)
		}
		bad := ""
		for _, rv := range returnsFrom([]ir.Point{{Block: fn.Blocks[0]}}, ir.Search{StopInstr: isWrite}) {
			if ei >= 0 {
				facts := factsAt(rv.ret.Block(), rv.via)
				if !mayBeNilError(rv.ret.Results[ei], facts) || !mayBeNilError(ir.ResultVia(rv.ret, ei, rv.via), facts) {
					continue
				}
			}
			bad = c.P.Pos(rv.ret.Pos())
		}
		if bad != "" {
			c.R.Bad(rule, fk, fk, bad, "this Fan.SetPwm implementation can report success without having written anything (return at "+bad+"): callers - the restore's final SetPwm(255) among them - take a nil result for 'the fan now has this value'")
		} else {
			c.R.Ok(rule, fk, fk, c.P.Pos(fn.Pos()), "every path that can return a nil error passes a write to the device (file write / command run)")
		}
	}
	if n == 0 {
		c.R.Undecided(rule, "none", PkgFans, "-", "no Fan.SetPwm implementation found (anchor unresolved)")
	}
	c.R.Require(rule, 3)
}
